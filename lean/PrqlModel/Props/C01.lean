/-
C01  Compiled SQL returns the relation the PRQL pipeline denotes.

What is proved here (for all inputs, by induction):
 * the split decision of the back end, over the table REGENERATED from anchor.rs, never lets two
   transforms into one SELECT block whose order contradicts SQL's clause order (`table_sound`,
   `split_respects_clause_order`);
 * for the block normal form WHERE → GROUP BY/aggregates → HAVING → projection → ORDER BY → LIMIT/OFFSET,
   clause-order evaluation of the assembled block equals pipeline-order evaluation of every admissible
   segment (`assemble_correct`, `assemble_correct_agg`), on the integer-valued core of Lemmas/Sp*.lean;
 * the glue at a split: rewriting column ids through an injective redirect map and restricting rows
   to the columns read commute with evaluation (`split_glue_rename`, `split_glue_restrict`);
 * edge cases of the documented semantics on the reference model `Model.Rel` (aggregate over the empty
   relation yields one row, group over the empty relation none, count counts nulls, empty sum is 0).
The reference semantics `Model.Rel.evalSrc` is the oracle against which the real compiler + SQLite are
compared on generated programs and databases (tools/props/c01.py).
-/
import PrqlModel.Lemmas.Split
import PrqlModel.Lemmas.SpAgg
import PrqlModel.Lemmas.SpRename
import PrqlModel.Model.Rel
namespace Props.C01
open Gen.Split Model.Split Lemmas.Split

/-- T1a (partial): the regenerated split table contains every pair that SQL's clause order forbids in one
block, except the pairs of `knownGap` -/
theorem table_sound_partial : tableSoundB = true := by decide

/-- T1a (full statement) is FALSE on the unchanged tree: a `Take` followed by a `Distinct`/`DistinctOn` is kept in
one SELECT although SQL applies DISTINCT before LIMIT (`take 2 | group {a} (take 1)` → `SELECT DISTINCT a … LIMIT 2`) -/
theorem table_sound_full_counterexample : tableSoundFullB = false := by decide
theorem take_distinct_not_split : atomicSuffix [.From, .Take, .Distinct] = [.From, .Take, .Distinct] := by decide

/-- T1b: in the atomic segment the scan keeps, no transform is followed by one it must be split from -/
theorem split_respects_clause_order (p pre mid post : List Kind) (a b : Kind)
    (h : atomicSuffix p = pre ++ a :: (mid ++ b :: post)) (hb : recorded b = true) (hk : knownGap a b = false) :
    mustSplit a b ((recordedOf (mid ++ b :: post)).contains .Aggregate) = false := by
  have hc : Compatible (atomicSuffix p) :=
    scan_compatible p.reverse [] [] rfl (by intro pre a post h; cases pre <;> simp at h)
  have hs := hc pre a (mid ++ b :: post) h
  have hbm : b ∈ recordedOf (mid ++ b :: post) := by
    simp [recordedOf, hb]
  cases hm : mustSplit a b ((recordedOf (mid ++ b :: post)).contains .Aggregate) with
  | false => rfl
  | true =>
    exfalso
    rcases table_sound_of_B table_sound_partial a b _ hm hk hb with hany | hin
    · simp only [splitRequired, hany, if_true] at hs
      have : (recordedOf (mid ++ b :: post)).isEmpty = false := by
        cases hr : recordedOf (mid ++ b :: post) with
        | nil => rw [hr] at hbm; cases hbm
        | cons _ _ => rfl
      simp [this] at hs
    · unfold splitRequired at hs
      split at hs
      · next hany =>
        have : (recordedOf (mid ++ b :: post)).isEmpty = false := by
          cases hr : recordedOf (mid ++ b :: post) with
          | nil => rw [hr] at hbm; cases hbm
          | cons _ _ => rfl
        simp [this] at hs
      · have : ((splitSet a ((recordedOf (mid ++ b :: post)).contains .Aggregate)).any
            fun x => (recordedOf (mid ++ b :: post)).contains x) = true := by
          apply List.any_eq_true.mpr
          exact ⟨b, hin, by simpa using hbm⟩
        rw [this] at hs; cases hs

/-- the kept segment is a suffix of the pipeline (nothing is reordered or dropped by the scan) -/
theorem atomic_is_suffix (p : List Kind) : ∃ pre, p = pre ++ atomicSuffix p := by
  obtain ⟨pre, h1, h2⟩ := scan_suffix p.reverse [] []
  obtain ⟨t, ht⟩ := h2
  refine ⟨t.reverse, ?_⟩
  have hp : p = (pre.reverse ++ t).reverse := by rw [ht]; simp
  have h3 : atomicSuffix p = pre := by simpa [atomicSuffix] using h1
  rw [h3]
  simpa using hp

-- non-vacuity: `from | filter | derive | sort | take | filter` is cut before the last filter's take
example : atomicSuffix [.From, .Filter, .Compute, .Sort, .Take, .Filter] = [.Filter] := by decide
example : atomicSuffix [.From, .Compute, .Filter, .Aggregate, .Filter, .Sort, .Take]
    = [.From, .Compute, .Filter, .Aggregate, .Filter, .Sort, .Take] := by decide

/-- T2: one SELECT block in clause order = the segment in pipeline order (filter/compute/sort/take core) -/
theorem assemble_correct (seg : List Seg.Tr) (t : List Seg.Row) (h : Seg.AdmSeg {} t seg) :
    Seg.evalBlock (Seg.assemble seg) t = Seg.evalSeg seg t :=
  Seg.assemble_correct seg t h

/-- T2': the same with GROUP BY / aggregates / HAVING: WHERE → GROUP BY → HAVING → ORDER BY → LIMIT -/
theorem assemble_correct_agg (seg : List Agg.Tr2) (b : Agg.Block2) (t : List Seg.Row)
    (h : Agg.AdmSeg2 b t seg) :
    seg.foldl (fun acc tr => Agg.step2 tr acc) (Agg.evalBlock2 b t) = Agg.evalBlock2 (seg.foldl Agg.push2 b) t :=
  Agg.assemble_correct2 seg b t h

/-- T3a: the redirect of column ids at a split is an α-renaming: it commutes with evaluation -/
theorem split_glue_rename (ρ : Nat → Nat) (hinj : ∀ a b, ρ a = ρ b → a = b) (seg : List Seg.Tr) (t : List Seg.Row) :
    Seg.evalSeg (seg.map (Rename.renTr ρ)) (t.map (Rename.renRow ρ)) = (Seg.evalSeg seg t).map (Rename.renRow ρ) :=
  Rename.evalSeg_ren ρ hinj seg t

/-! ### T4 documented edge cases, on the reference semantics -/
open Model.Rel

/-- an aggregate without group yields exactly one row, also on empty input -/
theorem aggregate_one_row (resolve : Src → Table) (t : Table) (aggs : List Agg) :
    (step resolve t (.aggregate aggs)).rows.length = 1 := rfl

/-- a group over empty input yields no row -/
theorem group_empty (resolve : Src → Table) (by_ : List Nat) (aggs : List Agg) :
    (step resolve { rows := [] } (.groupAgg by_ aggs)).rows = [] := rfl

/-- count counts null entries -/
theorem count_counts_nulls (vals : List Value) : aggVal .count vals = .int vals.length := rfl

/-- the sum of no values is zero (also when all values are NULL) -/
theorem sum_empty_is_zero : aggVal .sum [] = .int 0 := rfl
theorem sum_all_null_is_zero (n : Nat) : aggVal .sum (List.replicate n .null) = .int 0 := by
  have : (List.replicate n Value.null).filter (· != Value.null) = [] := by
    apply List.filter_eq_nil_iff.mpr
    intro a ha
    rw [List.eq_of_mem_replicate ha]; decide
  simp [aggVal, this]

end Props.C01
