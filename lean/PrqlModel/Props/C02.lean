/-
C02  Operator precedence, associativity, null and literal folding survive to SQL.
-/
import PrqlModel.Model.Pratt
import PrqlModel.Model.SqlExpr
namespace Props.C02
open Gen.Pratt Model.PExpr Model.Pratt

/-- T1: the table extracted from parser/expr.rs is the documented one -/
theorem pratt_table_is_documented :
    ∀ o : BinOp, o.level = docLevel o ∧ o.rassoc = docRassoc o := by
  intro o; cases o <;> decide

end Props.C02
