/-
C02  Operator precedence, associativity, null and literal folding survive to SQL.

Tables (regenerated on every run): Gen/Pratt (parser/expr.rs), Gen/Expand (ast_expand.rs), Gen/SqlOps (std.sql.prql, gen_expr.rs).
 T1  pratt_table_is_documented     the extracted Pratt table IS the documented precedence table.
 T2  pratt_parses_tree             for EVERY operator tree (any depth) the parser model, run on the tokens printed with the
                                   parentheses the documented table asks for, returns the tree (instance of PrecU.roundtrip).
 T3  static_eval_sound             FALSE as stated (counterexample); proved parts below.
 T4  sql_print_parse               FALSE as stated: the emitter's strengths are not compatible with SQLite's grammar
                                   (emitter_not_compatible); proved for all trees that avoid the 67 excluded triples
                                   (sql_print_parse_partial), counterexamples for the rest.
 T5  sql_tree_meaning              per-operator meaning of the SQL the emitter chooses.
-/
import PrqlModel.Lemmas.Pratt
import PrqlModel.Lemmas.ExprSem
import PrqlModel.Model.SqlPrec
namespace Props.C02
open Gen.Pratt Model.PExpr Model.Pratt Lemmas.Pratt

/-! ## T1 -/
/-- T1: the table extracted from parser/expr.rs is the documented one -/
theorem pratt_table_is_documented :
    ∀ o : BinOp, o.level = docLevel o ∧ o.rassoc = docRassoc o := by
  intro o; cases o <;> decide

/-- every unary operator binds tighter than every binary one -/
theorem unary_above_binary : ∀ o : BinOp, o.level < unaryLevel := by
  intro o; cases o <;> decide

/-- the operator token maps are injective: no token stands for two binary (or two unary) operators -/
theorem binop_tokens_injective : ∀ a b : BinOp, a.tok = b.tok → a = b := by
  intro a b; cases a <;> cases b <;> decide
theorem unop_tokens_injective : ∀ a b : UnOp, a.tok = b.tok → a = b := by
  intro a b; cases a <;> cases b <;> decide

/-! ## T2 -/
/-- T2: parsing the minimally parenthesised token list of ANY operator tree gives the tree back -/
theorem pratt_parses_tree (t : PTree) :
    parseToks ((PrecU.pr docNp t).map ofPTok) = some (toSExpr t) := by
  simp [parseToks, classify_pr, adjacent_pr, PrecU.roundtrip_all doc_compat t]

-- non-vacuity: `a - (b - c) ** -d` (right operand of `-` needs parentheses, `**` binds tighter, unary tightest)
example : parseToks [.atom (.col 0), .sym (.ctrl '-'), .lp, .atom (.col 1), .sym (.ctrl '-'), .atom (.col 2), .rp,
    .sym (.kind .Pow), .sym (.ctrl '-'), .atom (.col 3)]
    = some (.bin .Sub (.col 0) (.bin .Pow (.bin .Sub (.col 1) (.col 2)) (.un .Neg (.col 3)))) := by decide
/-- `- -a` is not an expression: the operand of a unary operator is a bare term -/
example : parseToks [.sym (.ctrl '-'), .sym (.ctrl '-'), .atom (.col 0)] = none := by decide

/-! ## T3  expansion and static evaluation -/
open Lemmas.ExprSem Model.Val

/-- T3 (full statement): compile-time simplification never changes the value -/
def StaticEvalSound : Prop := ∀ (e : PExpr) (ρ : Env), evalP ρ (staticEval e) = evalP ρ e

/-- T3 is FALSE on the unchanged tree: `(case [5 == 2 => a]) != 3 - a` folds to `null != 3 - a`, which the null-comparison
rule reads as "3 - a is not null": the value changes from NULL to true -/
theorem static_eval_sound_counterexample : ¬ StaticEvalSound := by
  intro h
  have := h (.bin .Ne (.caseB (.bin .Eq (.lit (.int 5)) (.lit (.int 2))) (.col 0) .caseEnd) (.bin .Sub (.lit (.int 3)) (.col 0)))
    [.num 1]
  revert this; decide +kernel

/-- T3 (partial): static evaluation keeps the meaning of every expression in which folding does not turn an operand of
`==`/`!=` (or a bound of `in`) into the literal null; strings have no value in this model -/
theorem static_eval_sound_partial (ρ : Env) (e : PExpr) (hs : noStr e = true) (hn : nullStable e = true) :
    evalP ρ (staticEval e) = evalP ρ e := sev_sound ρ false e hs hn

-- non-vacuity: `case [1 == 2 => a, true => -(3) + b] ?? (null ?? c)` is string-free and null-stable, and it does fold
example : nullStable (.bin .Coalesce (.caseB (.bin .Eq (.lit (.int 1)) (.lit (.int 2))) (.col 0)
    (.caseB (.lit (.bool true)) (.bin .Add (.un .Neg (.lit (.int 3))) (.col 1)) .caseEnd)) (.bin .Coalesce (.lit .null) (.col 2))) = true := by decide
example : staticEval (.bin .Coalesce (.caseB (.bin .Eq (.lit (.int 1)) (.lit (.int 2))) (.col 0)
    (.caseB (.lit (.bool true)) (.bin .Add (.un .Neg (.lit (.int 3))) (.col 1)) .caseEnd)) (.bin .Coalesce (.lit .null) (.col 2)))
    = .bin .Coalesce (.bin .Add (.lit (.int (-3))) (.col 1)) (.col 2) := by decide

/-- expansion of the surface operators (full statement) -/
def ExpandSound : Prop := ∀ (e : SExpr) (ρ : Env), evalP ρ (expand e) = evalDoc ρ e

/-- FALSE on the unchanged tree: `a == +null` is a comparison with an expression, the expanded tree compares with the literal -/
theorem expand_sound_counterexample : ¬ ExpandSound := by
  intro h
  have := h (.bin .Eq (.col 0) (.un .Add (.lit .null))) [.num 1]
  revert this; decide +kernel

theorem expand_sound_partial (ρ : Env) (e : SExpr) (h : nullStableS e = true) :
    evalP ρ (expand e) = evalDoc ρ e := expand_sound ρ e h

/-- the resolved tree means what the source tree means (pow argument swap, `+x`, `in`, user functions, folding) -/
theorem resolved_tree_meaning (ρ : Env) (e : SExpr) (h1 : nullStableS e = true) (h2 : noStr (expand e) = true)
    (h3 : nullStable (expand e) = true) : evalP ρ (staticEval (expand e)) = evalDoc ρ e := by
  rw [static_eval_sound_partial ρ _ h2 h3, expand_sound_partial ρ e h1]

-- non-vacuity: `2 ** a - (b | in 1..null)`
example : nullStableS (.bin .Sub (.bin .Pow (.lit (.int 2)) (.col 0)) (.inRange (.col 1) (.lit (.int 1)) (.lit .null))) = true := by decide
example : nullStable (expand (.bin .Sub (.bin .Pow (.lit (.int 2)) (.col 0)) (.inRange (.col 1) (.lit (.int 1)) (.lit .null)))) = true := by decide

/-! ## T4  the emitter as a printer, SQLite as the parser -/
open Model.SqlPrec PrecU Gen.SqlOps

theorem eop_mem_all (o : EOp) : o ∈ EOp.all := by
  cases o with
  | bin b => cases b <;> decide
  | divF => decide
  | mod => decide
  | regexp => decide
theorem eu_mem_all (u : EU) : u ∈ EU.all := by cases u <;> decide

/-- T4 (full statement): whatever the emitter prints, SQLite parses back to the same tree -/
def SqlPrintParse : Prop := ∀ t : ETree, parse sqliteTbl (pr npEmit t) = some (t, [])

/-- the strengths / associativities extracted from gen_expr.rs and std.sql.prql are NOT compatible with SQLite's grammar -/
theorem emitter_not_compatible : compatB EOp.all EU.all sqliteTbl npEmit = false := by decide

/-- with parentheses added at the excluded triples they are -/
theorem fix_compat : Compat sqliteTbl npFix :=
  compat_of_compatB EOp.all EU.all eop_mem_all eu_mem_all _ _ (by decide)

/-- the excluded (parent, side, child) triples: the emitter leaves the child bare and SQLite regroups it -/
theorem excluded_count : excludedList.length = 67 := by decide

/-- T4 (partial): every tree in which no excluded triple occurs is parsed back exactly, at any depth -/
theorem sql_print_parse_partial (t : ETree) (h : agree npEmit npFix t) :
    parse sqliteTbl (pr npEmit t) = some (t, []) := by
  rw [pr_congr t h]; exact roundtrip fix_compat t

-- non-vacuity: `a + b * c < -d AND NOT e` has no excluded triple
example : agree npEmit npFix
    (.bin (.bin .And) (.bin (.bin .Lt) (.bin (.bin .Plus) (.leaf (.col 0)) (.bin (.bin .Multiply) (.leaf (.col 1)) (.leaf (.col 2))))
      (.un .neg (.leaf (.col 3)))) (.un .not (.leaf (.col 4))) : ETree) := agree_of_agreeB _ (by decide)

/-- counterexample 1: `(a = b) < c` and `a = (b < c)` are printed as the same tokens `a = b < c` -/
theorem sql_print_parse_counterexample_comparison :
    pr npEmit (.bin (.bin .Lt) (.bin (.bin .Eq) (.leaf (.col 0)) (.leaf (.col 1))) (.leaf (.col 2)) : ETree)
      = pr npEmit (.bin (.bin .Eq) (.leaf (.col 0)) (.bin (.bin .Lt) (.leaf (.col 1)) (.leaf (.col 2)))) := by decide

theorem sql_print_parse_counterexample : ¬ SqlPrintParse := by
  intro h
  have := h (.bin (.bin .Lt) (.bin (.bin .Eq) (.leaf (.col 0)) (.leaf (.col 1))) (.leaf (.col 2)))
  revert this; decide

/-- counterexample 2: `a * (b % c)` is printed `a * b % c`, which SQLite reads as `(a * b) % c` -/
theorem sql_print_parse_counterexample_mul_mod :
    parse sqliteTbl (pr npEmit (.bin (.bin .Multiply) (.leaf (.col 0)) (.bin .mod (.leaf (.col 1)) (.leaf (.col 2))) : ETree))
      = some (.bin .mod (.bin (.bin .Multiply) (.leaf (.col 0)) (.leaf (.col 1))) (.leaf (.col 2)), []) := by decide

/-- counterexample 3: `(a * b) || c` is printed `a * b || c`, which SQLite reads as `a * (b || c)` -/
theorem sql_print_parse_counterexample_concat :
    parse sqliteTbl (pr npEmit (.bin (.bin .StringConcat) (.bin (.bin .Multiply) (.leaf (.col 0)) (.leaf (.col 1))) (.leaf (.col 2)) : ETree))
      = some (.bin (.bin .Multiply) (.leaf (.col 0)) (.bin (.bin .StringConcat) (.leaf (.col 1)) (.leaf (.col 2))), []) := by decide

end Props.C02
