/-
C02  Operator precedence, associativity, null and literal folding survive to SQL.

Tables (regenerated on every run): Gen/Pratt (parser/expr.rs), Gen/Expand (ast_expand.rs), Gen/SqlOps (std.sql.prql, gen_expr.rs).
 T1  pratt_table_is_documented     the extracted Pratt table IS the documented precedence table.
 T2  pratt_parses_tree             for EVERY operator tree (any depth) the parser model, run on the tokens printed with the
                                   parentheses the documented table asks for, returns the tree (instance of PrecU.roundtrip).
 T3  static_eval_sound             FALSE as stated (counterexample); proved parts below.
 T4  sql_print_parse               FALSE as stated: the emitter's strengths are not compatible with SQLite's grammar
                                   (emitter_not_compatible); proved for all trees that avoid the 67 excluded triples
                                   (sql_print_parse_partial), counterexamples for the rest.
 T5  sql_tree_meaning              per-operator meaning of the SQL the emitter chooses.
-/
import PrqlModel.Lemmas.Pratt
import PrqlModel.Lemmas.ExprSem
import PrqlModel.Lemmas.SqlSem
import PrqlModel.Model.SqlPrec
namespace Props.C02
open Gen.Pratt Model.PExpr Model.Pratt Lemmas.Pratt

/-! ## T1 -/
/-- T1: the table extracted from parser/expr.rs is the documented one -/
theorem pratt_table_is_documented :
    ∀ o : BinOp, o.level = docLevel o ∧ o.rassoc = docRassoc o := by
  intro o; cases o <;> decide

/-- every unary operator binds tighter than every binary one -/
theorem unary_above_binary : ∀ o : BinOp, o.level < unaryLevel := by
  intro o; cases o <;> decide

/-- the operator token maps are injective: no token stands for two binary (or two unary) operators -/
theorem binop_tokens_injective : ∀ a b : BinOp, a.tok = b.tok → a = b := by
  intro a b; cases a <;> cases b <;> decide
theorem unop_tokens_injective : ∀ a b : UnOp, a.tok = b.tok → a = b := by
  intro a b; cases a <;> cases b <;> decide

/-! ## T2 -/
/-- T2: parsing the minimally parenthesised token list of ANY operator tree gives the tree back -/
theorem pratt_parses_tree (t : PTree) :
    parseToks ((PrecU.pr docNp t).map ofPTok) = some (toSExpr t) := by
  simp [parseToks, classify_pr, adjacent_pr, PrecU.roundtrip_all doc_compat t]

/-- T2 in terms of the source printer of the correspondence: what `srcToks` prints for an operator tree parses back to it -/
theorem pratt_parses_printed_source (t : PTree) (h : noStar t = true) : parseToks (srcToks (toSExpr t)) = some (toSExpr t) := by
  rw [srcToks_eq t h]; exact pratt_parses_tree t

-- non-vacuity: `a - (b - c) ** -d` (right operand of `-` needs parentheses, `**` binds tighter, unary tightest)
example : parseToks [.atom (.col 0), .sym (.ctrl '-'), .lp, .atom (.col 1), .sym (.ctrl '-'), .atom (.col 2), .rp,
    .sym (.kind .Pow), .sym (.ctrl '-'), .atom (.col 3)]
    = some (.bin .Sub (.col 0) (.bin .Pow (.bin .Sub (.col 1) (.col 2)) (.un .Neg (.col 3)))) := by decide
/-- `- -a` is not an expression: the operand of a unary operator is a bare term -/
example : parseToks [.sym (.ctrl '-'), .sym (.ctrl '-'), .atom (.col 0)] = none := by decide

/-! ## T3  expansion and static evaluation -/
open Lemmas.ExprSem Model.Val

/-- T3 (full statement): compile-time simplification never changes the value -/
def StaticEvalSound : Prop := ∀ (e : PExpr) (ρ : Env), evalP ρ (staticEval e) = evalP ρ e

/-- T3 is FALSE on the unchanged tree: `(case [5 == 2 => a]) != 3 - a` folds to `null != 3 - a`, which the null-comparison
rule reads as "3 - a is not null": the value changes from NULL to true -/
theorem static_eval_sound_counterexample : ¬ StaticEvalSound := by
  intro h
  have := h (.bin .Ne (.caseB (.bin .Eq (.lit (.int 5)) (.lit (.int 2))) (.col 0) .caseEnd) (.bin .Sub (.lit (.int 3)) (.col 0)))
    [.num 1]
  revert this; decide +kernel

/-- T3 (partial): static evaluation keeps the meaning of every expression in which folding does not turn an operand of
`==`/`!=` (or a bound of `in`) into the literal null; strings have no value in this model -/
theorem static_eval_sound_partial (ρ : Env) (e : PExpr) (hs : noStr e = true) (hn : nullStable e = true) :
    evalP ρ (staticEval e) = evalP ρ e := sev_sound ρ false e hs hn

-- non-vacuity: `case [1 == 2 => a, true => -(3) + b] ?? (null ?? c)` is string-free and null-stable, and it does fold
example : nullStable (.bin .Coalesce (.caseB (.bin .Eq (.lit (.int 1)) (.lit (.int 2))) (.col 0)
    (.caseB (.lit (.bool true)) (.bin .Add (.un .Neg (.lit (.int 3))) (.col 1)) .caseEnd)) (.bin .Coalesce (.lit .null) (.col 2))) = true := by decide
example : staticEval (.bin .Coalesce (.caseB (.bin .Eq (.lit (.int 1)) (.lit (.int 2))) (.col 0)
    (.caseB (.lit (.bool true)) (.bin .Add (.un .Neg (.lit (.int 3))) (.col 1)) .caseEnd)) (.bin .Coalesce (.lit .null) (.col 2)))
    = .bin .Coalesce (.bin .Add (.lit (.int (-3))) (.col 1)) (.col 2) := by decide

/-- expansion of the surface operators (full statement) -/
def ExpandSound : Prop := ∀ (e : SExpr) (ρ : Env), evalP ρ (expand e) = evalDoc ρ e

/-- FALSE on the unchanged tree: `a == +null` is a comparison with an expression, the expanded tree compares with the literal -/
theorem expand_sound_counterexample : ¬ ExpandSound := by
  intro h
  have := h (.bin .Eq (.col 0) (.un .Add (.lit .null))) [.num 1]
  revert this; decide +kernel

theorem expand_sound_partial (ρ : Env) (e : SExpr) (h : nullStableS e = true) :
    evalP ρ (expand e) = evalDoc ρ e := expand_sound ρ e h

/-- the resolved tree means what the source tree means (pow argument swap, `+x`, `in`, user functions, folding) -/
theorem resolved_tree_meaning (ρ : Env) (e : SExpr) (h1 : nullStableS e = true) (h2 : noStr (expand e) = true)
    (h3 : nullStable (expand e) = true) : evalP ρ (staticEval (expand e)) = evalDoc ρ e := by
  rw [static_eval_sound_partial ρ _ h2 h3, expand_sound_partial ρ e h1]

-- non-vacuity: `2 ** a - (b | in 1..null)`
example : nullStableS (.bin .Sub (.bin .Pow (.lit (.int 2)) (.col 0)) (.inRange (.col 1) (.lit (.int 1)) (.lit .null))) = true := by decide
example : nullStable (expand (.bin .Sub (.bin .Pow (.lit (.int 2)) (.col 0)) (.inRange (.col 1) (.lit (.int 1)) (.lit .null)))) = true := by decide

/-! ## T4  the emitter as a printer, SQLite as the parser -/
open Model.SqlPrec PrecU Gen.SqlOps

theorem eop_mem_all (o : EOp) : o ∈ EOp.all := by
  cases o with
  | bin b => cases b <;> decide
  | divF => decide
  | mod => decide
  | regexp => decide
theorem eu_mem_all (u : EU) : u ∈ EU.all := by cases u <;> decide

/-- T4 (full statement): whatever the emitter prints, SQLite parses back to the same tree -/
def SqlPrintParse : Prop := ∀ t : ETree, parse sqliteTbl (pr npEmit t) = some (t, [])

/-- the strengths / associativities extracted from gen_expr.rs and std.sql.prql are NOT compatible with SQLite's grammar -/
theorem emitter_not_compatible : compatB EOp.all EU.all sqliteTbl npEmit = false := by decide

/-- with parentheses added at the excluded triples they are -/
theorem fix_compat : Compat sqliteTbl npFix :=
  compat_of_compatB EOp.all EU.all eop_mem_all eu_mem_all _ _ (by decide)

/-- the excluded (parent, side, child) triples: the emitter leaves the child bare and SQLite regroups it -/
theorem excluded_count : excludedList.length = 67 := by decide

/-- T4 (partial): every tree in which no excluded triple occurs is parsed back exactly, at any depth -/
theorem sql_print_parse_partial (t : ETree) (h : agree npEmit npFix t) :
    parse sqliteTbl (pr npEmit t) = some (t, []) := by
  rw [pr_congr t h]; exact roundtrip fix_compat t

-- non-vacuity: `a + b * c < -d AND NOT e` has no excluded triple
example : agree npEmit npFix
    (.bin (.bin .And) (.bin (.bin .Lt) (.bin (.bin .Plus) (.leaf (.col 0)) (.bin (.bin .Multiply) (.leaf (.col 1)) (.leaf (.col 2))))
      (.un .neg (.leaf (.col 3)))) (.un .not (.leaf (.col 4))) : ETree) := agree_of_agreeB _ (by decide)

/-- the excluded triples that merely re-associate an associative operation (`a + (b + c)` printed `a + b + c`) -/
def harmlessList : List (ENode × Bool × ENode) := [
  (.b (.bin .Multiply), false, .b (.bin .Multiply)), (.b (.bin .Multiply), false, .b .divF),
  (.b (.bin .Plus), false, .b (.bin .Plus)), (.b (.bin .Plus), false, .b (.bin .Minus)),
  (.b (.bin .And), false, .b (.bin .And)), (.b (.bin .Or), false, .b (.bin .Or)),
  (.b (.bin .StringConcat), false, .b (.bin .StringConcat))]

def isCmpLike : ENode → Bool
  | .b (.bin .Eq) | .b (.bin .NotEq) | .b (.bin .Gt) | .b (.bin .Lt) | .b (.bin .GtEq) | .b (.bin .LtEq) | .b .regexp => true
  | _ => false

/-- every excluded triple is a harmless re-association, a comparison (or REGEXP) under a comparison, an operand of `||`,
or `%` as the right operand of `*` -/
theorem excluded_classification :
    excludedList.all (fun x =>
      harmlessList.contains x || (isCmpLike x.1 && isCmpLike x.2.2) || x.1 == .b (.bin .StringConcat)
        || x == (.b (.bin .Multiply), false, .b .mod)) = true := by decide

/-- the harmless ones at the level of values (exact arithmetic, three-valued logic): re-association does not change the value -/
theorem reassoc_add (a b c : Value) : (vAdd b c).bind (vAdd a) = (vAdd a b).bind (fun x => vAdd x c) := by
  cases a <;> cases b <;> cases c <;> simp [vAdd, lift2] <;> grind
theorem reassoc_add_sub (a b c : Value) : (vSub b c).bind (vAdd a) = (vAdd a b).bind (fun x => vSub x c) := by
  cases a <;> cases b <;> cases c <;> simp [vAdd, vSub, lift2] <;> grind
theorem reassoc_mul (a b c : Value) : (vMul b c).bind (vMul a) = (vMul a b).bind (fun x => vMul x c) := by
  cases a <;> cases b <;> cases c <;> simp [vMul, lift2] <;> grind
theorem truth_ofBool3 (x : Option Bool) : (ofBool3 x).truth = x := by
  cases x with
  | none => rfl
  | some b => simp [ofBool3, truth_ofBool]
theorem and3_assoc (x y z : Option Bool) : and3 x (and3 y z) = and3 (and3 x y) z := by
  rcases x with _ | (_ | _) <;> rcases y with _ | (_ | _) <;> rcases z with _ | (_ | _) <;> rfl
theorem or3_assoc (x y z : Option Bool) : or3 x (or3 y z) = or3 (or3 x y) z := by
  rcases x with _ | (_ | _) <;> rcases y with _ | (_ | _) <;> rcases z with _ | (_ | _) <;> rfl
theorem reassoc_and (a b c : Value) : vAnd a (vAnd b c) = vAnd (vAnd a b) c := by
  simp only [vAnd, truth_ofBool3, and3_assoc]
theorem reassoc_or (a b c : Value) : vOr a (vOr b c) = vOr (vOr a b) c := by
  simp only [vOr, truth_ofBool3, or3_assoc]

/-- counterexample 1: `(a = b) < c` and `a = (b < c)` are printed as the same tokens `a = b < c` -/
theorem sql_print_parse_counterexample_comparison :
    pr npEmit (.bin (.bin .Lt) (.bin (.bin .Eq) (.leaf (.col 0)) (.leaf (.col 1))) (.leaf (.col 2)) : ETree)
      = pr npEmit (.bin (.bin .Eq) (.leaf (.col 0)) (.bin (.bin .Lt) (.leaf (.col 1)) (.leaf (.col 2)))) := by decide

theorem sql_print_parse_counterexample : ¬ SqlPrintParse := by
  intro h
  have := h (.bin (.bin .Lt) (.bin (.bin .Eq) (.leaf (.col 0)) (.leaf (.col 1))) (.leaf (.col 2)))
  revert this; decide

/-- counterexample 2: `a * (b % c)` is printed `a * b % c`, which SQLite reads as `(a * b) % c` -/
theorem sql_print_parse_counterexample_mul_mod :
    parse sqliteTbl (pr npEmit (.bin (.bin .Multiply) (.leaf (.col 0)) (.bin .mod (.leaf (.col 1)) (.leaf (.col 2))) : ETree))
      = some (.bin .mod (.bin (.bin .Multiply) (.leaf (.col 0)) (.leaf (.col 1))) (.leaf (.col 2)), []) := by decide

/-- counterexample 3: `(a * b) || c` is printed `a * b || c`, which SQLite reads as `a * (b || c)` -/
theorem sql_print_parse_counterexample_concat :
    parse sqliteTbl (pr npEmit (.bin (.bin .StringConcat) (.bin (.bin .Multiply) (.leaf (.col 0)) (.leaf (.col 1))) (.leaf (.col 2)) : ETree))
      = some (.bin (.bin .Multiply) (.leaf (.col 0)) (.bin (.bin .StringConcat) (.leaf (.col 1)) (.leaf (.col 2))), []) := by decide

/-! ## T5  meaning of the SQL chosen per operator -/
open Model.SqlExpr Lemmas.SqlSem

/-- T5: per operator, SQLite's operation on INTEGER / REAL / NULL computes the documented operation -/
theorem sql_tree_meaning (a b c : SVal) :
    -- comparison with the literal null: IS NULL / IS NOT NULL
    (sIsNull a).toValue = vIsNull a.toValue ∧ (sNot (sIsNull a)).toValue = vNot (vIsNull a.toValue) ∧
    -- `in lo..hi`: BETWEEN
    betweenVal a.toValue b.toValue c.toValue = some (sAnd (sCmp .ge a b) (sCmp .le a c)).toValue ∧
    -- `??`: COALESCE
    (sCoalesce a b).toValue = vCoalesce a.toValue b.toValue ∧
    -- `/` (sqlite dialect): `(l * 1.0 / r)` is real division
    vDivF a.toValue b.toValue = some (sDiv (sMul a (.real 1)) b).toValue ∧
    -- arithmetic, comparisons, three-valued logic
    vAdd a.toValue b.toValue = some (sAdd a b).toValue ∧ vSub a.toValue b.toValue = some (sSub a b).toValue ∧
    vMul a.toValue b.toValue = some (sMul a b).toValue ∧ (∀ k, vCmp k a.toValue b.toValue = some (sCmp k a b).toValue) ∧
    (sAnd a b).toValue = vAnd a.toValue b.toValue ∧ (sOr a b).toValue = vOr a.toValue b.toValue ∧
    (sNot a).toValue = vNot a.toValue ∧ (sNeg a).toValue = vNeg a.toValue :=
  ⟨(is_null_meaning a).1, (is_null_meaning a).2, between_meaning a b c, coalesce_meaning a b, real_division_meaning a b,
   add_meaning a b, sub_meaning a b, mul_meaning a b, fun k => cmp_meaning k a b, and_meaning a b, or_meaning a b,
   not_meaning a, neg_meaning a⟩

/-- CASE: first true branch, NULL without a default -/
theorem sql_case_meaning (ρ : SEnv) (c v rest : SqlE) (vc : SVal) (hc : evalS ρ c = some vc) :
    evalS ρ (.caseW c v rest) = (if vc.toValue.truth = some true then evalS ρ v else evalS ρ rest) :=
  case_meaning ρ c v rest vc hc

/-- `//`: the sqlite template is truncating division except for INTEGER operands with 0 < |l| < |r| (all pairs of [-9,9]),
and for every pair with a REAL dividend k/2; the generic template is right on all integer pairs of [-9,9] -/
theorem sql_div_i_meaning_partial :
    intRange.all (fun l => intRange.all fun r =>
      (decide (0 < l.natAbs ∧ l.natAbs < r.natAbs)) ||
        (vDivI (.num l) (.num r) == some (divITemplateSqlite (.int l) (.int r)).toValue)) = true ∧
    intRange.all (fun l => intRange.all fun r =>
      (vDivI (.num ((l : Rat) / 2)) (.num r) == some (divITemplateSqlite (.real ((l : Rat) / 2)) (.int r)).toValue)) = true ∧
    intRange.all (fun l => intRange.all fun r =>
      (vDivI (.num l) (.num r) == some (divITemplateGeneric (.int l) (.int r)).toValue)) = true :=
  ⟨div_i_sqlite_partial_bounded, div_i_sqlite_real_bounded, div_i_generic_bounded⟩

theorem sql_div_i_counterexample :
    (divITemplateSqlite (.int 1) (.int 2)).toValue = .num (-1) ∧ vDivI (.num 1) (.num 2) = some (.num 0) :=
  div_i_sqlite_counterexample

/-- the emitted texts, on columns -/
theorem sql_text_null_comparison :
    sqlPrint .sqlite (staticEval (expand (.bin .Eq (.col 0) (.lit .null)))) = some ['a', ' ', 'I', 'S', ' ', 'N', 'U', 'L', 'L'] ∧
    sqlPrint .sqlite (staticEval (expand (.bin .Ne (.lit .null) (.col 0))))
      = some ['a', ' ', 'I', 'S', ' ', 'N', 'O', 'T', ' ', 'N', 'U', 'L', 'L'] := by
  constructor <;> decide +kernel

/-! ## the property end to end, and its counterexamples on the unchanged tree -/

/-- "the emitted SQL evaluates to the value of the tree": wherever the source tree has a documented value on a row of
integers / NULLs, SQLite computes that value from the SQL text printed for dialect `d` -/
def SurvivesToSql (d : Dialect) : Prop :=
  ∀ (e : SExpr) (ρ : List (Option Int)) (v : Value), evalDoc (envV ρ) e = some v → sqlValue d ρ e = some v

/-- `(a == b) < c` is emitted as `a = b < c`; on (5, 5, 5): documented 1 < 5 = true, SQLite `5 = (5 < 5)` = false -/
theorem survives_counterexample_comparison_chain : ¬ SurvivesToSql .sqlite := by
  intro h
  have := h (.bin .Lt (.bin .Eq (.col 0) (.col 1)) (.col 2)) [some 5, some 5, some 5] (.num 1) (by decide +kernel)
  revert this; decide +kernel

/-- `a * (b % c)` is emitted as `a * b % c` -/
theorem survives_counterexample_mul_mod :
    evalDoc (envV [some 2, some 3, some 2]) (.bin .Mul (.col 0) (.bin .Mod (.col 1) (.col 2))) = some (.num 2) ∧
    sqlValue .sqlite [some 2, some 3, some 2] (.bin .Mul (.col 0) (.bin .Mod (.col 1) (.col 2))) = some (.num 0) := by
  constructor <;> decide +kernel

/-- `c == (a | in 1..5)` is emitted as `c = a BETWEEN 1 AND 5`, read as `(c = a) BETWEEN 1 AND 5` -/
theorem survives_counterexample_between_operand :
    evalDoc (envV [some (-7), none, some (-7)]) (.bin .Eq (.col 2) (.inRange (.col 0) (.lit (.int 1)) (.lit (.int 5)))) = some (.num 0) ∧
    sqlValue .sqlite [some (-7), none, some (-7)] (.bin .Eq (.col 2) (.inRange (.col 0) (.lit (.int 1)) (.lit (.int 5)))) = some (.num 1) := by
  constructor <;> decide +kernel

/-- `1 // 2` on sqlite -/
theorem survives_counterexample_div_i :
    evalDoc (envV [some 1, some 2]) (.bin .DivInt (.col 0) (.col 1)) = some (.num 0) ∧
    sqlValue .sqlite [some 1, some 2] (.bin .DivInt (.col 0) (.col 1)) = some (.num (-1)) := by
  constructor <;> decide +kernel

/-- `7 / 2` for the generic dialect -/
theorem survives_counterexample_generic_division :
    evalDoc (envV [some 7, some 2]) (.bin .DivFloat (.col 0) (.col 1)) = some (.num (7 / 2)) ∧
    sqlValue .generic [some 7, some 2] (.bin .DivFloat (.col 0) (.col 1)) = some (.num 3) := by
  constructor <;> decide +kernel

/-- `(case [5 == 2 => a]) != 3 - a`: NULL by the documented meaning, `3 - a IS NOT NULL` = true in SQL -/
theorem survives_counterexample_null_folding :
    evalDoc (envV [some 1]) (.bin .Ne (.caseB (.bin .Eq (.lit (.int 5)) (.lit (.int 2))) (.col 0) .caseEnd) (.bin .Sub (.lit (.int 3)) (.col 0)))
      = some .null ∧
    sqlValue .sqlite [some 1] (.bin .Ne (.caseB (.bin .Eq (.lit (.int 5)) (.lit (.int 2))) (.col 0) .caseEnd) (.bin .Sub (.lit (.int 3)) (.col 0)))
      = some (.num 1) := by
  constructor <;> decide +kernel

/-! ### unary minus next to a minus (repaired in /repo by 8bc968c; the guard is extracted as `Gen.SqlOps.minusGuard`) -/

/-- the text assembled by `translate_operator` never gets `--` from appending an operand: with the guard, an operand that starts
with `-` is parenthesised whenever the text before it ends with `-` -/
theorem append_operand_no_double_minus (acc arg : List Char) (hg : Gen.SqlOps.minusGuard = true)
    (h1 : acc.getLast? = some '-') (h2 : arg.head? = some '-') :
    appendOperand acc arg = acc ++ ['('] ++ arg ++ [')'] := by
  simp [appendOperand, hg, h1, h2]

/-- `-(-a)`, `-(-(-a))`: printed with parentheses, and SQLite (whose lexer treats `--` as a comment, as `sqlLex` does)
computes the documented value -/
theorem sql_print_double_minus :
    sqlPrint .sqlite (staticEval (expand (.un .Neg (.un .Neg (.col 0))))) = some ['-', '(', '-', 'a', ')'] ∧
    sqlPrint .generic (staticEval (expand (.un .Neg (.un .Neg (.un .Neg (.col 0))))))
      = some ['-', '(', '-', '(', '-', 'a', ')', ')'] := by
  constructor <;> decide +kernel

theorem survives_double_minus :
    evalDoc (envV [some 5]) (.un .Neg (.un .Neg (.col 0))) = some (.num 5) ∧
    sqlValue .sqlite [some 5] (.un .Neg (.un .Neg (.col 0))) = some (.num 5) ∧
    sqlValue .generic [none] (.un .Neg (.un .Neg (.un .Neg (.col 0)))) = some .null := by
  refine ⟨?_, ?_, ?_⟩ <;> decide +kernel

/-- `a - -5` keeps its space and needs no parentheses -/
theorem sql_print_minus_negative_literal :
    sqlPrint .sqlite (staticEval (expand (.bin .Sub (.col 0) (.un .Neg (.lit (.int 5)))))) = some ['a', ' ', '-', ' ', '-', '5'] := by
  decide +kernel

/-- the reference lexer does read `--` as a comment (what the guard protects against) -/
theorem sql_lex_comment : sqlLex ['-', '-', 'a'] = some [] ∧ sqlParse ['-', '-', 'a'] = none := by
  constructor <;> decide +kernel

/-- in the abstract printer the operand of unary minus that is itself a unary minus is now parenthesised, and the triple is
not among the excluded ones: `sql_print_parse_partial` covers `-(-a)` at any depth -/
theorem neg_under_neg_parenthesised :
    npEmit (.u .neg) false (.u .neg) = true ∧ excluded (.u .neg) false (.u .neg) = false := by decide
example : agree npEmit npFix (.un .neg (.un .neg (.un .neg (.leaf (.col 0)))) : ETree) := agree_of_agreeB _ (by decide)

-- positive instances (the pipeline is not vacuous): precedence, pow swap, real division, coalesce, case default
example : sqlValue .sqlite [some 7, some 2, some 3] (.bin .Sub (.col 0) (.bin .Sub (.col 1) (.col 2))) = some (.num 8) := by decide +kernel
example : sqlValue .sqlite [some 2, some 3] (.bin .Pow (.col 0) (.col 1)) = some (.num 8) := by decide +kernel
example : sqlValue .sqlite [some 7, some 2] (.bin .DivFloat (.col 0) (.col 1)) = some (.num (7 / 2)) := by decide +kernel
example : sqlValue .sqlite [none, some 2] (.bin .Coalesce (.col 0) (.col 1)) = some (.num 2) := by decide +kernel
example : sqlValue .sqlite [some 0] (.caseB (.bin .Gt (.col 0) (.lit (.int 1))) (.lit (.int 5)) .caseEnd) = some .null := by decide +kernel

end Props.C02
