/-
C03  Sort order persists through the pipeline and take selects by position.
-/
import PrqlModel.Model.Take
import PrqlModel.Model.Rel
import PrqlModel.Lemmas.SpSeg
import PrqlModel.Lemmas.SortBy
import PrqlModel.Lemmas.RelBlock
import PrqlModel.Lemmas.InferSorts
import PrqlModel.Lemmas.Flatten
namespace Props.C03
open Rel Model.Take

variable {α : Type}

/-- the positional meaning of a sequence of takes -/
def takes (rs : List Range) (l : List α) : List α := rs.foldl (fun acc r => takeR r.1 r.2 acc) l

def StartsOk (rs : List Range) : Prop := ∀ r ∈ rs, ∀ a, r.1 = some a → 1 ≤ a

theorem compose_start_ok (s1 e1 s2 e2 : Option Nat)
    (h1 : ∀ a, s1 = some a → 1 ≤ a) (h2 : ∀ b, s2 = some b → 1 ≤ b) :
    ∀ c, (compose s1 e1 s2 e2).1 = some c → 1 ≤ c := by
  intro c hc
  cases s1 <;> cases s2 <;> simp [compose] at hc
  · have := h2 _ rfl; omega
  · have := h1 _ rfl; omega
  · have := h1 _ rfl; have := h2 _ rfl; omega

theorem takes_fold_aux (rs : List Range) (cur : Range) (l : List α)
    (hc : ∀ a, cur.1 = some a → 1 ≤ a) (h : StartsOk rs) :
    takes rs (takeR cur.1 cur.2 l) =
      takeR (rs.foldl (fun cur r => compose cur.1 cur.2 r.1 r.2) cur).1
            (rs.foldl (fun cur r => compose cur.1 cur.2 r.1 r.2) cur).2 l := by
  induction rs generalizing cur with
  | nil => rfl
  | cons r rest ih =>
    simp only [takes, List.foldl_cons]
    have hr : ∀ b, r.1 = some b → 1 ≤ b := h r (by simp)
    rw [take_compose cur.1 cur.2 r.1 r.2 l hc hr]
    exact ih (compose cur.1 cur.2 r.1 r.2) (compose_start_ok _ _ _ _ hc hr)
      (fun r' hr' => h r' (by simp [hr']))

/-- T1a: any number of consecutive takes = one take of the folded range (mirror of the loop of `range_of_ranges`) -/
theorem takes_compose (rs : List Range) (l : List α) (h : StartsOk rs) :
    takes rs l = takeR (foldRanges rs).1 (foldRanges rs).2 l := by
  have := takes_fold_aux rs (none, none) l (by intro a h; cases h) h
  simpa [takeR, foldRanges] using this

/-- T1b: the final normalisation (`end < start` ⇒ `..0`) does not change the rows -/
theorem normalize_ok (r : Range) (l : List α) (h : ∀ a, r.1 = some a → 1 ≤ a) :
    takeR (normalize r).1 (normalize r).2 l = takeR r.1 r.2 l := by
  obtain ⟨s, e⟩ := r
  cases s with
  | none => rfl
  | some s =>
    cases e with
    | none => rfl
    | some e =>
      simp only [normalize]
      split
      · next hlt =>
        have := h s rfl
        simp only [takeR, Option.getD]
        have h0 : e - (s - 1) = 0 := by omega
        simp [h0]
      · rfl

/-- T1: `take r1 | take r2 | …` returns exactly the rows at the composed positions -/
theorem takes_rangeOfRanges (rs : List Range) (l : List α) (h : StartsOk rs) :
    takes rs l = takeR (rangeOfRanges rs).1 (rangeOfRanges rs).2 l := by
  rw [rangeOfRanges, normalize_ok, takes_compose rs l h]
  -- the folded start is ≥ 1
  have : ∀ (rs : List Range) (cur : Range), (∀ a, cur.1 = some a → 1 ≤ a) → StartsOk rs →
      ∀ a, (rs.foldl (fun cur r => compose cur.1 cur.2 r.1 r.2) cur).1 = some a → 1 ≤ a := by
    intro rs
    induction rs with
    | nil => intro cur hc _; simpa using hc
    | cons r rest ih =>
      intro cur hc hs
      simp only [List.foldl_cons]
      exact ih _ (compose_start_ok _ _ _ _ hc (hs r (by simp))) (fun r' hr' => hs r' (by simp [hr']))
  exact this rs (none, none) (by intro a h; cases h) h

/-- T2: the emitted `LIMIT n OFFSET m` selects the rows of the range -/
theorem limit_offset_ok (r : Range) (l : List α) :
    limitOffset (limitOffsetOf r).1 (limitOffsetOf r).2 l = takeR r.1 r.2 l :=
  limit_offset r.1 r.2 l

/-- the property for positions: the SQL clause pair emitted for a run of takes returns the rows at
exactly the positions the takes select, one after the other -/
theorem take_positions (rs : List Range) (l : List α) (h : StartsOk rs) :
    limitOffset (limitOffsetOf (rangeOfRanges rs)).1 (limitOffsetOf (rangeOfRanges rs)).2 l = takes rs l := by
  rw [limit_offset_ok, takes_rangeOfRanges rs l h]

example : StartsOk [(some 2, some 5), (none, some 2), (some 2, none)] := by
  intro r hr a ha; simp at hr; rcases hr with rfl | rfl | rfl <;> simp at ha <;> omega
example : takes [(some 2, some 5), (none, some 2), (some 2, none)] [10, 20, 30, 40, 50, 60] = [30] := by decide

/-! ### order: the transforms that retain the order, on the sort algebra -/

/-- T3a filter keeps the order of the most recent sort (WHERE may be evaluated before ORDER BY) -/
theorem filter_keeps_order (k : α → Int) (p : α → Bool) (l : List α) :
    (isort k l).filter p = isort k (l.filter p) := filter_isort k p l

/-- T3b a projection / derive that leaves the key alone keeps the order -/
theorem map_keeps_order {β : Type} (k : α → Int) (k' : β → Int) (f : α → β) (hk : ∀ a, k' (f a) = k a) (l : List α) :
    (isort k l).map f = isort k' (l.map f) := map_isort f hk l

/-- T3c the most recent sort wins when its key has no ties (a stable sort and any sort agree then) -/
theorem last_sort_wins (k j : α → Int) (l : List α) (hp : l.Pairwise (fun a b => k a ≠ k b)) :
    isort k (isort j l) = isort k l := isort_isort l hp

/-- T3d the result of a sort is ordered by its key -/
theorem sort_sorted (k : α → Int) (l : List α) : Sorted k (isort k l) := sorted_isort k l

/-! ### the reference semantics: order-retaining transforms never reorder rows -/
open Model.Rel

theorem filter_sublist (resolve : Src → Table) (t : Table) (e : Expr) :
    (step resolve t (.filter e)).rows.Sublist t.rows := by
  simp only [step]; exact List.filter_sublist

theorem take_sublist (resolve : Src → Table) (t : Table) (lo hi : Option Nat) :
    (step resolve t (.take lo hi)).rows.Sublist t.rows := by
  simp only [step, takeRange]
  cases hi with
  | none => exact List.drop_sublist _ _
  | some e => exact (List.take_sublist _ _).trans (List.drop_sublist _ _)

theorem derive_keeps_rows_in_place (resolve : Src → Table) (t : Table) (es : List Expr) :
    (step resolve t (.derive es)).rows = t.rows.map (deriveRow es) := rfl

theorem select_keeps_rows_in_place (resolve : Src → Table) (t : Table) (es : List Expr) :
    (step resolve t (.select es)).rows = t.rows.map (fun r => es.map (·.eval r)) := rfl

/-- the reference `take` is the positional slice of the spike algebra -/
theorem takeRange_eq_takeR (lo hi : Option Nat) (l : List α) : takeRange lo hi l = takeR lo hi l := by
  cases hi <;> rfl

/-! ### the same algebra ON THE REFERENCE SEMANTICS: `sortRows` (NULLs, text, booleans, `desc` flags, several keys) -/
section RelOrder
open Lemmas.SortBy Lemmas.RelBlock

/-- the comparison `sortRows ks` sorts by is a total preorder on rows (`Value.cmp` is one on values:
NULL < numbers < text, booleans as 0/1; `cmpChars` is a linear order on texts) -/
theorem order_total_rel (ks : List SortKey) : Total (leKeys ks) ∧ Trans (leKeys ks) :=
  ⟨leKeys_total ks, leKeys_trans ks⟩

/-- T3d-rel the result of a sort is ordered by its keys and is a permutation of the input -/
theorem sort_sorted_rel (ks : List SortKey) (rows : List Row) :
    (sortRows ks rows).Pairwise (fun a b => cmpKeys ks a b ≠ .gt) ∧ (sortRows ks rows).Perm rows :=
  ⟨sortRows_sorted ks rows, sortRows_perm ks rows⟩

/-- T3a-rel filter keeps the order of the most recent sort: WHERE may be evaluated before ORDER BY -/
theorem filter_keeps_order_rel (ks : List SortKey) (p : Row → Bool) (rows : List Row) :
    (sortRows ks rows).filter p = sortRows ks (rows.filter p) := filter_sortRows ks p rows

/-- … stated on pipelines: `sort ks | filter e` and `filter e | sort ks` denote the same rows -/
theorem sort_filter_comm_rel (resolve : Src → Table) (t : Table) (ks : List SortKey) (e : Expr) :
    (step resolve (step resolve t (.sort ks)) (.filter e)).rows
      = (step resolve (step resolve t (.filter e)) (.sort ks)).rows := by
  simp only [step]; exact filter_sortRows ks _ t.rows

/-- T3b-rel derive keeps the order: on rows of width `w` a sort by keys over the existing columns commutes
with a derive (a derive APPENDS columns, positions `< w` are untouched) -/
theorem derive_keeps_order_rel (w : Nat) (es : List Expr) (ks : List SortKey) (rows : List Row)
    (hw : ∀ r ∈ rows, r.length = w) (hk : KeysWithin w ks) :
    (sortRows ks rows).map (deriveRow es) = sortRows ks (rows.map (deriveRow es)) :=
  derive_sortRows w es ks rows hw hk

example : (∀ r ∈ [[Value.int 2, .str ['b']], [.int 1, .null]], r.length = 2) ∧
    KeysWithin 2 [(.col 1, true), (.bin .add (.col 0) (.lit (.int 1)), false)] := by
  refine ⟨by decide, ?_⟩
  intro k hk i hi
  simp only [List.mem_cons, List.not_mem_nil, or_false] at hk
  rcases hk with rfl | rfl <;> simp [Expr.reads] at hi <;> omega

/-- T3b'-rel any projection keeps the order when the keys are rewritten through it (ORDER BY on select aliases) -/
theorem project_keeps_order_rel (σ : List Expr) (ks : List SortKey) (rows : List Row) :
    (sortRows (substKeys σ ks) rows).map (projRow σ) = sortRows ks (rows.map (projRow σ)) :=
  orderBy_alias σ ks rows

/-- T3c-rel the most recent sort wins when it has no ties on the rows (`hasTies` is the `ties` flag of the
reference semantics): an earlier sort is unobservable -/
theorem last_sort_wins_rel (ks ks' : List SortKey) (rows : List Row) (hnt : hasTies ks rows = false) :
    sortRows ks (sortRows ks' rows) = sortRows ks rows := sortRows_sortRows ks ks' rows hnt

example : hasTies [(.col 1, true), (.col 0, false)]
    [[.int 2, .str ['b']], [.int 1, .null], [.int 1, .str ['b']], [.bool true, .str ['a', 'b']]] = false := by decide
/-- the hypothesis is needed: with ties the earlier sort shows (the sort is stable) -/
example : sortRows [(.col 0, false)] (sortRows [(.col 1, true)] [[.int 1, .int 5], [.int 1, .int 7]])
    ≠ sortRows [(.col 0, false)] [[.int 1, .int 5], [.int 1, .int 7]] := by decide

/-- … without ties the sorted rows depend on the multiset of rows only (any sort, stable or not, agrees) -/
theorem sort_unique_rel (ks : List SortKey) {l1 l2 : List Row} (hnt : hasTies ks l1 = false)
    (hp : l1.Perm l2) : sortRows ks l1 = sortRows ks l2 := sortRows_eq_of_perm ks hnt hp

/-- the sort is stable: rows that are already in order keep their places (in particular ties keep
their relative order); sorting twice by the same keys is sorting once -/
theorem sort_stable_rel (ks : List SortKey) (rows : List Row)
    (h : rows.Pairwise (fun a b => leKeys ks a b = true)) : sortRows ks rows = rows :=
  isortBy_of_sorted h

theorem sort_idem_rel (ks : List SortKey) (rows : List Row) :
    sortRows ks (sortRows ks rows) = sortRows ks rows := sortRows_idem ks rows

/-- T1-rel two consecutive takes of the reference semantics = one take of the composed range -/
theorem take_compose_rel (s1 e1 s2 e2 : Option Nat) (l : List α)
    (h1 : ∀ a, s1 = some a → 1 ≤ a) (h2 : ∀ b, s2 = some b → 1 ≤ b) :
    takeRange s2 e2 (takeRange s1 e1 l)
      = takeRange (compose s1 e1 s2 e2).1 (compose s1 e1 s2 e2).2 l := by
  rw [takeRange_eq_takeR, takeRange_eq_takeR, takeRange_eq_takeR]
  exact take_compose s1 e1 s2 e2 l h1 h2

example : (∀ a, some 2 = some a → 1 ≤ a) ∧ (∀ b, (none : Option Nat) = some b → 1 ≤ b) :=
  ⟨fun a h => by cases h; decide, fun b h => by cases h⟩
example : takeRange none (some 2) (takeRange (some 2) (some 5) [10, 20, 30, 40, 50, 60]) = [20, 30] := by decide

/-- … and the run of takes of a pipeline is the LIMIT/OFFSET pair the compiler emits, on `takeRange` -/
theorem take_positions_rel (rs : List Range) (l : List α) (h : StartsOk rs) :
    limitOffset (limitOffsetOf (rangeOfRanges rs)).1 (limitOffsetOf (rangeOfRanges rs)).2 l
      = rs.foldl (fun acc r => takeRange r.1 r.2 acc) l := by
  rw [take_positions rs l h]
  have hf : (fun (acc : List α) (r : Range) => takeR r.1 r.2 acc) = fun acc r => takeRange r.1 r.2 acc := by
    funext acc r; exact (Props.C03.takeRange_eq_takeR r.1 r.2 acc).symm
  simp only [takes, hf]

end RelOrder

/-! ## T3 the sorting inference of the back end (mirror of `SortingInference::fold_sql_transforms`, postprocess.rs)

`Model.InferSorts.inferBlock` is tied to the code by replaying every recorded call (tools/sorttrace.py). The theorems say
what the pass computes, for blocks of any length: the ORDER BY placed in front of every LIMIT is the sort in effect at
that point - the most recent Sort, or the order inherited from the relation the block reads, unless an Aggregate /
Distinct came later - or the take's own embedded sort. -/
section InferSorts
open Model.InferSorts Lemmas.InferSorts

/-- **infer_sorts_tracks.** The state of the pass after any prefix of a block is the sort in effect read off that prefix
(`inEffect`, `doInEffect`: declarative, most recent transform first). -/
theorem infer_sorts_tracks (ts : List STr) :
    (run {} ts).1 = { sorting := inEffect ts.reverse, fromDO := doInEffect ts.reverse } := by
  rw [run_state, effFrom_init, doFrom_init]

/-- the sort in effect is retained by select, filter (and the set operations) and take … -/
theorem retained_by_select_filter_take (before : List STr) (cols : List CId) (p : Bool) (e : Sorting) :
    inEffect (.select cols :: before) = inEffect before ∧ inEffect (.other :: before) = inEffect before ∧
    inEffect (.take p e :: before) = inEffect before := ⟨rfl, rfl, rfl⟩

/-- … and by the left input of a join, unless it is only the internal order of a DISTINCT ON -/
theorem retained_by_join (before : List STr) (h : doInEffect before = false) :
    inEffect (.join :: before) = inEffect before := by simp [inEffect, h]

/-- aggregate and distinct (what `group` becomes) reset it; a new sort replaces it; a From inherits -/
theorem reset_and_replace (before : List STr) (s inh : Sorting) (f : Bool) :
    inEffect (.aggregate :: before) = [] ∧ inEffect (.distinct :: before) = [] ∧
    inEffect (.sort s :: before) = s ∧ inEffect (.from inh f :: before) = inh := ⟨rfl, rfl, rfl, rfl⟩

/-- **take_gets_the_sort_in_effect.** In the output of the pass every Take is directly preceded by a Sort, and that
Sort is the take's own embedded sort when it is a plain take that carries one, otherwise the sort in effect after the
transforms in front of it. -/
theorem take_gets_the_sort_in_effect (pre post : List STr) (plain : Bool) (emb : Sorting) :
    (run {} (pre ++ .take plain emb :: post)).2 = (run {} pre).2 ++
      [.emitted (if plain && !emb.isEmpty then emb else inEffect pre.reverse), .keep (.take plain emb)] ++
      (run (run {} pre).1 post).2 := take_sort _ pre post plain emb rfl

/-- the same for DISTINCT ON: its row selection uses the sort in effect -/
theorem distinct_on_gets_the_sort_in_effect (pre post : List STr) :
    (run {} (pre ++ .distinctOn :: post)).2 = (run {} pre).2 ++
      [.emitted (inEffect pre.reverse), .keep .distinctOn] ++
      (run { sorting := inEffect pre.reverse, fromDO := true } post).2 := distinctOn_sort _ pre post rfl

/-- **sorts_only_where_needed.** Every Sort of the input is dropped, every other transform is handed through unchanged
and in order, and a Sort is emitted only directly in front of a Take or a DistinctOn (the final ORDER BY of the main
query is added by `fold_sql_query` from the state of `infer_sorts_tracks`). -/
theorem sorts_only_where_needed (ts : List STr) :
    (run {} ts).2.filterMap keptOf = ts.filter (fun t => !isSortT t) ∧ emittedOnlyBefore (run {} ts).2 = true :=
  ⟨kept_transforms {} ts, run_emits_only_before {} ts⟩

/-- **cte_provides_sort_columns.** A block that becomes a CTE selects every column of the sorting it hands on to its
readers (they re-emit that sorting as their ORDER BY). -/
theorem cte_provides_sort_columns (ts : List STr) (cols : List CId)
    (h : firstSelect (inferBlock false ts).2 = some cols) :
    ∀ c ∈ (inferBlock false ts).1.sorting, c.1 ∈ cols := cte_select_has_sort_columns ts cols h

/-- the main relation's Select is left alone -/
theorem main_select_untouched (ts : List STr) : (inferBlock true ts).2 = (run {} ts).2 := by
  simp [inferBlock]

/-- **readers_see_the_stored_sorting.** What a reader inherits from a CTE is what was stored for it last, whatever else
was stored for other CTEs and however many look-ups happened before: look-ups leave the store unchanged. -/
theorem readers_see_the_stored_sorting (s : Store) (evs : List Ev) (t t' : Nat) (v w : Sorting × Bool) (h : t ≠ t') :
    (s.insert t v).read t = v ∧ ((s.insert t v).insert t' w).read t = v ∧
    storeAfter s evs = storeAfter s (evs.filter isIns) :=
  ⟨read_insert_same s t v, by rw [read_insert_other _ _ _ _ h, read_insert_same], storeAfter_ignores_reads s evs⟩

/-- non-vacuity: `from cte(order a) | filter | join | sort b desc | select | take 3 | aggregate`: the LIMIT gets ORDER BY b DESC,
and the block hands on no order -/
example : inferBlock true [.from [(1, false)] false, .other, .join, .sort [(2, true)], .select [1, 2], .take true [], .aggregate] =
    ({ sorting := [], fromDO := false },
     [.keep (.from [(1, false)] false), .keep .other, .keep .join, .keep (.select [1, 2]),
      .emitted [(2, true)], .keep (.take true []), .keep .aggregate]) := by decide

/-- a CTE whose order is on a column it does not select gets that column added -/
example : (inferBlock false [.from [] false, .select [1], .sort [(2, false)]]).2 =
    [.keep (.from [] false), .keep (.select [1, 2])] := by decide

end InferSorts

/-! ## T3' which sort a transform call carries (mirror of the Flattener, semantic/resolver/flatten.rs)

`Model.Flatten.flat` is tied to the code by replaying every recorded call of `Flattener::fold` (tools/flattrace.py).
The sort that a take embeds - the one `take_gets_the_sort_in_effect` shows to become the ORDER BY of its LIMIT - is
the sort in effect at source level: the most recent `sort` of the same pipeline, nothing after a `group`. -/
section Flattener
open Model.Flatten Lemmas.Flatten

/-- **flattener_hands_on_the_sort_in_effect.** Whatever the nesting of group / window / join / append, the sort the pass
hands to the transforms behind a pipeline is `effSort`: the most recent `sort`; select / derive / filter / take
(`other`), join, append and window bodies retain it; `group` resets it. -/
theorem flattener_hands_on_the_sort_in_effect (st : St) (p : PL) : (flat st p).1.sort = effSort st.sort p :=
  flat_sort st p

theorem order_retained_and_reset (s : Nat) (init side inner : PL) (tag byId : Nat) (e : Bool) :
    effSort s (.other init tag) = effSort s init ∧ effSort s (.join init side) = effSort s init ∧
    effSort s (.append init side) = effSort s init ∧ effSort s (.group init e byId inner) = 0 ∧
    effSort s (.sort init tag) = tag := ⟨rfl, rfl, rfl, rfl, rfl⟩

/-- **transform_carries_the_sort_in_effect.** At the top level of a query a transform call (take, filter, derive, ..)
is emitted after its input with no partition, no frame and the sort in effect of its input. -/
theorem transform_carries_the_sort_in_effect (init : PL) (tag : Nat) :
    (flat {} (.other init tag)).2 = (flat {} init).2 ++ [.tr tag 0 0 0 (effSort 0 init)] := by
  simp only [flat]
  rw [flat_sort, flat_partition {} init rfl, flat_frame {} init rfl]

/-- **group_body_sort_is_local.** `group g (sort b | take ..)` with a non-empty key: the take gets the partition `g` and
the sort `b` of the body - not the sort of the enclosing pipeline -, the body's Sort is not emitted as a transform, the
input is flattened with `sort_undone` set, and after the group no sort is in effect. -/
theorem group_body_sort_is_local (init : PL) (g b t : Nat) :
    flat {} (.group init false g (.other (.sort .nil b) t)) =
      ({ sort := 0, undone := false, partition := 0, frame := (flat { undone := true } init).1.frame },
       (flat { undone := true } init).2 ++ [.tr t 0 g (flat { undone := true } init).1.frame b]) := by
  simp only [flat, Bool.false_eq_true, if_false, List.append_nil]
  have hu : (flat { undone := true } init).1.undone = true := flat_undone _ init
  simp [hu]

/-- **sorts_in_front_of_a_group_are_dropped.** In a pipeline without nested calls that is flattened under `sort_undone`
(the input and the body of a group with a non-empty key) every Sort disappears as a transform - one transform call is
emitted per other transform - while without it every Sort is kept. -/
theorem sorts_in_front_of_a_group_are_dropped (st : St) (p : PL) (hs : p.simple = true) :
    (st.undone = true → (flat st p).2.length = countOther p) ∧
    (st.undone = false → (flat st p).2.length = countOther p + countSort p) :=
  ⟨undone_drops_sorts st p hs, sorts_kept st p hs⟩

/-- **join_side_is_isolated** (the behaviour repaired by 147decc). The relation given to join / append is flattened
starting from an empty sort, and the sort in effect after the join / append is the one in effect before it. -/
theorem join_side_is_isolated (st : St) (init side : PL) :
    (flat st (.join init side)).1.sort = (flat st init).1.sort ∧
    (flat st (.append init side)).1.sort = (flat st init).1.sort ∧
    (flat st (.join init (.other .nil 7))).2 =
      (flat st init).2 ++ [.sideBegin, .tr 7 0 (flat st init).1.partition (flat st init).1.frame 0, .sideEnd,
        .tr tagJoin 0 (flat st init).1.partition (flat st init).1.frame 0] := by
  refine ⟨rfl, rfl, ?_⟩
  simp [flat]

/-- non-vacuity: `sort a | filter | group g (sort b | take 1) | join (from u | sort c | take 5) | take 3`
(ids: a=11 b=12 c=13 g=21; tags: filter=31 take=32) -/
example : flatten (.other (.join (.group (.other (.sort .nil 11) 31) false 21 (.other (.sort .nil 12) 32)) (.other (.sort .nil 13) 32)) 32) =
    [.tr 31 0 0 0 11, .tr 32 0 21 0 12, .sideBegin, .tr tagSort 13 0 0 13, .tr 32 0 0 0 13, .sideEnd, .tr tagJoin 0 0 0 0,
     .tr 32 0 0 0 0] := by decide

end Flattener

/-! ### a sort key that repeats an earlier one (C03-m10 de-duplicated such lists keeping the LAST occurrence) -/
section RepeatedKey
open Model.Rel

/-- comparing by a key that compares equal under an earlier key of the list adds nothing: in `sort {a, b, -a}` the third key
never decides - the FIRST occurrence of a column is the one that orders, whatever direction a later occurrence has -/
theorem repeated_sort_key_never_decides (pre post : List SortKey) (e : Expr) (d d' : Bool) (a b : Row) :
    cmpKeys (pre ++ (e, d) :: post ++ [(e, d')]) a b = cmpKeys (pre ++ (e, d) :: post) a b := by
  induction pre with
  | nil =>
    simp only [List.nil_append, List.cons_append, cmpKeys]
    cases ho : (e.eval a).cmp (e.eval b) with
    | lt => cases d <;> simp
    | gt => cases d <;> simp
    | eq =>
      -- the first occurrence compares equal: so does the last one, and everything in between is unchanged
      have : ∀ (l : List SortKey), cmpKeys (l ++ [(e, d')]) a b = cmpKeys l a b := by
        intro l
        induction l with
        | nil => simp [cmpKeys, ho]
        | cons k ks ih =>
          obtain ⟨ke, kd⟩ := k
          simp only [List.cons_append, cmpKeys]
          cases (ke.eval a).cmp (ke.eval b) <;> cases kd <;> simp [ih]
      cases d <;> simp [this post]
  | cons k ks ih =>
    obtain ⟨ke, kd⟩ := k
    simp only [List.cons_append, cmpKeys]
    rw [ih]

/-- hence the sorted rows are the same with and without the repeated key, for tables of any size -/
theorem repeated_sort_key_keeps_the_order (pre post : List SortKey) (e : Expr) (d d' : Bool) (rows : List Row) :
    sortRows (pre ++ (e, d) :: post ++ [(e, d')]) rows = sortRows (pre ++ (e, d) :: post) rows := by
  unfold sortRows
  congr 1
  funext a b
  rw [repeated_sort_key_never_decides]

/-- ... while keeping the LAST occurrence instead changes it: `sort {a, b, -a}` is not `sort {b, -a}` -/
theorem dedup_keeping_last_counterexample :
    sortRows [(.col 0, false), (.col 1, false), (.col 0, true)] [[.int 2, .int 1], [.int 1, .int 2]] ≠
    sortRows [(.col 1, false), (.col 0, true)] [[.int 2, .int 1], [.int 1, .int 2]] := by decide

end RepeatedKey

end Props.C03
