/-
C03  Sort order persists through the pipeline and take selects by position.
-/
import PrqlModel.Model.Take
import PrqlModel.Model.Rel
import PrqlModel.Lemmas.SpSeg
namespace Props.C03
open Rel Model.Take

variable {α : Type}

/-- the positional meaning of a sequence of takes -/
def takes (rs : List Range) (l : List α) : List α := rs.foldl (fun acc r => takeR r.1 r.2 acc) l

def StartsOk (rs : List Range) : Prop := ∀ r ∈ rs, ∀ a, r.1 = some a → 1 ≤ a

theorem compose_start_ok (s1 e1 s2 e2 : Option Nat)
    (h1 : ∀ a, s1 = some a → 1 ≤ a) (h2 : ∀ b, s2 = some b → 1 ≤ b) :
    ∀ c, (compose s1 e1 s2 e2).1 = some c → 1 ≤ c := by
  intro c hc
  cases s1 <;> cases s2 <;> simp [compose] at hc
  · have := h2 _ rfl; omega
  · have := h1 _ rfl; omega
  · have := h1 _ rfl; have := h2 _ rfl; omega

theorem takes_fold_aux (rs : List Range) (cur : Range) (l : List α)
    (hc : ∀ a, cur.1 = some a → 1 ≤ a) (h : StartsOk rs) :
    takes rs (takeR cur.1 cur.2 l) =
      takeR (rs.foldl (fun cur r => compose cur.1 cur.2 r.1 r.2) cur).1
            (rs.foldl (fun cur r => compose cur.1 cur.2 r.1 r.2) cur).2 l := by
  induction rs generalizing cur with
  | nil => rfl
  | cons r rest ih =>
    simp only [takes, List.foldl_cons]
    have hr : ∀ b, r.1 = some b → 1 ≤ b := h r (by simp)
    rw [take_compose cur.1 cur.2 r.1 r.2 l hc hr]
    exact ih (compose cur.1 cur.2 r.1 r.2) (compose_start_ok _ _ _ _ hc hr)
      (fun r' hr' => h r' (by simp [hr']))

/-- T1a: any number of consecutive takes = one take of the folded range (mirror of the loop of `range_of_ranges`) -/
theorem takes_compose (rs : List Range) (l : List α) (h : StartsOk rs) :
    takes rs l = takeR (foldRanges rs).1 (foldRanges rs).2 l := by
  have := takes_fold_aux rs (none, none) l (by intro a h; cases h) h
  simpa [takeR, foldRanges] using this

/-- T1b: the final normalisation (`end < start` ⇒ `..0`) does not change the rows -/
theorem normalize_ok (r : Range) (l : List α) (h : ∀ a, r.1 = some a → 1 ≤ a) :
    takeR (normalize r).1 (normalize r).2 l = takeR r.1 r.2 l := by
  obtain ⟨s, e⟩ := r
  cases s with
  | none => rfl
  | some s =>
    cases e with
    | none => rfl
    | some e =>
      simp only [normalize]
      split
      · next hlt =>
        have := h s rfl
        simp only [takeR, Option.getD]
        have h0 : e - (s - 1) = 0 := by omega
        simp [h0]
      · rfl

/-- T1: `take r1 | take r2 | …` returns exactly the rows at the composed positions -/
theorem takes_rangeOfRanges (rs : List Range) (l : List α) (h : StartsOk rs) :
    takes rs l = takeR (rangeOfRanges rs).1 (rangeOfRanges rs).2 l := by
  rw [rangeOfRanges, normalize_ok, takes_compose rs l h]
  -- the folded start is ≥ 1
  have : ∀ (rs : List Range) (cur : Range), (∀ a, cur.1 = some a → 1 ≤ a) → StartsOk rs →
      ∀ a, (rs.foldl (fun cur r => compose cur.1 cur.2 r.1 r.2) cur).1 = some a → 1 ≤ a := by
    intro rs
    induction rs with
    | nil => intro cur hc _; simpa using hc
    | cons r rest ih =>
      intro cur hc hs
      simp only [List.foldl_cons]
      exact ih _ (compose_start_ok _ _ _ _ hc (hs r (by simp))) (fun r' hr' => hs r' (by simp [hr']))
  exact this rs (none, none) (by intro a h; cases h) h

/-- T2: the emitted `LIMIT n OFFSET m` selects the rows of the range -/
theorem limit_offset_ok (r : Range) (l : List α) :
    limitOffset (limitOffsetOf r).1 (limitOffsetOf r).2 l = takeR r.1 r.2 l :=
  limit_offset r.1 r.2 l

/-- the property for positions: the SQL clause pair emitted for a run of takes returns the rows at
exactly the positions the takes select, one after the other -/
theorem take_positions (rs : List Range) (l : List α) (h : StartsOk rs) :
    limitOffset (limitOffsetOf (rangeOfRanges rs)).1 (limitOffsetOf (rangeOfRanges rs)).2 l = takes rs l := by
  rw [limit_offset_ok, takes_rangeOfRanges rs l h]

example : StartsOk [(some 2, some 5), (none, some 2), (some 2, none)] := by
  intro r hr a ha; simp at hr; rcases hr with rfl | rfl | rfl <;> simp at ha <;> omega
example : takes [(some 2, some 5), (none, some 2), (some 2, none)] [10, 20, 30, 40, 50, 60] = [30] := by decide

/-! ### order: the transforms that retain the order, on the sort algebra -/

/-- T3a filter keeps the order of the most recent sort (WHERE may be evaluated before ORDER BY) -/
theorem filter_keeps_order (k : α → Int) (p : α → Bool) (l : List α) :
    (isort k l).filter p = isort k (l.filter p) := filter_isort k p l

/-- T3b a projection / derive that leaves the key alone keeps the order -/
theorem map_keeps_order {β : Type} (k : α → Int) (k' : β → Int) (f : α → β) (hk : ∀ a, k' (f a) = k a) (l : List α) :
    (isort k l).map f = isort k' (l.map f) := map_isort f hk l

/-- T3c the most recent sort wins when its key has no ties (a stable sort and any sort agree then) -/
theorem last_sort_wins (k j : α → Int) (l : List α) (hp : l.Pairwise (fun a b => k a ≠ k b)) :
    isort k (isort j l) = isort k l := isort_isort l hp

/-- T3d the result of a sort is ordered by its key -/
theorem sort_sorted (k : α → Int) (l : List α) : Sorted k (isort k l) := sorted_isort k l

/-! ### the reference semantics: order-retaining transforms never reorder rows -/
open Model.Rel

theorem filter_sublist (resolve : Src → Table) (t : Table) (e : Expr) :
    (step resolve t (.filter e)).rows.Sublist t.rows := by
  simp only [step]; exact List.filter_sublist

theorem take_sublist (resolve : Src → Table) (t : Table) (lo hi : Option Nat) :
    (step resolve t (.take lo hi)).rows.Sublist t.rows := by
  simp only [step, takeRange]
  cases hi with
  | none => exact List.drop_sublist _ _
  | some e => exact (List.take_sublist _ _).trans (List.drop_sublist _ _)

theorem derive_keeps_rows_in_place (resolve : Src → Table) (t : Table) (es : List Expr) :
    (step resolve t (.derive es)).rows = t.rows.map (deriveRow es) := rfl

theorem select_keeps_rows_in_place (resolve : Src → Table) (t : Table) (es : List Expr) :
    (step resolve t (.select es)).rows = t.rows.map (fun r => es.map (·.eval r)) := rfl

/-- the reference `take` is the positional slice of the spike algebra -/
theorem takeRange_eq_takeR (lo hi : Option Nat) (l : List α) : takeRange lo hi l = takeR lo hi l := by
  cases hi <;> rfl

end Props.C03
