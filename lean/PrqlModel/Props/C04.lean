/-
C04  Window functions see exactly the documented segment and keep row count.
-/
import PrqlModel.Model.Window
namespace Props.C04
open Model.Window Model.Rel

/-! ### T1 window parameters -/

/-- `rolling:n` is `rows:(1-n)..0` -/
theorem rolling_is_rows (n : Int) (h : n > 0) (rows range : IRange) :
    windowParams false n rows range = windowParams false 0 (some (1 - n), some 0) (none, none) := by
  have h1 : rangeIsEmpty (some (1 - n), some 0) = false := by simp [rangeIsEmpty]; omega
  simp only [windowParams, h, h1]
  simp
  omega

/-- `expanding` is `rows:..0` -/
theorem expanding_is_rows (n : Int) (rows range : IRange) :
    windowParams true n rows range = windowParams false 0 (none, some 0) (none, none) := by
  simp [windowParams, rangeIsEmpty]

/-- no window parameter at all: the whole partition -/
theorem no_window_is_whole_partition : windowParams false 0 (some 0, some (-1)) (some 0, some (-1)) = (.rows, (none, none)) := by
  decide

/-- precedence: expanding > rolling > rows > range -/
theorem params_precedence (rolling : Int) (rows range : IRange) :
    (windowParams true rolling rows range).2 = (none, some 0) ∧
    (rolling > 0 → (windowParams false rolling rows range).2 = (some (-rolling + 1), some 0)) ∧
    (rolling ≤ 0 → rangeIsEmpty rows = false → windowParams false rolling rows range = (.rows, rows)) := by
  refine ⟨by simp [windowParams], ?_, ?_⟩
  · intro h; simp [windowParams, h]
  · intro h hr
    have : ¬ rolling > 0 := by omega
    simp [windowParams, this, hr]

/-! ### T2 frame translation: the SQL frame clause means the PRQL bounds (rows mode) -/

theorem parseBound_offset (i : Int) : (parseBound i).offset = some i := by
  unfold parseBound
  split
  · next h => simp [Bound.offset, h]
  · split
    · next h => simp [Bound.offset]; omega
    · next h1 h2 => simp [Bound.offset]; omega

/-- for every pair of bounds (negative, zero, positive, open), every partition and every row:
the rows selected by the emitted `ROWS BETWEEN … AND …` are the rows `start..end` relative to the current row -/
theorem frame_translation (r : IRange) (i : Nat) (part : List Row) :
    sqlRowsFrame (toSqlFrame r) i part = frameSlice (some { lo := r.1, hi := r.2 }) i part := by
  obtain ⟨s, e⟩ := r
  cases s <;> cases e <;> simp only [sqlRowsFrame, toSqlFrame, parseBound_offset] <;> rfl

/-- the bounds are emitted in SQL's required order when start ≤ end -/
def boundRank : Bound → Int
  | .unboundedPreceding => -1000000000000
  | .preceding n => -(n : Int)
  | .currentRow => 0
  | .following n => n
  | .unboundedFollowing => 1000000000000

theorem frame_bounds_ordered (s e : Int) (h : s ≤ e) (hs : -1000000000000 < s) (he : e < 1000000000000) :
    boundRank (toSqlFrame (some s, some e)).1 ≤ boundRank (toSqlFrame (some s, some e)).2 := by
  simp only [toSqlFrame, parseBound]
  split <;> split <;> (try split) <;> (try split) <;> simp [boundRank] <;> omega

/-- a user range with start > end never reaches the frame translation: it counts as "not given" -/
theorem reversed_rows_means_not_given (s e : Int) (h : s > e) :
    windowParams false 0 (some s, some e) (some 0, some (-1)) = (.rows, (none, none)) := by
  simp [windowParams, rangeIsEmpty, h]

/-! ### T3 eliding the frame -/

/-- the frame clause is omitted exactly when the function takes no frame or the requested frame is the default one -/
theorem emitFrame_none_iff (sup se : Bool) (f : Kind × IRange) :
    emitFrame sup se f = none ↔ (sup = false ∨ f = defaultFrame se) := by
  unfold emitFrame
  cases sup <;> simp

/-- without ORDER BY the omitted frame is the whole partition, which is what `defaultFrame true` requests -/
theorem default_frame_no_order (i : Nat) (part : List Row) :
    sqlImplicitFrame [] i part = frameSlice none i part := by
  simp [sqlImplicitFrame, frameSlice]

/-- whenever a frame-capable function is given no frame with a sort in effect, the compiler DOES write a
frame (so SQL's implicit "up to the current row" frame is never relied on for aggregates) -/
theorem whole_partition_is_written_under_order :
    emitFrame true false (.rows, (none, none)) = some (.rows, .unboundedPreceding, .unboundedFollowing) := by
  decide

/-- … but a function WITHOUT frame support (first/last/lag/lead/rank/row_number have no `window_frame`
annotation) never gets a frame: with a sort, SQL's implicit frame ends at the current row. For `last` this is
not the documented "whole partition": the value differs (known finding `window-last-ignores-frame`). -/
theorem last_without_frame_counterexample :
    let part : List Row := [[.int 1], [.int 2], [.int 3]]
    let order : List SortKey := [(.col 0, false)]
    emitFrame false false (.rows, (none, none)) = none ∧
    (sqlImplicitFrame order 0 part).getLast? ≠ (frameSlice none 0 part).getLast? := by
  decide

/-! ### T4 windowed computes keep the rows -/

theorem window_preserves_row_count (resolve : Src → Table) (t : Table) (by_ : List Nat) (ws : List Window) :
    (step resolve t (.window by_ ws)).rows.length = t.rows.length := by
  simp [step]

/-- without a group each output row is the input row followed by the window values: no row is added,
dropped, duplicated or reordered -/
theorem window_extends_rows (resolve : Src → Table) (t : Table) (ws : List Window) (i : Nat) (h : i < t.rows.length) :
    ∃ vals, (step resolve t (.window [] ws)).rows[i]? = some (t.rows[i] ++ vals) := by
  refine ⟨(ws.map fun w => winColumn w t.rows).map fun c => c.getD i .null, ?_⟩
  simp [step, h, List.getD]

/-- the windowed value never depends on rows outside the partition of the current row -/
theorem winColumn_partition_local (w : Window) (rows : List Row) (r : Row) :
    (sortRows w.order (rows.filter fun r' => keyOf w.partition r' == keyOf w.partition r)).all
      (fun r' => keyOf w.partition r' == keyOf w.partition r) = true := by
  rw [List.all_eq_true]
  intro x hx
  have hperm : ∀ (le : Row → Row → Bool) (l : List Row) (y : Row), y ∈ isortBy le l → y ∈ l := by
    intro le l
    induction l with
    | nil => intro y hy; simpa [isortBy] using hy
    | cons a as ih =>
      intro y hy
      simp only [isortBy] at hy
      have hins : ∀ (l : List Row) (z : Row), z ∈ insBy le a l → z = a ∨ z ∈ l := by
        intro l
        induction l with
        | nil => intro z hz; simpa [insBy] using hz
        | cons b bs ihb =>
          intro z hz
          simp only [insBy] at hz
          split at hz
          · simpa using hz
          · simp only [List.mem_cons] at hz
            rcases hz with rfl | hz
            · simp
            · rcases ihb z hz with h | h
              · exact Or.inl h
              · exact Or.inr (by simp [h])
      rcases hins _ y hy with rfl | h
      · simp
      · simp [ih y h]
  have := hperm _ _ x hx
  simpa using (List.mem_filter.mp this).2

/-! ### T5 what the two short forms mean, row by row (for partitions of any length) -/

/-- every frame is a contiguous stretch of the ordered partition -/
theorem frame_is_contiguous (fr : Option Frame) (i : Nat) (part : List Row) :
    ∃ a b, frameSlice fr i part = (part.drop a).take b := by
  cases fr with
  | none => exact ⟨0, part.length, by simp [frameSlice]⟩
  | some f =>
    obtain ⟨lo, hi⟩ := f
    cases lo <;> cases hi <;> simp only [frameSlice] <;>
      (split
       · exact ⟨0, 0, by simp⟩
       · exact ⟨_, _, rfl⟩)

/-- `expanding:true` (ROWS UNBOUNDED PRECEDING .. CURRENT ROW): row `i` sees exactly the first `i + 1` rows of its partition -/
theorem expanding_frame_is_prefix (i : Nat) (part : List Row) (h : i < part.length) :
    frameSlice (some { lo := none, hi := some 0 }) i part = part.take (i + 1) := by
  simp only [frameSlice]
  have h1 : min ((part.length : Int) - 1) ((i : Int) + 0) = (i : Int) := by omega
  have h2 : ¬ ((i : Int) < 0) := by omega
  have h3 : ((i : Int) - 0 + 1).toNat = i + 1 := by omega
  simp only [h1, h2, h3, ↓reduceIte]
  simp

/-- `rolling:n` (ROWS n-1 PRECEDING .. CURRENT ROW): row `i` sees the last `n` of the first `i + 1` rows - exactly
`min n (i + 1)` rows, ending with the current one -/
theorem rolling_frame_is_last_n (n : Nat) (hn : 0 < n) (i : Nat) (part : List Row) (h : i < part.length) :
    frameSlice (some { lo := some (1 - (n : Int)), hi := some 0 }) i part = (part.take (i + 1)).drop (i + 1 - n) ∧
    (frameSlice (some { lo := some (1 - (n : Int)), hi := some 0 }) i part).length = min n (i + 1) := by
  have key : frameSlice (some { lo := some (1 - (n : Int)), hi := some 0 }) i part = (part.take (i + 1)).drop (i + 1 - n) := by
    simp only [frameSlice]
    have h1 : min ((part.length : Int) - 1) ((i : Int) + 0) = (i : Int) := by omega
    have h2 : ¬ ((i : Int) < max 0 ((i : Int) + (1 - (n : Int)))) := by omega
    have h3 : (max 0 ((i : Int) + (1 - (n : Int)))).toNat = i + 1 - n := by omega
    have h4 : ((i : Int) - max 0 ((i : Int) + (1 - (n : Int))) + 1).toNat = i + 1 - (i + 1 - n) := by omega
    simp only [h1, h2, h3, h4, ↓reduceIte]
    rw [List.drop_take]
  refine ⟨key, ?_⟩
  rw [key]
  simp only [List.length_drop, List.length_take]
  omega

example : frameSlice (some { lo := some (1 - ((2 : Nat) : Int)), hi := some 0 }) 2 [[.int 1], [.int 2], [.int 3], [.int 4]] = [[.int 2], [.int 3]] := by
  decide

end Props.C04
