/-
C05  Result columns are exactly the final frame: names, count and order.
Theorems about the mirror of `deduplicate_select_items`, the step that decides which select items of a
block survive (as repaired by the commit `fix: deduplicate_select_items compares whole identifiers`).
-/
import PrqlModel.Model.Projection
import PrqlModel.Model.Wildcards
import PrqlModel.Lemmas.Wildcards
import PrqlModel.Lemmas.Anchor
namespace Props.C05
open Model.Projection

/-- nothing is invented or reordered: the result is a sublist of the input -/
theorem dedup_sublist (seen : List (List Ident)) (items : List Item) : (dedupFrom seen items).Sublist items := by
  induction items generalizing seen with
  | nil => simp [dedupFrom]
  | cons it rest ih =>
    cases it with
    | compound ps =>
      simp only [dedupFrom]
      split
      · exact (ih _).cons _
      · exact (ih _).cons₂ _
    | aliased a =>
      simp only [dedupFrom]
      split
      · exact (ih _).cons _
      · exact (ih _).cons₂ _
    | other => simp only [dedupFrom]; exact (ih _).cons₂ _

/-- the keys (whole identifiers) of the items, in order -/
def keys (items : List Item) : List (List Ident) := items.filterMap Item.key

/-- **no_merge**: select items whose identifiers are pairwise different (and not yet seen) all survive -
in particular two columns of the same name under different relations (`t0.k`, `t1.k`) are both kept. -/
theorem no_merge_from (seen : List (List Ident)) (items : List Item)
    (hnd : (keys items).Nodup) (hfresh : ∀ k ∈ keys items, k ∉ seen) :
    dedupFrom seen items = items := by
  induction items generalizing seen with
  | nil => rfl
  | cons it rest ih =>
    cases it with
    | other =>
      simp only [dedupFrom]
      have hk0 : keys (Item.other :: rest) = keys rest := by simp [keys, List.filterMap_cons, Item.key]
      rw [ih seen (hk0 ▸ hnd) (by intro k hk; exact hfresh k (hk0 ▸ hk))]
    | compound ps =>
      have h1 : ps ∉ seen := hfresh ps (by simp [keys, Item.key])
      have h1' : seen.contains ps = false := by simpa using h1
      have hnd' : ps ∉ keys rest ∧ (keys rest).Nodup := by simpa [keys, Item.key] using hnd
      simp only [dedupFrom, h1']
      rw [ih (ps :: seen) hnd'.2 ?_]
      · rfl
      · intro k hk
        simp only [List.mem_cons, not_or]
        refine ⟨?_, hfresh k (by simp [keys, Item.key] at hk ⊢; exact Or.inr hk)⟩
        intro hkp; subst hkp; exact hnd'.1 hk
    | aliased a =>
      have h1 : [a] ∉ seen := hfresh [a] (by simp [keys, Item.key])
      have h1' : seen.contains [a] = false := by simpa using h1
      have hnd' : [a] ∉ keys rest ∧ (keys rest).Nodup := by simpa [keys, Item.key] using hnd
      simp only [dedupFrom, h1']
      rw [ih ([a] :: seen) hnd'.2 ?_]
      · rfl
      · intro k hk
        simp only [List.mem_cons, not_or]
        refine ⟨?_, hfresh k (by simp [keys, Item.key] at hk ⊢; exact Or.inr hk)⟩
        intro hkp; subst hkp; exact hnd'.1 hk

theorem no_merge (items : List Item) (hnd : (keys items).Nodup) : dedup items = items :=
  no_merge_from [] items hnd (by intro k _ h; cases h)

/-- the case that was lost before the repair: `t0.a, t0.k, t1.u, t1.k` -/
example : dedup [.compound [['t','0'], ['a']], .compound [['t','0'], ['k']], .compound [['t','1'], ['u']], .compound [['t','1'], ['k']]]
    = [.compound [['t','0'], ['a']], .compound [['t','0'], ['k']], .compound [['t','1'], ['u']], .compound [['t','1'], ['k']]] := by decide

/-- exact repetitions are still removed (first occurrence wins) -/
theorem dedup_removes_repetition (ps : List Ident) (rest : List Item) (seen : List (List Ident)) (h : ps ∈ seen) :
    dedupFrom seen (.compound ps :: rest) = dedupFrom seen rest := by
  have : seen.contains ps = true := by simpa using h
  simp only [dedupFrom, this, if_true]

example : dedup [.compound [['t'], ['a']], .aliased ['x'], .compound [['t'], ['a']], .aliased ['x']] = [.compound [['t'], ['a']], .aliased ['x']] := by decide

/-- `kept` (indices, as reported by the hook) describes `dedup` -/
theorem kept_length (seen : List (List Ident)) (i : Nat) (items : List Item) :
    (keptFrom seen i items).length = (dedupFrom seen items).length := by
  induction items generalizing seen i with
  | nil => rfl
  | cons it rest ih =>
    cases it with
    | compound ps => simp only [keptFrom, dedupFrom]; split <;> simp [ih]
    | aliased a => simp only [keptFrom, dedupFrom]; split <;> simp [ih]
    | other => simp [keptFrom, dedupFrom, ih]

/-! ## `translate_wildcards`: the select list with stars and exclusion sets

`Model.Wildcards.run env cols = (output, excluded)` mirrors `translate_wildcards` (tied to the real function through
the hook `hook_wildcards`). `shown env excluded output` is what that select list shows, as column ids: a plain
column itself, a star its wildcard plus every known column of its instance that is not in its exclusion set. -/
section Wildcards
open Model.Wildcards

/-- the requests the Lowerer can make: every star at most once, and the known columns of a requested star's
instance are not themselves wildcards -/
def WF (env : Env) (cols : List Nat) : Prop :=
  (cols.filter (fun c => (env.wild c).isSome)).Nodup ∧
  ∀ w ∈ cols, ∀ r, env.wild w = some r → ∀ x ∈ env.orig r, x ≠ w → env.wild x = none

/-- **exactness**: what the select list with its EXCLUDE lists shows is exactly (as a multiset) what was requested -/
theorem wildcards_exact (env : Env) (cols : List Nat) (h : WF env cols) :
    (shown env (run env cols).2 (run env cols).1).Perm cols := by
  have hi := Lemmas.Wildcards.runSt_inv env cols h.1 h.2
  have h1 : (shown env (run env cols).2 (run env cols).1).Perm
      (shown env (flush (runSt env cols).star (runSt env cols).excl) (runSt env cols).outRev) :=
    List.Perm.flatMap_right _ (List.reverse_perm _)
  exact h1.trans (List.perm_iff_count.2 hi.cnt)

/-- the same for the EMITTED list, where a star's exclusion set is consumed by its first occurrence
(`excluded.remove(&cid)` in `translate_select_items`) -/
theorem wildcards_exact_emitted (env : Env) (cols : List Nat) (h : WF env cols) :
    (shownEmit env (run env cols).2 (run env cols).1).Perm cols := by
  rw [Lemmas.Wildcards.shownEmit_eq_shown]
  · exact wildcards_exact env cols h
  · intro c hc
    have h1 := (Lemmas.Wildcards.runSt_sublist env cols).count_le c
    have h2 := List.nodup_iff_count.1 h.1 c
    rw [List.count_filter (by simpa using hc)] at h2
    exact Nat.le_trans h1 h2

/-- nothing is invented and the requested order is kept (no hypothesis) -/
theorem wildcards_output_sublist (env : Env) (cols : List Nat) : (run env cols).1.Sublist cols :=
  Lemmas.Wildcards.runSt_sublist env cols

/-- every exclusion set belongs to a star and names known columns of that star's instance, never the star itself
(no hypothesis): the EXCLUDE list of `r.*` only mentions columns `r.*` shows -/
theorem wildcards_excluded_known (env : Env) (cols : List Nat) :
    ∀ p ∈ (run env cols).2, ∃ r, env.wild p.1 = some r ∧ ∀ y ∈ p.2, y ∈ env.orig r ∧ y ≠ p.1 := by
  have hi := Lemmas.Wildcards.runSt_invEx env cols
  intro p hp
  obtain ⟨r, hr, hS⟩ := Lemmas.Wildcards.flush_exok hi.star hi.excl p hp
  exact ⟨r, hr, fun y hy => ⟨(Lemmas.Wildcards.mem_known.1 (hS y hy)).2, (Lemmas.Wildcards.mem_known.1 (hS y hy)).1⟩⟩

/-- on dialects without an exclusion facility (the exclusion sets are dropped) nothing requested is lost; extra
columns may appear (known finding star-projection-extra-columns) -/
theorem wildcards_no_exclude_superset (env : Env) (cols : List Nat) (h : WF env cols) :
    ∀ x ∈ cols, x ∈ shown env [] (run env cols).1 := by
  intro x hx
  exact Lemmas.Wildcards.shown_subset_nil env _ _ x ((wildcards_exact env cols h).mem_iff.2 hx)

/-- instance 0 = `[a = 0, b = 1, star = 2]`, instance 1 = `[c = 3, star = 4]`, 5 is computed -/
def exEnv : Env where
  wild := fun c => if c = 2 then some 0 else if c = 4 then some 1 else none
  orig := fun r => if r = 0 then [0, 1, 2] else if r = 1 then [3, 4] else []

theorem exEnv_wf : WF exEnv [0, 2, 5, 4, 3] := by
  refine ⟨by decide, ?_⟩
  intro w hw r hr x hx hne
  have hall : ∀ w ∈ [0, 2, 5, 4, 3], ∀ x ∈ exEnv.orig ((exEnv.wild w).getD 9), x ≠ w → exEnv.wild x = none := by
    decide
  have := hall w hw x
  rw [hr] at this
  exact this hx hne

/-- the hypotheses are satisfiable on an input with a popped column (`a`, requested right before its star), an
excluded one (`b`, not requested), a column shown by a preceding star (`c`) and a computed column -/
example : WF exEnv [0, 2, 5, 4, 3] ∧ run exEnv [0, 2, 5, 4, 3] = ([2, 5, 4], [(2, [1])]) := ⟨exEnv_wf, by decide⟩

/-- **the same star requested twice** (outside `WF`): for `cols = [star, a, star]` the second flush overwrites the
first exclusion set (`HashMap::insert`), both stars then exclude `a` and `b`, and `a` is not shown at all -/
theorem wildcards_duplicate_star_counterexample :
    ¬ (shown exEnv (run exEnv [2, 0, 2]).2 (run exEnv [2, 0, 2]).1).Perm [2, 0, 2] ∧
    shown exEnv (run exEnv [2, 0, 2]).2 (run exEnv [2, 0, 2]).1 = [2, 2] ∧
    ¬ WF exEnv [2, 0, 2] :=
  ⟨by decide, by decide, fun h => absurd h.1 (by decide)⟩

/-- instance 0 = `[a = 0, star = 1, helper = 2]` (a relation with a generated column, e.g. a row number) -/
def exEnv2 : Env where
  wild := fun c => if c = 1 then some 0 else none
  orig := fun _ => [0, 1, 2]

/-- **the same star requested twice, as emitted**: for the request `[a, star, a, star]` (what `select {t.*, t.*}` asks
for) both stars get the exclusion set `{helper}`, but the emitted list uses it for the first star only: the second
`*` shows the helper column, which nobody requested. Reachable from source, see the report of C05. -/
theorem wildcards_duplicate_star_emitted_counterexample :
    run exEnv2 [0, 1, 0, 1] = ([1, 1], [(1, [2]), (1, [2])]) ∧
    shown exEnv2 (run exEnv2 [0, 1, 0, 1]).2 (run exEnv2 [0, 1, 0, 1]).1 = [1, 0, 1, 0] ∧
    shownEmit exEnv2 (run exEnv2 [0, 1, 0, 1]).2 (run exEnv2 [0, 1, 0, 1]).1 = [1, 0, 1, 0, 2] ∧
    ¬ (shownEmit exEnv2 (run exEnv2 [0, 1, 0, 1]).2 (run exEnv2 [0, 1, 0, 1]).1).Perm [0, 1, 0, 1] := by decide

end Wildcards

/-! ## the Select of the final SELECT is the requested frame (mirror of `extract_atomic`, sql/pq/anchor.rs)

`Model.Anchor.extractAtomic` mirrors `extract_atomic` as a whole - `split_off_back`, `anchor_split` and the *limiting SELECT* that
is put around a block whose Select had to be widened by columns other clauses need (sort keys ..) - and is tied to the code by
replaying every recorded call (tools/anchortrace.py: the returned pipeline must agree, `determine_select_columns` must agree).
Whatever the pipeline and wherever it is cut: the block that is compiled to the SELECT of this relation selects exactly the
requested columns, so helper columns never reach the result and no requested column is dropped or duplicated. -/
/-! ### the alias decision of translate_select_item (tie: every recorded call replayed, tools/props/c05.py) -/
section Alias

/-- the database returns every select item under the name the frame gives the column - whatever name the emitted expression
would have by itself, whatever the generated name -/
theorem select_item_carries_the_frame_name (inferred : Option Ident) (n fresh : Ident) :
    resultName inferred (some n) fresh = some n := by
  unfold resultName aliasOf
  by_cases h : inferred = some n <;> simp [h]

/-- an alias is written exactly when the two names differ -/
theorem alias_only_when_needed (inferred expected : Option Ident) (fresh : Ident) :
    aliasOf inferred expected fresh = none ↔ inferred = expected := by
  unfold aliasOf
  by_cases h : inferred = expected <;> simp [h]

/-- ... and "differ" is exact: a column whose name differs from the inferred one only in letter case is aliased (the seeded
change C05-m1 compared case-insensitively) -/
theorem alias_comparison_is_exact : aliasOf (some ['a']) (some ['A']) ['_', 'e'] = some ['A'] := by decide

/-- a column without a name in the frame never shows the inferred name: it gets a generated one -/
theorem unnamed_column_hides_the_inferred_name (n fresh : Ident) : resultName (some n) none fresh = some fresh := by
  simp [resultName, aliasOf]

end Alias

section ExtractAtomic
open Model.Anchor Lemmas.Anchor

/-- **extract_atomic_selects_exactly_the_frame.** For every pipeline `p`, every list `out` of requested output columns
(`determine_select_columns`; repetitions allowed) and every state of the id generator above the ids in play: the Select
of the atomic pipeline that `extract_atomic` returns is the requested list seen through the redirects - the same
number of columns, in the same order. -/
theorem extract_atomic_selects_exactly_the_frame (decls : List Comp) (next : CId) (p : List Tr) (out : List CId)
    (hout : ∀ b ∈ out, b < next) (hsel : ∀ a ∈ (splitOffBack decls p out).select, a < next) :
    selectOf (extractAtomic decls next p out).atomic = some (extractAtomic decls next p out).output ∧
    (extractAtomic decls next p out).output.length = out.length :=
  extract_selects_output_fresh decls next p out hout hsel

/-- the widened Select of a block is the requested list followed by columns that are not requested: these are what the
limiting SELECT removes -/
theorem widened_select_shape (decls : List Comp) (p : List Tr) (out : List CId) :
    ∃ ext, (splitOffBack decls p out).select = out ++ ext ∧ ∀ c ∈ ext, c ∉ out :=
  splitOffBack_select_shape decls p out

/-- non-vacuity: `from t | sort b | select {a}` (a, b = columns 0, 1): the sort key widens the Select to `[0, 1]`, the limiting
SELECT over a new relation (ids from 10) selects the single requested column -/
example : (∀ b ∈ [0], b < 10) ∧ (∀ a ∈ (splitOffBack [] [.from [0, 1], .sort [1], .select [0]] [0]).select, a < 10) ∧
    (splitOffBack [] [.from [0, 1], .sort [1], .select [0]] [0]).select = [0, 1] ∧
    (extractAtomic [] 10 [.from [0, 1], .sort [1], .select [0]] [0]).atomic = [.from [10, 11], .select [10]] ∧
    (extractAtomic [] 10 [.from [0, 1], .sort [1], .select [0]] [0]).stashed =
      [[.select [0, 1], .from [0, 1], .sort [1], .select [0, 1]]] := by decide

end ExtractAtomic

end Props.C05
