/-
C05  Result columns are exactly the final frame: names, count and order.
Theorems about the mirror of `deduplicate_select_items`, the step that decides which select items of a
block survive (as repaired by the commit `fix: deduplicate_select_items compares whole identifiers`).
-/
import PrqlModel.Model.Projection
namespace Props.C05
open Model.Projection

/-- nothing is invented or reordered: the result is a sublist of the input -/
theorem dedup_sublist (seen : List (List Ident)) (items : List Item) : (dedupFrom seen items).Sublist items := by
  induction items generalizing seen with
  | nil => simp [dedupFrom]
  | cons it rest ih =>
    cases it with
    | compound ps =>
      simp only [dedupFrom]
      split
      · exact (ih _).cons _
      · exact (ih _).cons₂ _
    | aliased a =>
      simp only [dedupFrom]
      split
      · exact (ih _).cons _
      · exact (ih _).cons₂ _
    | other => simp only [dedupFrom]; exact (ih _).cons₂ _

/-- the keys (whole identifiers) of the items, in order -/
def keys (items : List Item) : List (List Ident) := items.filterMap Item.key

/-- **no_merge**: select items whose identifiers are pairwise different (and not yet seen) all survive -
in particular two columns of the same name under different relations (`t0.k`, `t1.k`) are both kept. -/
theorem no_merge_from (seen : List (List Ident)) (items : List Item)
    (hnd : (keys items).Nodup) (hfresh : ∀ k ∈ keys items, k ∉ seen) :
    dedupFrom seen items = items := by
  induction items generalizing seen with
  | nil => rfl
  | cons it rest ih =>
    cases it with
    | other =>
      simp only [dedupFrom]
      have hk0 : keys (Item.other :: rest) = keys rest := by simp [keys, List.filterMap_cons, Item.key]
      rw [ih seen (hk0 ▸ hnd) (by intro k hk; exact hfresh k (hk0 ▸ hk))]
    | compound ps =>
      have h1 : ps ∉ seen := hfresh ps (by simp [keys, Item.key])
      have h1' : seen.contains ps = false := by simpa using h1
      have hnd' : ps ∉ keys rest ∧ (keys rest).Nodup := by simpa [keys, Item.key] using hnd
      simp only [dedupFrom, h1']
      rw [ih (ps :: seen) hnd'.2 ?_]
      · rfl
      · intro k hk
        simp only [List.mem_cons, not_or]
        refine ⟨?_, hfresh k (by simp [keys, Item.key] at hk ⊢; exact Or.inr hk)⟩
        intro hkp; subst hkp; exact hnd'.1 hk
    | aliased a =>
      have h1 : [a] ∉ seen := hfresh [a] (by simp [keys, Item.key])
      have h1' : seen.contains [a] = false := by simpa using h1
      have hnd' : [a] ∉ keys rest ∧ (keys rest).Nodup := by simpa [keys, Item.key] using hnd
      simp only [dedupFrom, h1']
      rw [ih ([a] :: seen) hnd'.2 ?_]
      · rfl
      · intro k hk
        simp only [List.mem_cons, not_or]
        refine ⟨?_, hfresh k (by simp [keys, Item.key] at hk ⊢; exact Or.inr hk)⟩
        intro hkp; subst hkp; exact hnd'.1 hk

theorem no_merge (items : List Item) (hnd : (keys items).Nodup) : dedup items = items :=
  no_merge_from [] items hnd (by intro k _ h; cases h)

/-- the case that was lost before the repair: `t0.a, t0.k, t1.u, t1.k` -/
example : dedup [.compound [['t','0'], ['a']], .compound [['t','0'], ['k']], .compound [['t','1'], ['u']], .compound [['t','1'], ['k']]]
    = [.compound [['t','0'], ['a']], .compound [['t','0'], ['k']], .compound [['t','1'], ['u']], .compound [['t','1'], ['k']]] := by decide

/-- exact repetitions are still removed (first occurrence wins) -/
theorem dedup_removes_repetition (ps : List Ident) (rest : List Item) (seen : List (List Ident)) (h : ps ∈ seen) :
    dedupFrom seen (.compound ps :: rest) = dedupFrom seen rest := by
  have : seen.contains ps = true := by simpa using h
  simp only [dedupFrom, this, if_true]

example : dedup [.compound [['t'], ['a']], .aliased ['x'], .compound [['t'], ['a']], .aliased ['x']] = [.compound [['t'], ['a']], .aliased ['x']] := by decide

/-- `kept` (indices, as reported by the hook) describes `dedup` -/
theorem kept_length (seen : List (List Ident)) (i : Nat) (items : List Item) :
    (keptFrom seen i items).length = (dedupFrom seen items).length := by
  induction items generalizing seen i with
  | nil => rfl
  | cons it rest ih =>
    cases it with
    | compound ps => simp only [keptFrom, dedupFrom]; split <;> simp [ih]
    | aliased a => simp only [keptFrom, dedupFrom]; split <;> simp [ih]
    | other => simp [keptFrom, dedupFrom, ih]

end Props.C05
