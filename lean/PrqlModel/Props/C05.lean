/-
C05  Result columns are exactly the final frame: names, count and order.
Theorems about the mirror of `deduplicate_select_items`, the step that decides which select items of a
block survive.
-/
import PrqlModel.Model.Projection
namespace Props.C05
open Model.Projection

theorem anyInsert_seen_mono (seen : List Ident) (ps : List Ident) (x : Ident) (h : x ∈ seen) :
    x ∈ (anyInsert seen ps).2 := by
  induction ps with
  | nil => simpa [anyInsert]
  | cons p rest ih =>
    simp only [anyInsert]
    split
    · exact ih
    · simp [h]

/-- nothing is invented or reordered: the result is a sublist of the input -/
theorem dedup_sublist (seen : List Ident) (items : List Item) : (dedupFrom seen items).Sublist items := by
  induction items generalizing seen with
  | nil => simp [dedupFrom]
  | cons it rest ih =>
    cases it with
    | compound ps =>
      simp only [dedupFrom]
      split
      · exact (ih _).cons₂ _
      · exact (ih _).cons _
    | aliased a =>
      simp only [dedupFrom]
      split
      · exact (ih _).cons _
      · exact (ih _).cons₂ _
    | other => simp only [dedupFrom]; exact (ih _).cons₂ _

/-- an item survives when one of its identifiers is new -/
theorem anyInsert_true_of_fresh (seen : List Ident) (ps : List Ident) (p : Ident) (hp : p ∈ ps) (hf : p ∉ seen) :
    (anyInsert seen ps).1 = true := by
  induction ps with
  | nil => cases hp
  | cons q rest ih =>
    simp only [anyInsert]
    split
    · next hq =>
      have : p ≠ q := by
        intro h; subst h
        exact hf (by simpa using hq)
      have hp' : p ∈ rest := by
        cases hp with
        | head => exact absurd rfl this
        | tail _ h => exact h
      exact ih hp'
    · rfl

/-- the identifiers seen after the scan all come from `seen` or from the items scanned -/
theorem anyInsert_seen_sub (seen ps : List Ident) (x : Ident) (h : x ∈ (anyInsert seen ps).2) :
    x ∈ seen ∨ x ∈ ps := by
  induction ps with
  | nil => left; simpa [anyInsert] using h
  | cons p rest ih =>
    simp only [anyInsert] at h
    split at h
    · rcases ih h with h1 | h1
      · exact Or.inl h1
      · exact Or.inr (by simp [h1])
    · simp only [List.mem_cons] at h
      rcases h with rfl | h
      · exact Or.inr (by simp)
      · exact Or.inl h

/-- **no_merge_partial**: if every item mentions an identifier that no earlier item (nor the initial
set) mentions – e.g. all column names are pairwise different and differ from the relation names – then no
select item is dropped. -/
def FreshChain : List Ident → List Item → Prop
  | _, [] => True
  | seen, it :: rest =>
    (it = .other ∨ ∃ p ∈ it.idents, p ∉ seen) ∧ FreshChain (it.idents ++ seen) rest

theorem dedupFrom_mono_seen (seen seen' : List Ident) (items : List Item)
    (hsub : ∀ x, x ∈ seen' → x ∈ seen) (hc : FreshChain seen items) : FreshChain seen' items := by
  induction items generalizing seen seen' with
  | nil => trivial
  | cons it rest ih =>
    refine ⟨?_, ?_⟩
    · rcases hc.1 with h | ⟨p, hp, hf⟩
      · exact Or.inl h
      · exact Or.inr ⟨p, hp, fun h => hf (hsub p h)⟩
    · apply ih (it.idents ++ seen) _ _ hc.2
      intro x hx
      simp only [List.mem_append] at hx ⊢
      rcases hx with h | h
      · exact Or.inl h
      · exact Or.inr (hsub x h)

theorem no_merge_partial (seen : List Ident) (items : List Item) (h : FreshChain seen items) :
    dedupFrom seen items = items := by
  induction items generalizing seen with
  | nil => rfl
  | cons it rest ih =>
    obtain ⟨hfresh, hrest⟩ := h
    cases it with
    | other =>
      simp only [dedupFrom]
      rw [ih seen (dedupFrom_mono_seen _ _ _ (by intro x hx; simp [hx]) hrest)]
    | aliased a =>
      have hna : a ∉ seen := by
        rcases hfresh with h | ⟨p, hp, hf⟩
        · cases h
        · simp [Item.idents] at hp; subst hp; exact hf
      have : seen.contains a = false := by simpa using hna
      simp only [dedupFrom, this]
      rw [ih (a :: seen) (dedupFrom_mono_seen _ _ _ (by intro x hx; simpa [Item.idents] using hx) hrest)]
      rfl
    | compound ps =>
      obtain ⟨p, hp, hf⟩ : ∃ p ∈ ps, p ∉ seen := by
        rcases hfresh with h | h
        · cases h
        · simpa [Item.idents] using h
      have hk := anyInsert_true_of_fresh seen ps p hp hf
      simp only [dedupFrom, hk, if_true]
      rw [ih _ (dedupFrom_mono_seen _ _ _ ?_ hrest)]
      intro x hx
      rcases anyInsert_seen_sub seen ps x hx with h | h
      · simp [h]
      · simp [Item.idents, h]

/-- the full statement of "no selected column is dropped or merged": whenever the items are pairwise
different select items, all of them survive -/
def NoMergeFull : Prop := ∀ items : List Item, items.Nodup → (∀ it ∈ items, it ≠ .other) → dedup items = items

/-- … is FALSE for the code as it stands: `t0.a, t0.k, t1.u, t1.k` loses `t1.k` (both `t1` and `k` were seen) -/
theorem no_merge_counterexample : ¬ NoMergeFull := by
  intro h
  have := h [.compound [['t','0'], ['a']], .compound [['t','0'], ['k']], .compound [['t','1'], ['u']], .compound [['t','1'], ['k']]]
    (by decide) (by decide)
  revert this
  decide

/-- what is lost in the counterexample is a column of the second relation -/
example : dedup [.compound [['t','0'], ['a']], .compound [['t','0'], ['k']], .compound [['t','1'], ['u']], .compound [['t','1'], ['k']]]
    = [.compound [['t','0'], ['a']], .compound [['t','0'], ['k']], .compound [['t','1'], ['u']]] := by decide

-- non-vacuity of `FreshChain`: distinct column names under two relations
example : FreshChain [] [.compound [['t'], ['a']], .compound [['t'], ['b']], .aliased ['x'], .compound [['u'], ['c']]] := by
  simp [FreshChain, Item.idents]

/-- `kept` (indices, as reported by the hook) describes `dedup` -/
theorem kept_length (seen : List Ident) (i : Nat) (items : List Item) :
    (keptFrom seen i items).length = (dedupFrom seen items).length := by
  induction items generalizing seen i with
  | nil => rfl
  | cons it rest ih =>
    cases it with
    | compound ps => simp only [keptFrom, dedupFrom]; split <;> simp [ih]
    | aliased a => simp only [keptFrom, dedupFrom]; split <;> simp [ih]
    | other => simp [keptFrom, dedupFrom, ih]

end Props.C05
