/-
C06  Refactorings PRQL defines as equivalent do not change results.
Theorems on the reference semantics Model.Rel (all tables, all expressions, any pipeline length).
-/
import PrqlModel.Model.Rel
import PrqlModel.Model.Fn
namespace Props.C06
open Model.Rel

/-! ### T3 splitting a conjunctive filter -/

theorem and3_true (x y : Option Bool) : and3 x y = some true ↔ x = some true ∧ y = some true := by
  cases x with
  | none => cases y with
    | none => simp [and3]
    | some b => cases b <;> simp [and3]
  | some a => cases a <;> cases y with
    | none => simp [and3]
    | some b => cases b <;> simp [and3]

theorem truth_ofTruth (o : Option Bool) : (ofTruth o).truth = o := by
  cases o with
  | none => rfl
  | some b => rfl

theorem filter_split (resolve : Src → Table) (t : Table) (a b : Expr) :
    step resolve t (.filter (.bin .and a b)) = step resolve (step resolve t (.filter a)) (.filter b) := by
  simp only [step, List.filter_filter]
  congr 1
  apply List.filter_congr
  intro r _
  simp only [Expr.eval, evalBin, truth_ofTruth]
  generalize (a.eval r).truth = x
  generalize (b.eval r).truth = y
  rcases x with _ | (_ | _) <;> rcases y with _ | (_ | _) <;> rfl

/-! ### T4 transforms that are identities on the frame -/

theorem takeRange_all (l : List α) : takeRange none none l = l := by
  simp [takeRange]

theorem take_unbounded_id (resolve : Src → Table) (t : Table) :
    (step resolve t (.take none none)).rows = t.rows := by
  simp [step, takeRange]

theorem derive_nothing_id (resolve : Src → Table) (t : Table) :
    step resolve t (.derive []) = t := by
  have h : deriveRow [] = id := by funext r; rfl
  cases t; simp [step, h]

/-- `select` of every column of the frame, in order, is the identity on rows of that width -/
theorem select_frame_id (resolve : Src → Table) (t : Table) (n : Nat)
    (hw : ∀ r ∈ t.rows, r.length = n) :
    (step resolve t (.select ((List.range n).map Expr.col))).rows = t.rows := by
  simp only [step]
  conv => rhs; rw [← List.map_id t.rows]
  apply List.map_congr_left
  intro r hr
  have hl := hw r hr
  apply List.ext_getElem
  · simp [hl]
  · intro i h1 h2
    have h3 : i < r.length := by simpa using h2
    simp [Expr.eval, List.getD, h3]

theorem insBy_const_le (x : α) (l : List α) : insBy (fun _ _ => true) x l = x :: l := by
  cases l <;> simp [insBy]

theorem isortBy_const (l : List α) : isortBy (fun _ _ => true) l = l := by
  induction l with
  | nil => rfl
  | cons x xs ih => simp [isortBy, ih, insBy_const_le]

/-- `sort {}` keeps the rows as they are (the sort is stable) -/
theorem sort_nothing_id (resolve : Src → Table) (t : Table) :
    (step resolve t (.sort [])).rows = t.rows := by
  simp only [step, sortRows, cmpKeys]
  exact isortBy_const t.rows

/-! ### T1 naming a pipeline prefix with `let` / `into` and continuing from the name -/

theorem step_congr (r1 r2 : Src → Table) (t : Table) (tr : Tr) (h : ∀ s ∈ tr.srcs, r1 s = r2 s) :
    step r1 t tr = step r2 t tr := by
  cases tr <;> simp_all [step, Tr.srcs]

theorem foldl_step_congr (r1 r2 : Src → Table) (trs : List Tr) (t : Table)
    (h : ∀ tr ∈ trs, ∀ s ∈ tr.srcs, r1 s = r2 s) :
    trs.foldl (step r1) t = trs.foldl (step r2) t := by
  induction trs generalizing t with
  | nil => rfl
  | cons tr rest ih =>
    simp only [List.foldl_cons]
    rw [step_congr r1 r2 t tr (h tr (by simp))]
    exact ih _ (fun tr' htr' => h tr' (by simp [htr']))

theorem evalLets_snoc (db : Db) (ls : List Pipe) (p : Pipe) :
    evalLets db (ls ++ [p]) = evalLets db ls ++ [evalPipe db (evalLets db ls) p] := by
  simp [evalLets, List.foldl_append]

theorem evalLets_length_aux (db : Db) (ls : List Pipe) (acc : List Table) :
    (ls.foldl (fun acc l => acc ++ [evalPipe db acc l]) acc).length = acc.length + ls.length := by
  induction ls generalizing acc with
  | nil => simp
  | cons l rest ih => simp only [List.foldl_cons]; rw [ih]; simp; omega

theorem evalLets_length (db : Db) (ls : List Pipe) : (evalLets db ls).length = ls.length := by
  simp [evalLets, evalLets_length_aux]

/-- the relation references of a pipeline tail only name tables and `let`s that exist -/
def RefsBelow (n : Nat) (trs : List Tr) : Prop :=
  ∀ tr ∈ trs, ∀ s ∈ tr.srcs, match s with | .base _ => True | .ref i => i < n

/-- a program whose main pipeline is `pre ++ post` denotes the same relation (rows, order flags) as the
program that binds `pre` to a new last `let` and continues from that name. -/
theorem let_prefix (db : Db) (lets : List Pipe) (src : Src) (pre post : List Tr)
    (hp : RefsBelow lets.length post) :
    evalSrc db { lets := lets ++ [{ src := src, trs := pre }],
                 main := { src := .ref lets.length, trs := post } } =
    evalSrc db { lets := lets, main := { src := src, trs := pre ++ post } } := by
  simp only [evalSrc, evalLets_snoc]
  have hlen := evalLets_length db lets
  generalize hP : evalPipe db (evalLets db lets) { src := src, trs := pre } = P
  have h0 : resolveSrc db (evalLets db lets ++ [P]) (.ref lets.length) = P := by
    simp [resolveSrc, List.getD, ← hlen]
  have hmain : evalPipe db (evalLets db lets) { src := src, trs := pre ++ post }
      = post.foldl (step (resolveSrc db (evalLets db lets))) P := by
    rw [← hP]; simp [evalPipe, List.foldl_append]
  rw [hmain]
  show post.foldl (step (resolveSrc db (evalLets db lets ++ [P])))
      (resolveSrc db (evalLets db lets ++ [P]) (.ref lets.length)) = _
  rw [h0]
  apply foldl_step_congr
  intro tr htr s hs
  have := hp tr htr s hs
  cases s with
  | base i => rfl
  | ref i =>
    simp only at this
    simp only [resolveSrc, List.getD]
    rw [List.getElem?_append_left (by omega)]

-- non-vacuity of `RefsBelow`
example : RefsBelow 1 [.filter (.col 0), .join .inner (.ref 0) 1 1 (.lit (.bool true)), .append (.base 3)] := by
  intro tr htr s hs
  simp at htr
  rcases htr with rfl | rfl | rfl <;> simp [Tr.srcs] at hs <;> subst hs <;> simp

/-! ### T2 replacing an expression by a call of a function whose body is that expression -/
open Model.Fn

theorem getD_map_eval (σ : List Expr) (r : Row) (i : Nat) :
    (σ.getD i (.lit .null)).eval r = (σ.map (·.eval r)).getD i .null := by
  simp only [List.getD, List.getElem?_map]
  cases σ[i]? <;> rfl

/-- inlining: evaluating a body with expressions substituted for its parameters = evaluating the body
on the row of argument values (also the lemma behind inlining computed columns into WHERE/ORDER BY) -/
theorem subst_eval (σ : List Expr) (e : Expr) (r : Row) :
    (subst σ e).eval r = e.eval (σ.map (·.eval r)) := by
  induction e with
  | col i => exact getD_map_eval σ r i
  | lit v => rfl
  | bin op a b iha ihb => simp [subst, Expr.eval, iha, ihb]
  | neg a ih => simp [subst, Expr.eval, ih]
  | not a ih => simp [subst, Expr.eval, ih]
  | isNull a ih => simp [subst, Expr.eval, ih]
  | notNull a ih => simp [subst, Expr.eval, ih]
  | ite c t e ihc iht ihe => simp [subst, Expr.eval, ihc, iht, ihe]

/-- β for positional arguments: calling `f` (no named parameters) on `args` is the body on the argument values -/
theorem beta_positional (body : Expr) (args : List Expr) (r : Row) :
    (call { positional := args.length, named := [], body := body } args []).map (·.eval r)
      = .ok (body.eval (args.map (·.eval r))) := by
  simp [call, bindArgs, Except.map, subst_eval]

/-- β with a named parameter: the parameter receives the named argument if present, else its default -/
theorem beta_named_given (body : Expr) (args : List Expr) (n : Name) (dflt v : Expr) (r : Row) :
    (call { positional := args.length, named := [(n, dflt)], body := body } args [(n, v)]).map (·.eval r)
      = .ok (body.eval ((args ++ [v]).map (·.eval r))) := by
  simp [call, bindArgs, Except.map, subst_eval, List.find?]

theorem beta_named_default (body : Expr) (args : List Expr) (n : Name) (dflt : Expr) (r : Row) :
    (call { positional := args.length, named := [(n, dflt)], body := body } args []).map (·.eval r)
      = .ok (body.eval ((args ++ [dflt]).map (·.eval r))) := by
  simp [call, bindArgs, Except.map, subst_eval, List.find?]

/-- `x | f a` is `f a x` -/
theorem pipe_is_last_positional (f : FnDecl) (x : Expr) (pos : List Expr) (named : List (Name × Expr)) :
    pipeCall f x pos named = call f (pos ++ [x]) named := rfl

/-- replacing an expression `e` by a call to a function whose body is `e` abstracted over the
sub-expressions `args` (i.e. `e = subst args body`) does not change its value on any row -/
theorem beta (body : Expr) (args : List Expr) (r : Row) :
    (call { positional := args.length, named := [], body := body } args []).map (·.eval r)
      = .ok ((subst args body).eval r) := by
  rw [beta_positional, subst_eval]

end Props.C06
