/-
C07  Every accepted program compiles to SQL the selected dialect parses and binds.
Theorems on the dialect-dependent clause rules (over the flags regenerated from dialect.rs).
-/
import PrqlModel.Model.Clause
import PrqlModel.Props.C03
import PrqlModel.Lemmas.Anchor
import PrqlModel.Lemmas.CteOrder
import PrqlModel.Lemmas.Positional
namespace Props.C07
open Model.Clause Model.Take Gen Rel

/-- T2a: FETCH never appears without OFFSET, and never without an ORDER BY (one is supplied when the query has none) -/
theorem fetch_needs_offset_and_order (useFetch : Bool) (r : Range) (ob dist : Bool) :
    (emit useFetch r ob dist).fetch.isSome = true →
      (emit useFetch r ob dist).offset.isSome = true ∧ (ob = true → (emit useFetch r ob dist).orderFill ≠ .none) := by
  obtain ⟨s, e⟩ := r
  cases useFetch <;> cases e <;> cases ob <;> cases dist <;> simp [emit, limitOffsetOf]

/-- T2b: LIMIT and FETCH are never both emitted; dialects without `use_fetch` never see FETCH -/
theorem limit_xor_fetch (useFetch : Bool) (r : Range) (ob dist : Bool) :
    ((emit useFetch r ob dist).limit.isSome = true → (emit useFetch r ob dist).fetch = Option.none) ∧
    (useFetch = false → (emit useFetch r ob dist).fetch = Option.none) := by
  obtain ⟨s, e⟩ := r
  cases useFetch <;> cases e <;> simp [emit, limitOffsetOf]

/-- exactly the dialects with the flag use FETCH (table regenerated from dialect.rs) -/
theorem fetch_dialects : ∀ d : Dialect, d.use_fetch = true ↔ d = .mssql := by
  intro d; cases d <;> decide

/-- the word DISTINCT follows a set operator only on a dialect whose flag says the engine knows that spelling, and only for the
de-duplicating form; the duplicate-keeping form is always ALL -/
theorem set_quantifier_rules (d : Dialect) (distinct : Bool) :
    (setQuantifierFor d distinct = .distinct → d.set_ops_distinct = true ∧ distinct = true) ∧
    (distinct = false → setQuantifierFor d distinct = .all) ∧
    (distinct = true → d.set_ops_distinct = false → setQuantifierFor d distinct = .bare) := by
  cases distinct <;> cases h : d.set_ops_distinct <;> simp [setQuantifierFor, setQuantifier, h]

/-- exactly these dialects do not know `UNION DISTINCT` (table regenerated from dialect.rs) -/
theorem dialects_without_union_distinct : ∀ d : Dialect, d.set_ops_distinct = false ↔ (d = .sqlite ∨ d = .mssql ∨ d = .snowflake) := by
  intro d; cases d <;> decide

/-- T2c: whatever the dialect, the emitted clauses select the rows of the range -/
theorem clauses_select_range (useFetch : Bool) (r : Range) (ob dist : Bool) (l : List α) :
    select (emit useFetch r ob dist) l = takeR r.1 r.2 l := by
  rw [← Props.C03.limit_offset_ok r l]
  obtain ⟨s, e⟩ := r
  by_cases h0 : (s.getD 1) - 1 = 0 <;>
    cases useFetch <;> cases e <;> simp [emit, select, limitOffsetOf, limitOffset, h0]

/-- a run of takes is emitted correctly under every dialect's clause rules -/
theorem takes_emitted_correctly (d : Dialect) (rs : List Range) (ob dist : Bool) (l : List α)
    (h : Props.C03.StartsOk rs) :
    select (emitFor d (rangeOfRanges rs) ob dist) l = Props.C03.takes rs l := by
  rw [emitFor, clauses_select_range, Props.C03.takes_rangeOfRanges rs l h]

/-! ## T1 scope of column references across a pipeline split

`Model.Anchor` mirrors `split_off_back` / `anchor_split` of sql/pq/anchor.rs (tied to the code by replaying every
recorded call of `extract_atomic`, see tools/anchortrace.py). The theorems below say that the requirement
bookkeeping of the back-to-front scan closes the scope of the SELECT built from the atomic part: nothing it reads is
left inside the sub-query that the preceding part becomes, unless the preceding part selects it. -/

section Scope
open Model.Anchor Lemmas.Anchor

/-- **split_scope_closed.** For every well-formed pipeline (each transform mentions only columns defined before it,
definitions are unique, the output is defined) and whatever the split point turns out to be: the set `R` of required
columns (i) contains the output columns, the Select heading the atomic part and every column the SELECT reads on behalf
of a kept transform (filter / join conditions, aggregate partition, sort keys not dropped in front of an aggregate,
DISTINCT ON columns, take bounds), and (ii) every column of `R` is a column of a relation instance of the atomic part,
a compute kept in the atomic part whose own reads - window partition and order included - are in `R` again, or one of
the `missing` columns that the preceding part is made to select. -/
theorem split_scope_closed (decls : List Comp) (p : List Tr) (out : List CId) (hwf : wfPipe p out = true) :
    (∀ c ∈ out, c ∈ finalRequired decls p out) ∧
    (∀ c ∈ (splitOffBack decls p out).select, c ∈ finalRequired decls p out) ∧
    (∀ pre t post, (splitOffBack decls p out).kept = pre ++ t :: post →
        ∀ c ∈ t.roots (hasAgg (t :: post)), c ∈ finalRequired decls p out) ∧
    SelfSupporting (splitOffBack decls p out).missing (splitOffBack decls p out).kept (finalRequired decls p out) :=
  let h := split_scope decls p out hwf
  ⟨h.1, h.2.1, h.2.2.1, h.2.2.2.1⟩

/-- **missing_provided_by_preceding.** Every column the atomic part needs from outside is defined in the part that
stays in front, which ends with a Select of exactly these columns: the sub-query provides what the outer SELECT reads. -/
theorem missing_provided_by_preceding (decls : List Comp) (p : List Tr) (out : List CId) (hwf : wfPipe p out = true) :
    ∀ c ∈ (splitOffBack decls p out).missing,
      c ∈ defsOf (splitOffBack decls p out).rest ∧ c ∈ finalRequired decls p out :=
  fun c hc => ⟨(split_scope decls p out hwf).2.2.2.2.1 c hc, (split_scope decls p out hwf).2.2.2.2.2 c hc⟩

/-- `anchor_split` puts a new relation instance in front and rewrites the atomic part through the redirect map -/
theorem anchorSplit_shape (next : CId) (cols : List CId) (atomic : List Tr) :
    (anchorSplit next cols atomic).2 =
      .from (anchorSplit next cols atomic).1 ::
        atomic.map (Tr.map (redirect (cols.zip (anchorSplit next cols atomic).1))) := rfl

/-- **anchored_block_closed.** After `anchor_split` the atomic pipeline is closed on its own: every column in the
(redirected) requirement set is a column of one of ITS relation instances - the new instance standing for the
preceding sub-query included - or one of ITS computes whose reads are in the set again. No reference is left to a
column that only exists inside the sub-query. Holds for any `next`, i.e. however the fresh ids are numbered. -/
theorem anchored_block_closed (decls : List Comp) (p : List Tr) (out : List CId) (next : CId)
    (hwf : wfPipe p out = true) :
    SelfSupporting []
      (anchorSplit next (splitOffBack decls p out).missing (splitOffBack decls p out).atomic).2
      ((finalRequired decls p out).map
        (redirect ((splitOffBack decls p out).missing.zip
          (anchorSplit next (splitOffBack decls p out).missing (splitOffBack decls p out).atomic).1))) := by
  rw [anchorSplit_shape]
  apply selfSupporting_anchor
  · simp [anchorSplit]
  · exact SelfSupporting.cons _ (split_scope decls p out hwf).2.2.2.1

/-- the redirect renames the roots of every transform along with it, so the redirected requirement set still
contains what the redirected transforms read -/
theorem redirected_roots (f : CId → CId) (t : Tr) (agg : Bool) (R : List CId)
    (h : ∀ c ∈ t.roots agg, c ∈ R) : ∀ c ∈ (t.map f).roots agg, c ∈ R.map f := by
  intro c hc
  rw [roots_map] at hc
  obtain ⟨d, hd, rfl⟩ := List.mem_map.1 hc
  exact List.mem_map.2 ⟨d, h d hd, rfl⟩

/-- **preceding_is_wellformed.** What stays in front, closed by the Select of the missing columns, is again a
well-formed input of `extract_atomic` with the missing columns as its output. The compiler calls `extract_atomic` on
exactly this pipeline when it compiles the sub-query, so the scope theorems apply at every level of the recursion, for
any number of nested sub-queries / CTEs. -/
theorem preceding_is_wellformed (decls : List Comp) (p : List Tr) (out : List CId) (hwf : wfPipe p out = true) :
    wfPipe ((splitOffBack decls p out).rest ++ [.select (splitOffBack decls p out).missing])
      (splitOffBack decls p out).missing = true := preceding_wf decls p out hwf

/-- the executable summary used as a monitor on the real pipelines agrees with the theorem -/
theorem split_closed_monitor (decls : List Comp) (p : List Tr) (out : List CId) (hwf : wfPipe p out = true) :
    splitClosedB decls p out = true := splitClosedB_of_wf decls p out hwf

/-- non-vacuity: `from t | derive x = a + 1 | filter x > 1 | sort b | take 3 | derive r = row_number | filter r > 1`
(column ids 0,1,2 = a,b,g; 4 = x; 5 = r windowed over the sort column): well-formed, the scan cuts in front of the windowed
compute, the preceding part has to provide `g, x, r`-inputs and the split is closed -/
def exPipe : List Tr :=
  [.from [0, 1, 2],
   .compute { id := 4, expr := .op (.cons (.col 0) (.cons .leaf .nil)), win := none, isAgg := false },
   .filter (.op (.cons (.col 4) (.cons .leaf .nil))),
   .take (.op (.cons .leaf .nil)) [] [1],
   .compute { id := 5, expr := .op (.cons .leaf .nil), win := some [1], isAgg := false },
   .filter (.op (.cons (.col 5) (.cons .leaf .nil))),
   .select [2, 4, 5]]

example : wfPipe exPipe [2, 4, 5] = true ∧
    (splitOffBack [] exPipe [2, 4, 5]).rest.length = 5 ∧
    (splitOffBack [] exPipe [2, 4, 5]).missing = [2, 4, 5] ∧
    (splitOffBack [] exPipe [2, 4, 5]).kept = [.filter (.op (.cons (.col 5) (.cons .leaf .nil)))] := by decide

end Scope

/-! ## T1' table references: by name only to what is defined earlier (mirror of `compile_relation_instance`)

`Model.CteOrder` mirrors the decision "reference by name / inline as a sub-query / define as a CTE now" and the order in
which CTEs reach the WITH list; it is tied to the code by replaying the recorded nesting of every compilation
(tools/ctetrace.py). -/
section CteOrder
open Model.CteOrder Lemmas.CteOrder

/-- **table_refs_are_defined_earlier.** For every ranked (acyclic) structure of relation bodies - RQ tables refer to tables
declared before them, and the relations the splitter creates refer to what stood in front of the cut -, any flags
(`prefer_cte`, `allow_ctes`) on the individual references and any nesting depth: whenever a relation is referenced by
name, it is a relation that was defined from the start (a database table) or a CTE that has already been pushed to the
WITH list. The CTE containing the reference is pushed after its body, so the definition stands earlier in the WITH list:
no reference to a relation that is defined later, or only inside another sub-query. -/
theorem table_refs_are_defined_earlier (b : Bodies) (rank rankB : Nat → Nat) (hr : Ranked b rank rankB)
    (extern : List Nat) (fuel : Nat) (main : List Ref) (hmain : ∀ x ∈ main, rankB x.bodyId ≤ rank x.tid) :
    ∀ pre t post, compileMain b fuel extern main = pre ++ Ev.useRef t :: post → t ∈ extern ∨ Ev.ctePush t ∈ pre :=
  refs_defined b rank rankB hr extern fuel main hmain

/-- **no_relation_is_defined_twice.** Whatever the structure (cyclic or not), the flags and the fuel: no relation is pushed
to the WITH list twice - a relation is pushed only by the reference that finds it undefined and marks it defined first, and
nothing is ever unmarked on that path. -/
theorem no_relation_is_defined_twice (b : Bodies) (fuel : Nat) (extern : List Nat) (main : List Ref) :
    (withList (compileMain b fuel extern main)).Nodup := with_list_nodup b fuel extern main

/-- non-vacuity: main reads x (twice) and appends y (a sub-query); x reads the table 0 and z; y reads x. Ranked by
0 < z=3 < x=1.. : rank := fun t => [0, 3, 4, 2].getD t 0 (table 0, x = 1, y = 2, z = 3) -/
def exBodies : Bodies := [(1, [{ tid := 0, preferCte := true, allowCtes := true }, { tid := 3, preferCte := true, allowCtes := true, bodyId := 3 }]),
                          (2, [{ tid := 1, preferCte := true, allowCtes := true, bodyId := 1 }]),
                          (3, [{ tid := 0, preferCte := true, allowCtes := true }])]
def exMain : List Ref := [{ tid := 1, preferCte := true, allowCtes := true, bodyId := 1 },
                          { tid := 2, preferCte := false, allowCtes := true, bodyId := 2 },
                          { tid := 1, preferCte := true, allowCtes := true, bodyId := 1 }]

example : compileMain exBodies 5 [0] exMain =
    [.cteBegin 1, .useRef 0, .cteBegin 3, .useRef 0, .ctePush 3, .useRef 3, .ctePush 1, .useRef 1,
     .subBegin 2, .useRef 1, .subEnd 2, .useRef 1] ∧ withList (compileMain exBodies 5 [0] exMain) = [3, 1] := by decide

example : Ranked exBodies (fun t => [0, 3, 4, 2].getD t 0) (fun bid => [0, 3, 4, 2].getD bid 0) :=
  ranked_of_B _ _ _ (by decide)

end CteOrder

/-! ### set operations match their inputs by position (mirror Model.Positional of sql/pq/positional_mapping.rs; tie: every
recorded call replayed, tools/postrace.py) -/
section Positional
open Model.Positional Lemmas.Positional

/-- the mapping stored for a bottom relation re-projects the columns the top had AT the set operation (`before`) to the
columns the top keeps after the split (`after`): same count, same order - for column lists of any length -/
theorem stored_mapping_reprojects_before_to_after (before after : List CId) (m : List Nat)
    (h : mappingOf before after = some m) :
    apply { store := [], active := some m } before = after := by
  obtain ⟨h1, h2⟩ := mappingOf_spec h
  unfold apply
  simp only
  have : (m.any fun i => decide (before.length ≤ i)) = false := by
    apply List.any_eq_false.mpr
    intro i hi
    have := h2 i hi
    simp; omega
  simp only [this, Bool.false_eq_true, if_false]
  exact h1

example : mappingOf [5, 6, 7, 8] [7, 5] = some [2, 0] ∧ apply { store := [], active := some [2, 0] } [15, 16, 17, 18] = [17, 15] := by
  decide

/-- what re-projection is for: if the bottom relation lists its columns position by position like the top did AT the set
operation (`botOut[j]` under `before[j]`), then after the stored mapping is applied the bottom lists, under every column the top
KEEPS, the column that stood under it before - the two branches of the set operation stay aligned, for lists of any length -/
theorem reprojection_keeps_the_branches_aligned (before after botOut : List CId) (m : List Nat)
    (h : mappingOf before after = some m) (hlen : botOut.length = before.length) :
    (apply { store := [], active := some m } botOut).length = after.length ∧
    ∀ i, i < after.length → ∃ j, j < before.length ∧ before.getD j 0 = after.getD i 0 ∧
      (apply { store := [], active := some m } botOut).getD i 0 = botOut.getD j 0 := by
  obtain ⟨h1, h2⟩ := mappingOf_spec h
  have hvalid : (m.any fun i => decide (botOut.length ≤ i)) = false := by
    apply List.any_eq_false.mpr
    intro i hi
    have := h2 i hi
    simp; omega
  have happly : apply { store := [], active := some m } botOut = m.map fun i => botOut.getD i 0 := by
    unfold apply
    simp only [hvalid, Bool.false_eq_true, if_false]
  have hml : m.length = after.length := by
    have := congrArg List.length h1
    simpa using this
  refine ⟨by rw [happly]; simpa using hml, ?_⟩
  intro i hi
  have him : i < m.length := by omega
  refine ⟨m[i], h2 _ (List.getElem_mem him), ?_, ?_⟩
  · have := congrArg (fun l => l.getD i 0) h1
    simp only [List.getD_eq_getElem?_getD, List.getElem?_map, List.getElem?_eq_getElem him, Option.map_some, Option.getD_some] at this ⊢
    exact this
  · rw [happly]
    simp [List.getD_eq_getElem?_getD, List.getElem?_map, List.getElem?_eq_getElem him]

/-- a mapping is stored only if EVERY column kept after the split was there before it (an incomplete mapping is dropped) -/
theorem incomplete_mapping_is_not_stored (m : Mapper) (before after : List CId) (r : RIId)
    (h : mappingOf before after = none) : computeAndStore m before after r = m := by
  simp [computeAndStore, h]

/-- the first mapping stored for an instance stays -/
theorem stored_mapping_is_not_overwritten (m : Mapper) (before after : List CId) (r : RIId)
    (h : (lookup m.store r).isSome = true) : computeAndStore m before after r = m := by
  unfold computeAndStore
  split <;> simp [h]

/-- compiling a relation instance TAKES its mapping: it becomes the active one, it is gone from the store, the mappings of the
other instances stay -/
theorem activate_takes_the_mapping (m : Mapper) (r : RIId) :
    (activate m r).active = lookup m.store r ∧ lookup (activate m r).store r = none ∧
    ∀ r', r' ≠ r → lookup (activate m r).store r' = lookup m.store r' :=
  ⟨rfl, lookup_filter_self m.store r, fun r' h => lookup_filter_ne m.store r r' h⟩

/-- ... and an instance WITHOUT a stored mapping resets the active mapping: its requested output is left as it is, whatever
was active before (a mapping never leaks into the next relation) -/
theorem activate_without_mapping_resets (m : Mapper) (r : RIId) (h : lookup m.store r = none) (output : List CId) :
    (activate m r).active = none ∧ apply (activate m r) output = output := by
  simp [activate, apply, h]

/-- after the split only SELECTED columns count: every column of a constraint computed under requirements is selected -/
theorem constraints_hold_only_selected_columns (sel : List CId) (p : List Tr) :
    ∀ rc ∈ constraints (some sel) p, ∀ c ∈ rc.2, c ∈ sel :=
  foldl_selected sel p ([], []) (by simp) (by simp)

/-- the helper column of a chained derive is inlined, not selected: it is not a column of the top at the set operation -/
example : constraints (some [1, 4]) [.select [0, 1], .compute 3, .compute 4, .setop 9, .select [1, 4]] = [(9, [1, 4])] ∧
    constraints none [.select [0, 1], .compute 3, .compute 4, .setop 9, .select [1, 4]] = [(9, [0, 1, 3, 4])] := by decide

end Positional

end Props.C07
