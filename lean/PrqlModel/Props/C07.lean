/-
C07  Every accepted program compiles to SQL the selected dialect parses and binds.
Theorems on the dialect-dependent clause rules (over the flags regenerated from dialect.rs).
-/
import PrqlModel.Model.Clause
import PrqlModel.Props.C03
namespace Props.C07
open Model.Clause Model.Take Gen Rel

/-- T2a: FETCH never appears without OFFSET, and never without an ORDER BY (one is supplied when the query has none) -/
theorem fetch_needs_offset_and_order (useFetch : Bool) (r : Range) (ob dist : Bool) :
    (emit useFetch r ob dist).fetch.isSome = true →
      (emit useFetch r ob dist).offset.isSome = true ∧ (ob = true → (emit useFetch r ob dist).orderFill ≠ .none) := by
  obtain ⟨s, e⟩ := r
  cases useFetch <;> cases e <;> cases ob <;> cases dist <;> simp [emit, limitOffsetOf]

/-- T2b: LIMIT and FETCH are never both emitted; dialects without `use_fetch` never see FETCH -/
theorem limit_xor_fetch (useFetch : Bool) (r : Range) (ob dist : Bool) :
    ((emit useFetch r ob dist).limit.isSome = true → (emit useFetch r ob dist).fetch = Option.none) ∧
    (useFetch = false → (emit useFetch r ob dist).fetch = Option.none) := by
  obtain ⟨s, e⟩ := r
  cases useFetch <;> cases e <;> simp [emit, limitOffsetOf]

/-- exactly the dialects with the flag use FETCH (table regenerated from dialect.rs) -/
theorem fetch_dialects : ∀ d : Dialect, d.use_fetch = true ↔ d = .mssql := by
  intro d; cases d <;> decide

/-- T2c: whatever the dialect, the emitted clauses select the rows of the range -/
theorem clauses_select_range (useFetch : Bool) (r : Range) (ob dist : Bool) (l : List α) :
    select (emit useFetch r ob dist) l = takeR r.1 r.2 l := by
  rw [← Props.C03.limit_offset_ok r l]
  obtain ⟨s, e⟩ := r
  by_cases h0 : (s.getD 1) - 1 = 0 <;>
    cases useFetch <;> cases e <;> simp [emit, select, limitOffsetOf, limitOffset, h0]

/-- a run of takes is emitted correctly under every dialect's clause rules -/
theorem takes_emitted_correctly (d : Dialect) (rs : List Range) (ob dist : Bool) (l : List α)
    (h : Props.C03.StartsOk rs) :
    select (emitFor d (rangeOfRanges rs) ob dist) l = Props.C03.takes rs l := by
  rw [emitFor, clauses_select_range, Props.C03.takes_rangeOfRanges rs l h]

end Props.C07
