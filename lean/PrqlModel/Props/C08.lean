import PrqlModel.Model.Lit
namespace Props.C08
theorem stub : True := trivial
end Props.C08
