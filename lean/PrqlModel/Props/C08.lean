/-
C08  Literal values reach the database unchanged and cannot alter the statement.

What is proved (all over `Model/Lex` = verified mirror of the lexer, and `Model/Lit`):
* T1  `prql_string_value`, `prql_escape_hex`, `prql_escape_unicode`, `prql_quote_roundtrip`
* T2  the injection boundary: `sql_quote_roundtrip` – for EVERY string the literal prqlc emits (`sqlQuote` = the value with its
      quotes doubled, printed by sqlparser's `EscapeQuotedString`) is read back by the standard SQL string lexer as exactly the
      value; `sql_quote_eq_doubling` – doubling then that printer = plain doubling; `sql_quote_std_roundtrip`.
      `printer_alone_*`: statements about sqlparser's printer WITHOUT the doubling (not about prqlc): why the doubling is needed.
* T2′ `sql_quote_roundtrip_backslash_counterexample`: for a reader that treats `\` as an escape no quote-doubling printer works.
* T3  `int_roundtrip`, `prql_decimal_value`, `radix_value`; `int_literal_exact_counterexample` (beyond i64 the lexer yields a
      float), `radix_overlong_counterexample` (digit limits split the spelling).
* T4  `fstring_concat`, `fstring_collect`, `fstring_fragment_roundtrip`.
* T5  `relation_literal`.
Floats are outside these theorems (no IEEE model): tied through SQLite by `tools/props/c08.py`.
-/
import PrqlModel.Lemmas.Lit
namespace Props.C08
open Model.Lex Model.Lit Gen.Lex Lemmas.Lit

/-! ## T1  the value of a PRQL string -/

/-- every escape of the documented table (book, reference/syntax/strings.md) decodes to the documented character and consumes
exactly the escape -/
theorem prql_string_value (r : Src) :
    parseEscape ('\\' :: r) = ('\\', r) ∧ parseEscape ('\'' :: r) = ('\'', r) ∧ parseEscape ('"' :: r) = ('"', r) ∧
    parseEscape ('b' :: r) = (Char.ofNat 8, r) ∧ parseEscape ('f' :: r) = (Char.ofNat 12, r) ∧
    parseEscape ('n' :: r) = (Char.ofNat 10, r) ∧ parseEscape ('r' :: r) = (Char.ofNat 13, r) ∧
    parseEscape ('t' :: r) = (Char.ofNat 9, r) := by
  refine ⟨?_, ?_, ?_, ?_, ?_, ?_, ?_, ?_⟩ <;> simp [parseEscape, simpleEscapes, List.lookup]

/-- `\xhh`: the character with hex value `hh` -/
theorem prql_escape_hex (h1 h2 : Char) (r : Src) (v1 : isHexDigit h1 = true) (v2 : isHexDigit h2 = true) :
    parseEscape ('x' :: h1 :: h2 :: r) = (charOfHex [h1, h2], r) := by
  simp [parseEscape, simpleEscapes, List.lookup, takeUpTo, hexEscapeDigits, v1, v2]

/-- `\u{x…}` with 1‥6 hex digits: the character with that hex value (U+FFFD for a surrogate or a value above U+10FFFF) -/
theorem prql_escape_unicode (hex r : Src) (hl : hex.length ≤ 6) (hv : ∀ c ∈ hex, isHexDigit c = true) :
    parseEscape ('u' :: '{' :: (hex ++ '}' :: r)) = (charOfHex hex, r) := by
  have := takeUpTo_stop (p := isHexDigit) '}' (by decide) 6 hex r hl hv
  simp [parseEscape, simpleEscapes, List.lookup, unicodeEscapeMaxHex, this]

example : charOfHex ['1', 'F', '4', '2', '2'] = Char.ofNat 0x1F422 := by decide
example : charOfHex ['4', '8'] = 'H' := by decide

/-- the body of `prqlQuote s` is consumed character by character and yields `s` -/
theorem content_prqlEscape : ∀ (s rest : Src) (fuel : Nat), (prqlEscape s).length < fuel →
    repeatF (contentChar '"' 1 true) fuel (prqlEscape s ++ '"' :: rest) = some (s, '"' :: rest) := by
  intro s
  induction s with
  | nil =>
    intro rest fuel hf
    cases fuel with
    | zero => simp at hf
    | succ n => simp [prqlEscape, repeatF, contentChar, stripQuotes]
  | cons c cs ih =>
    intro rest fuel hf
    cases fuel with
    | zero => simp at hf
    | succ n =>
      by_cases hc : c = '\\' ∨ c = '"'
      · have hlen : (prqlEscape cs).length < n := by
          simp [prqlEscape, hc] at hf; omega
        rcases hc with hc | hc
        · subst hc
          simp [prqlEscape, repeatF, contentChar, stripQuotes, parseEscape, simpleEscapes, List.lookup, ih rest n hlen]
        · subst hc
          simp [prqlEscape, repeatF, contentChar, stripQuotes, parseEscape, simpleEscapes, List.lookup, ih rest n hlen]
      · have hlen : (prqlEscape cs).length < n := by
          simp [prqlEscape, hc] at hf; omega
        have h1 : c ≠ '\\' := fun h => hc (Or.inl h)
        have h2 : c ≠ '"' := fun h => hc (Or.inr h)
        simp [prqlEscape, hc, repeatF, contentChar, stripQuotes, h1, h2, ih rest n hlen]

theorem prqlEscape_head (s : Src) : (prqlEscape s).head? ≠ some '"' := by
  cases s with
  | nil => simp [prqlEscape]
  | cons c cs =>
    by_cases hc : c = '\\' ∨ c = '"'
    · simp [prqlEscape, hc]
    · have h1 : c ≠ '\\' := fun h => hc (Or.inl h)
      have h2 : c ≠ '"' := fun h => hc (Or.inr h)
      simp [prqlEscape, h1, h2]

/-- every string value has a PRQL spelling, and the lexer reads that spelling back as exactly the value, consuming exactly the
spelling (whatever follows, as long as it is not another double quote) -/
theorem prql_quote_roundtrip (s rest : Src) (hrest : rest.head? ≠ some '"') :
    Model.Lex.string (prqlQuote s ++ rest) = some (.string s, rest) := by
  have hq : ∀ (x : Src), x.head? ≠ some '"' → (x.takeWhile (· == '"')) = [] ∧ x.dropWhile (· == '"') = x := by
    intro x hx
    cases x with
    | nil => simp
    | cons d ds =>
      have : d ≠ '"' := by simpa using hx
      simp [List.takeWhile_cons, List.dropWhile_cons, this]
  cases s with
  | nil =>
    obtain ⟨h1, h2⟩ := hq rest hrest
    simp [Model.Lex.string, quotedString, multiQuoted, prqlQuote, prqlEscape, List.takeWhile, List.dropWhile, h1, h2]
  | cons c cs =>
    obtain ⟨h1, h2⟩ := hq (prqlEscape (c :: cs) ++ '"' :: rest) (by
      have := prqlEscape_head (c :: cs)
      cases he : prqlEscape (c :: cs) with
      | nil => simp [prqlEscape] at he; split at he <;> simp at he
      | cons a as => rw [he] at this; simpa using this)
    have hbody := content_prqlEscape (c :: cs) rest ((prqlEscape (c :: cs) ++ '"' :: rest).length + 1) (by simp; omega)
    simp only [Model.Lex.string, quotedString, multiQuoted, prqlQuote, List.cons_append, List.takeWhile, List.dropWhile,
      beq_self_eq_true, h1, h2, List.length_cons, List.length_nil, List.append_assoc]
    simp only [List.length_append, List.length_cons] at hbody
    simp [h1, h2, hbody, stripQuotes]

example : Model.Lex.string (prqlQuote ['\\', '\'', ' ', '"'] ++ [' ', 'x']) = some (.string ['\\', '\'', ' ', '"'], [' ', 'x']) := by
  decide

/-! ## T2  the injection boundary -/

/-- doubling the quotes and then running sqlparser's "may already be escaped" printer is plain quote doubling: the printer
prints an already doubled value verbatim.  (This is the repair of commit 938f352: `translate_literal` doubles first.) -/
theorem sql_quote_eq_doubling (s : Src) : sqlQuote s = sqlQuoteStd s := by
  simp [sqlQuote, sqlQuoteStd, Quote.quote, sqlEscape_esc]

/-- **the injection boundary** (FULL statement, about the emitter prqlc uses): for EVERY value – quotes, backslashes, newlines,
comment markers, non-ASCII – the emitted literal lexes back (standard SQL) to exactly the value and ends exactly where the
emitter ended it, provided the emitter never puts another quote right after it.  Nothing in the value can end the literal
early or extend it. -/
theorem sql_quote_roundtrip (s rest : Src) (hrest : rest.head? ≠ some '\'') :
    sqlLexString (sqlQuote s ++ rest) = some (s, rest) := by
  rw [sql_quote_eq_doubling]
  exact Quote.quote_roundtrip '\'' s rest hrest

example : sqlLexString (sqlQuote ['\\', '\'', ' ', 'O', 'R', ' ', '1', '=', '1', ' ', '-', '-'] ++ [' ', 'x'])
    = some (['\\', '\'', ' ', 'O', 'R', ' ', '1', '=', '1', ' ', '-', '-'], [' ', 'x']) := by decide
example : sqlLexString (sqlQuote ['\'', '\''] ++ [' ', 'x']) = some (['\'', '\''], [' ', 'x']) := by decide

/-- plain quote doubling is a correct printer for every string (the reference emitter) -/
theorem sql_quote_std_roundtrip (s rest : Src) (hrest : rest.head? ≠ some '\'') :
    sqlLexString (sqlQuoteStd s ++ rest) = some (s, rest) :=
  Quote.quote_roundtrip '\'' s rest hrest

/-! ### why the doubling is needed: sqlparser's printer ALONE (`sqlQuoteRaw`)

The next four statements are about sqlparser's `EscapeQuotedString` applied to an un-doubled value.  They are NOT claims about
what prqlc emits (that is `sql_quote_roundtrip` above); they record why `translate_literal` must double first, and they are
re-checked against the printer mirror, which `tools/props/c08.py` ties to the code through the emitted texts. -/

/-- the printer alone does not round-trip: the two-character value `\'` is printed as `'\''`, whose first three characters are
a complete literal -/
theorem printer_alone_counterexample :
    ¬ ∀ s rest : Src, rest.head? ≠ some '\'' → sqlLexString (sqlQuoteRaw s ++ rest) = some (s, rest) := by
  intro h
  have := h ['\\', '\''] [' ', 'x'] (by decide)
  revert this
  decide

/-- with the printer alone the tail of such a value becomes SQL -/
theorem printer_alone_injection_witness (rest : Src) :
    sqlLexString (sqlQuoteRaw ['\\', '\'', ' ', 'O', 'R', ' ', '1', '=', '1', ' ', '-', '-'] ++ rest)
      = some (['\\'], [' ', 'O', 'R', ' ', '1', '=', '1', ' ', '-', '-', '\''] ++ rest) := by
  simp [sqlLexString, sqlQuoteRaw, sqlEscape, Quote.lexQuoted, Quote.lexBody, Quote.push]

/-- the values the printer's heuristic leaves alone: no quote directly after a backslash and no two adjacent quotes -/
def Plain (s : Src) : Prop := Clean '\'' (Char.ofNat 0) s

instance (s : Src) : Decidable (Plain s) := by unfold Plain; exact inferInstance

/-- on plain values the printer alone already is quote doubling, so the doubling changed no text that was right before -/
theorem printer_alone_plain (s : Src) (hs : Plain s) : sqlQuoteRaw s = sqlQuote s := by
  simp [sqlQuoteRaw, sqlQuote, sqlEscape_esc, sqlEscape_clean '\'' _ s hs]

example : Plain ['i', 't', '\'', 's', ' ', '-', '-', ' ', '\\', 'n', ';', '/', '*'] := by decide
example : ¬ Plain ['\\', '\''] := by decide
example : ¬ Plain ['\'', '\''] := by decide

/-! ### T2′ readers that treat `\` as an escape -/

/-- for a reader in which `\` escapes the next character (MySQL, BigQuery, ClickHouse, Snowflake, Redshift) quote doubling is
not enough: the one-character value `\` swallows the closing quote – for the emitter in use and for the reference emitter, with
and without MySQL's `\%` `\_` exemption.  (Open finding `backslash-in-string-on-backslash-escaping-dialect`.) -/
theorem sql_quote_roundtrip_backslash_counterexample :
    (¬ ∀ s rest : Src, rest.head? ≠ some '\'' → sqlLexStringBs false (sqlQuote s ++ rest) = some (s, rest)) ∧
    (¬ ∀ s rest : Src, rest.head? ≠ some '\'' → sqlLexStringBs true (sqlQuote s ++ rest) = some (s, rest)) ∧
    (¬ ∀ s rest : Src, rest.head? ≠ some '\'' → sqlLexStringBs false (sqlQuoteStd s ++ rest) = some (s, rest)) := by
  refine ⟨?_, ?_, ?_⟩ <;> intro h <;> have := h ['\\'] [' ', 'x'] (by decide) <;> revert this <;> decide

/-- under such a reader a backslash also changes values that keep the statement intact: `a\nb` comes back with a line feed -/
theorem backslash_value_change_witness :
    sqlLexStringBs false (sqlQuote ['a', '\\', 'n', 'b'] ++ [' ']) = some (['a', '\n', 'b'], [' ']) := by decide

/-! ## T3  integers -/

/-- decimal printing and reading of every integer (in particular every i64) round-trips -/
theorem int_roundtrip (i : Int) : sqlParseInt (printInt i) = some i := by
  have hall : ∀ n : Nat, (Nat.toDigits 10 n).all isDigit = true := by
    intro n; simpa [List.all_eq_true] using toDigits_all_digits n
  have hne : ∀ n : Nat, Nat.toDigits 10 n ≠ [] := fun _ => Nat.toDigits_ne_nil
  cases i with
  | ofNat n =>
    simp only [printInt, printNat]
    unfold sqlParseInt
    split
    · next ds heq =>
      have := toDigits_all_digits n '-' (by rw [heq]; simp)
      exact absurd this (by decide)
    · simp [hall, hne, natOfDigits_toDigits]
  | negSucc n =>
    simp [printInt, printNat, sqlParseInt, hall, hne, natOfDigits_toDigits, Int.negSucc_eq]

example : sqlParseInt (printInt (-9223372036854775808)) = some (-9223372036854775808) := int_roundtrip _

/-- a decimal spelling without leading zero denotes its positional value: an integer when it fits i64, otherwise the lexer
falls back to a float carrying the digits -/
theorem decimal_literal (ds : Src) (h : Decimal ds) :
    litOfSlice ds = some (if natOfDigits 10 ds ≤ i64Max then .integer (natOfDigits 10 ds) else .float ds) := by
  obtain ⟨hne, hd, hlead⟩ := h
  cases ds with
  | nil => exact absurd rfl hne
  | cons c cs =>
    have hc := isDigit_facts (hd c (by simp))
    have hcs : ∀ d ∈ cs, isDigitOrUnderscore d = true := fun d hdm => (isDigit_facts (hd d (by simp [hdm]))).2.2.2.2.2.2.2
    have hnu : ∀ d ∈ c :: cs, (d != '_') = true := by
      intro d hdm; have := (isDigit_facts (hd d hdm)).1; simpa using this
    have hcd : isDigit c = true := hd c (by simp)
    have hsecond : ∀ x : Char, cs.head? = some x → x ≠ 'b' ∧ x ≠ 'x' ∧ x ≠ 'o' := by
      intro x hx
      cases cs with
      | nil => simp at hx
      | cons d ds' =>
        simp at hx; subst hx
        have := isDigit_facts (hd d (by simp))
        exact ⟨this.2.2.2.2.1, this.2.2.2.2.2.1, this.2.2.2.2.2.2.1⟩
    by_cases hz : c = '0'
    · subst hz
      have : cs = [] := by simpa using hlead rfl
      subst this
      decide
    · have hrad : ∀ (p : Char) (b m : Nat) (v : Char → Bool), radixNumber ['0', p] b m v (c :: cs) = none := by
        intro p b m v
        have hz' : ¬ '0' = c := fun h => hz h.symm
        simp [radixNumber, stripPrefix, hz']
      simp only [litOfSlice, literal, orElse, binPrefix, hexPrefix, octPrefix, hrad]
      have hstr : Model.Lex.string (c :: cs) = none := by
        simp [Model.Lex.string, quotedString, multiQuoted, List.takeWhile_cons, hc.2.1, hc.2.2.1]
      have hraw : rawString (c :: cs) = none := by
        unfold rawString
        split
        · next q r heq => simp at heq; exact absurd heq.1 hc.2.2.2.1
        · rfl
      have hpi : parseInteger (c :: cs) = some (c :: cs, []) := by
        simp [parseInteger, hcd, hz, takeWhile_all hcs, dropWhile_all hcs]
      have hvu : valueAndUnit (c :: cs) = none := by
        simp [valueAndUnit, hpi, firstPrefix, timeUnits, stripPrefix]
      have hnum : number (c :: cs) = some (if natOfDigits 10 (c :: cs) ≤ i64Max then .integer (natOfDigits 10 (c :: cs)) else .float (c :: cs), []) := by
        simp only [number, hpi, fraction, exponent, List.append_nil, removeUnderscores, filter_all hnu]
        split <;> simp_all
      simp [hstr, hraw, hvu, hnum]

/-- the decimal spelling of every `n` in i64 range is one literal with value `n` -/
theorem prql_decimal_value (n : Nat) (h : n ≤ i64Max) : litOfSlice (printNat n) = some (.integer n) := by
  have := decimal_literal (Nat.toDigits 10 n) (decimal_toDigits n)
  simpa [printNat, natOfDigits_toDigits, h] using this

/-- FULL statement: every decimal integer spelling denotes that integer -/
def int_literal_exact : Prop := ∀ n : Nat, litOfSlice (printNat n) = some (.integer n)

/-- false beyond i64: `9223372036854775808` is read as a float (and `99999999999999999999` then reaches SQL as `1e20`) -/
theorem int_literal_exact_counterexample : ¬ int_literal_exact := by
  intro h
  have h1 := h 9223372036854775808
  have h2 := decimal_literal (Nat.toDigits 10 9223372036854775808) (decimal_toDigits _)
  simp only [printNat] at h1
  rw [h1, natOfDigits_toDigits] at h2
  revert h2
  simp [i64Max]

/-- `natOfDigits` is the positional value -/
theorem natOfDigits_snoc (b : Nat) (ds : Src) (c : Char) : natOfDigits b (ds ++ [c]) = natOfDigits b ds * b + digitVal c := by
  simp [natOfDigits, List.foldl_append]

theorem radixNumber_value (p : Char) (base max : Nat) (valid : Char → Bool) (ds : Src) (hne : ds ≠ []) (hl : ds.length ≤ max)
    (hv : ∀ c ∈ ds, valid c = true) (hu : valid '_' = false) :
    radixNumber ['0', p] base max valid ('0' :: p :: ds) = some (.integer (natOfDigits base ds), []) := by
  have hdu : dropUnderscore ds = ds := by
    cases ds with
    | nil => rfl
    | cons d ds' =>
      have : d ≠ '_' := by intro he; subst he; have := hv '_' (by simp); simp [hu] at this
      unfold dropUnderscore
      split
      · next heq => simp at heq; exact absurd heq.1 this
      · rfl
  simp [radixNumber, stripPrefix, hdu, takeUpTo_all max ds hl hv, hne]

/-- hexadecimal (≤ 12 digits), octal (≤ 12) and binary (≤ 32) spellings are one literal whose value is the positional value of
the digits -/
theorem radix_value (ds : Src) (hne : ds ≠ []) :
    (ds.length ≤ 12 → (∀ c ∈ ds, isHexDigit c = true) → litOfSlice ('0' :: 'x' :: ds) = some (.integer (natOfDigits 16 ds))) ∧
    (ds.length ≤ 12 → (∀ c ∈ ds, isOctDigit c = true) → litOfSlice ('0' :: 'o' :: ds) = some (.integer (natOfDigits 8 ds))) ∧
    (ds.length ≤ 32 → (∀ c ∈ ds, isBinDigit c = true) → litOfSlice ('0' :: 'b' :: ds) = some (.integer (natOfDigits 2 ds))) := by
  refine ⟨?_, ?_, ?_⟩
  · intro hl hv
    have hx : radixNumber hexPrefix 16 hexMaxDigits isHexDigit ('0' :: 'x' :: ds) = some (.integer (natOfDigits 16 ds), []) :=
      radixNumber_value 'x' 16 12 isHexDigit ds hne hl hv (by decide)
    have hb : radixNumber binPrefix 2 binMaxDigits isBinDigit ('0' :: 'x' :: ds) = none := by
      simp [radixNumber, binPrefix, stripPrefix]
    simp [litOfSlice, literal, orElse, hb, hx]
  · intro hl hv
    have ho : radixNumber octPrefix 8 octMaxDigits isOctDigit ('0' :: 'o' :: ds) = some (.integer (natOfDigits 8 ds), []) :=
      radixNumber_value 'o' 8 12 isOctDigit ds hne hl hv (by decide)
    have hb : radixNumber binPrefix 2 binMaxDigits isBinDigit ('0' :: 'o' :: ds) = none := by
      simp [radixNumber, binPrefix, stripPrefix]
    have hx : radixNumber hexPrefix 16 hexMaxDigits isHexDigit ('0' :: 'o' :: ds) = none := by
      simp [radixNumber, hexPrefix, stripPrefix]
    simp [litOfSlice, literal, orElse, hb, hx, ho]
  · intro hl hv
    have hb : radixNumber binPrefix 2 binMaxDigits isBinDigit ('0' :: 'b' :: ds) = some (.integer (natOfDigits 2 ds), []) :=
      radixNumber_value 'b' 2 32 isBinDigit ds hne hl hv (by decide)
    simp [litOfSlice, literal, orElse, hb]

example : litOfSlice ['0', 'x', 'f', 'F'] = some (.integer 255) := by decide
example : litOfSlice ['0', 'b', '1', '0', '1'] = some (.integer 5) := by decide

/-- beyond the digit limit the spelling is not one literal any more (the lexer splits it; the parser then rejects the program) -/
theorem radix_overlong_counterexample :
    litOfSlice ('0' :: 'x' :: List.replicate 13 'f') = none ∧ litOfSlice ('0' :: 'o' :: List.replicate 13 '7') = none ∧
    litOfSlice ('0' :: 'b' :: List.replicate 33 '1') = none := by decide

/-! ## T4  f-strings -/

theorem evalF_foldl (env : List Src → Src) (is : List FItem) (a : FExpr) :
    evalF env (is.foldl (fun acc j => .concat acc (lowerItem j)) a) = evalF env a ++ (is.map (evalItem env)).flatten := by
  induction is generalizing a with
  | nil => simp
  | cons i is ih =>
    simp only [List.foldl_cons, ih, evalF, List.map_cons, List.flatten_cons, List.append_assoc]
    cases i <;> simp [lowerItem, evalF, evalItem]

/-- an f-string denotes the concatenation of its parts, in order -/
theorem fstring_concat (env : List Src → Src) (items : List FItem) :
    evalF env (lowerF items) = (items.map (evalItem env)).flatten := by
  cases items with
  | nil => simp [lowerF, evalF]
  | cons i is =>
    simp only [lowerF, evalF_foldl, List.map_cons, List.flatten_cons]
    cases i <;> simp [lowerItem, evalF, evalItem]

theorem collect_foldl (is : List FItem) (a : FExpr) :
    collectConcat (is.foldl (fun acc j => .concat acc (lowerItem j)) a) = collectConcat a ++ is.map lowerItem := by
  induction is generalizing a with
  | nil => simp
  | cons i is ih =>
    simp only [List.foldl_cons, ih, collectConcat, List.map_cons, List.append_assoc]
    cases i <;> simp [lowerItem, collectConcat]

/-- the SQL generator's flattening (`collect_concat_args`) recovers the parts in order: `CONCAT(p1, …, pn)` / `p1 || … || pn` -/
theorem fstring_collect (items : List FItem) (h : items ≠ []) : collectConcat (lowerF items) = items.map lowerItem := by
  cases items with
  | nil => exact absurd rfl h
  | cons i is =>
    simp only [lowerF, collect_foldl, List.map_cons]
    cases i <;> simp [lowerItem, collectConcat]

theorem interpStrChars_braceEscape (s : Src) : interpStrChars (braceEscape s) = (s, []) := by
  induction s with
  | nil => simp [braceEscape, interpStrChars]
  | cons c cs ih =>
    by_cases h1 : c = '{'
    · subst h1; simp [braceEscape, interpStrChars, ih]
    · by_cases h2 : c = '}'
      · subst h2; simp [braceEscape, interpStrChars, ih]
      · have hc : ¬ (c = '{' ∨ c = '}') := by simp [h1, h2]
        simp only [braceEscape, hc, if_false]
        unfold interpStrChars
        split
        · next heq => simp at heq; exact absurd heq.1 h1
        · next heq => simp at heq; exact absurd heq.1 h2
        · next c' r' heq =>
          simp at heq; obtain ⟨rfl, rfl⟩ := heq
          simp [hc, ih]
        · next heq => simp at heq

theorem interpExpr_braceEscape (s : Src) : interpExpr (braceEscape s) = none := by
  cases s with
  | nil => simp [braceEscape, interpExpr]
  | cons c cs =>
    by_cases h1 : c = '{'
    · subst h1
      have hs : isIdentStart '{' = false := by decide
      simp [braceEscape, interpExpr, interpPath, interpPart, interpPlain, interpBackticks, hs]
    · by_cases h2 : c = '}'
      · subst h2; simp [braceEscape, interpExpr]
      · have hc : ¬ (c = '{' ∨ c = '}') := by simp [h1, h2]
        simp only [braceEscape, hc, if_false]
        unfold interpExpr
        split
        · next heq => simp at heq; exact absurd heq.1 h1
        · rfl

/-- a text fragment written with doubled braces is read back as exactly one string item with the fragment as value -/
theorem fstring_fragment_roundtrip (s : Src) (h : s ≠ []) : fstrItems (braceEscape s) = some [.str s] := by
  cases s with
  | nil => exact absurd rfl h
  | cons c cs =>
    have hne : braceEscape (c :: cs) ≠ [] := by
      simp only [braceEscape]; split <;> simp
    have h1 := interpExpr_braceEscape (c :: cs)
    have h2 := interpStrChars_braceEscape (c :: cs)
    unfold fstrItems
    cases hb : braceEscape (c :: cs) with
    | nil => exact absurd hb hne
    | cons d ds =>
      rw [hb] at h1 h2
      simp [fstrItemsF, h1, h2]

example : fstrItems ['a', '{', '{', '}', '}', '{', 'c', '.', 'd', '}', ';'] = some [.str ['a', '{', '}'], .expr [['c'], ['d']] none, .str [';']] := by
  decide

/-! ## T5  relation literals -/

/-- the rows of a relation literal evaluate to the literal's rows in order, under the literal's column names; the empty
literal has no rows -/
theorem relation_literal (cols : List Src) (rows : List (List Lit)) (h : ∀ r ∈ rows, r.length = cols.length) :
    evalUnionAll (relLitSelects cols rows) = rows ∧
    (∀ s ∈ relLitSelects cols rows, s.map (·.1) = cols) ∧
    evalUnionAll (relLitSelects cols []) = [] := by
  refine ⟨?_, ?_, rfl⟩
  · induction rows with
    | nil => rfl
    | cons r rs ih =>
      have hr := h r (by simp)
      have := ih (fun x hx => h x (by simp [hx]))
      simp only [relLitSelects, evalUnionAll, List.map_cons, List.map_map] at this ⊢
      rw [this]
      congr 1
      exact List.map_snd_zip (by omega)
  · intro s hs
    simp only [relLitSelects, List.mem_map] at hs
    obtain ⟨r, hr, rfl⟩ := hs
    exact List.map_fst_zip (by have := h r hr; omega)

example : evalUnionAll (relLitSelects [['v']] [[.string ['x']], [.null]]) = [[.string ['x']], [.null]] := by decide

/-! ### the time-zone suffix of temporal literals on SQLite (mirror Model.Lit.sqliteTz, hook correspondence on all short strings) -/
section SqliteTz
open Model.Lit

/-- the only thing the rewrite ever does is to put a colon into a final `[+-]dddd`: the value of a temporal literal reaches SQLite
unchanged up to that spelling, and every other text - in particular every text shorter than five characters, such as the hour-only
time `16` - is left exactly as it is (the function is total: no text makes it fail) -/
theorem sqlite_tz_only_inserts_a_colon (s : Src) :
    sqliteTz s = s ∨ ∃ pre sg a b c d, s = pre ++ [sg, a, b, c, d] ∧ sqliteTz s = pre ++ [sg, a, b, ':', c, d] ∧
      isSign sg = true ∧ isAsciiDigit a = true ∧ isAsciiDigit b = true ∧ isAsciiDigit c = true ∧ isAsciiDigit d = true := by
  unfold sqliteTz
  split
  · rename_i d c b a sg rest hrev
    split
    · rename_i hc
      right
      simp only [Bool.and_eq_true] at hc
      refine ⟨rest.reverse, sg, a, b, c, d, ?_, rfl, hc.1.1.1.1, hc.1.1.1.2, hc.1.1.2, hc.1.2, hc.2⟩
      have := congrArg List.reverse hrev
      simpa using this
    · exact .inl rfl
  · exact .inl rfl

theorem sqlite_tz_short (s : Src) (h : s.length < 5) : sqliteTz s = s := by
  rcases sqlite_tz_only_inserts_a_colon s with h1 | ⟨pre, sg, a, b, c, d, hs, _⟩
  · exact h1
  · rw [hs] at h; simp at h; omega

/-- applying the rewrite twice changes nothing more (the inserted colon is not a digit) -/
theorem sqlite_tz_idempotent (s : Src) : sqliteTz (sqliteTz s) = sqliteTz s := by
  rcases sqlite_tz_only_inserts_a_colon s with h1 | ⟨pre, sg, a, b, c, d, hs, ht, _⟩
  · rw [h1, h1]
  · rw [ht]
    unfold sqliteTz
    simp [isAsciiDigit]

example : sqliteTz "08:30:00+0100".toList = "08:30:00+01:00".toList ∧ sqliteTz "16".toList = "16".toList ∧
    sqliteTz "08:30:00+01:00".toList = "08:30:00+01:00".toList := by decide

end SqliteTz

end Props.C08
