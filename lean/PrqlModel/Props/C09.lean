/-
C09  Identifiers are referenced verbatim; generated names never capture user names.

* T1  `bare_is_regex_and_not_keyword`, `bare_never_sqlite_reserved`; `emit_ident_eq_doubling` (the quote character is doubled by
      `translate_ident_part` and sqlparser's printer prints the doubled value verbatim: a quoted identifier is plain doubling);
      the round trip of an emitted identifier through the SQL identifier reader, `ident_roundtrip_partial`, holds for every
      dialect and every name except a bare name with a leading `$`; that exception makes the FULL statement
      `ident_roundtrip_full` false (`ident_roundtrip_dollar_counterexample`, open finding).  `ident_roundtrip_std`: reference emitter.
* T2  `assign_names_fresh` (all assigned names pairwise distinct and distinct from the names present before),
      `assign_names_keeps_leading` (named declarations that come first keep their names), `idgen_load_fresh` (T2a: ids generated
      after loading are above all loaded ids – so CTEs created by a split come last), and
      `assign_names_keeps_user_counterexample`: a NAMED declaration that follows an anonymous one in id order is renamed –
      reachable: an extern table `table_0` referenced after a `let` whose body holds a relation literal.
* T3  `split_names_unique_partial` / `split_names_unique_counterexample`: the renaming loop of anchor_split yields pairwise
      distinct column names provided no incoming column is called like a name the generator has yet to produce; a user column
      `_expr_0` next to a duplicate breaks it (the regenerated name is not re-checked).
-/
import PrqlModel.Lemmas.Names
namespace Props.C09
open Model.Names Gen Lemmas.Lit Lemmas.Names

/-! ## T1  identifiers -/

/-- an identifier is emitted bare only if the dialect quotes conditionally, the regex matches and it is no keyword -/
theorem bare_is_regex_and_not_keyword (d : Dialect) (s : Src) (h : identPart d s = (s, none)) :
    d.always_quoted = false ∧ Gen.Ident.validIdent s = true ∧ isKeyword d s = false := by
  unfold identPart at h
  split at h
  · next hb =>
    have : (d.always_quoted = false ∧ Gen.Ident.validIdent s = true) ∧ isKeyword d s = false := by simpa [identBare] using hb
    exact ⟨this.1.1, this.1.2, this.2⟩
  · simp at h

/-- the words SQLite reserves (https://sqlite.org/lang_keywords.html, all 147), trusted -/
def sqliteReserved : List (List Char) :=
  [['A', 'B', 'O', 'R', 'T'], ['A', 'C', 'T', 'I', 'O', 'N'], ['A', 'D', 'D'], ['A', 'F', 'T', 'E', 'R'], ['A', 'L', 'L'], ['A', 'L', 'T', 'E', 'R'],
  ['A', 'L', 'W', 'A', 'Y', 'S'], ['A', 'N', 'A', 'L', 'Y', 'Z', 'E'], ['A', 'N', 'D'], ['A', 'S'], ['A', 'S', 'C'], ['A', 'T', 'T', 'A', 'C', 'H'],
  ['A', 'U', 'T', 'O', 'I', 'N', 'C', 'R', 'E', 'M', 'E', 'N', 'T'], ['B', 'E', 'F', 'O', 'R', 'E'], ['B', 'E', 'G', 'I', 'N'], ['B', 'E', 'T', 'W', 'E', 'E', 'N'], ['B', 'Y'], ['C', 'A', 'S', 'C', 'A', 'D', 'E'],
  ['C', 'A', 'S', 'E'], ['C', 'A', 'S', 'T'], ['C', 'H', 'E', 'C', 'K'], ['C', 'O', 'L', 'L', 'A', 'T', 'E'], ['C', 'O', 'L', 'U', 'M', 'N'], ['C', 'O', 'M', 'M', 'I', 'T'],
  ['C', 'O', 'N', 'F', 'L', 'I', 'C', 'T'], ['C', 'O', 'N', 'S', 'T', 'R', 'A', 'I', 'N', 'T'], ['C', 'R', 'E', 'A', 'T', 'E'], ['C', 'R', 'O', 'S', 'S'], ['C', 'U', 'R', 'R', 'E', 'N', 'T'], ['C', 'U', 'R', 'R', 'E', 'N', 'T', '_', 'D', 'A', 'T', 'E'],
  ['C', 'U', 'R', 'R', 'E', 'N', 'T', '_', 'T', 'I', 'M', 'E'], ['C', 'U', 'R', 'R', 'E', 'N', 'T', '_', 'T', 'I', 'M', 'E', 'S', 'T', 'A', 'M', 'P'], ['D', 'A', 'T', 'A', 'B', 'A', 'S', 'E'], ['D', 'E', 'F', 'A', 'U', 'L', 'T'], ['D', 'E', 'F', 'E', 'R', 'R', 'A', 'B', 'L', 'E'], ['D', 'E', 'F', 'E', 'R', 'R', 'E', 'D'],
  ['D', 'E', 'L', 'E', 'T', 'E'], ['D', 'E', 'S', 'C'], ['D', 'E', 'T', 'A', 'C', 'H'], ['D', 'I', 'S', 'T', 'I', 'N', 'C', 'T'], ['D', 'O'], ['D', 'R', 'O', 'P'],
  ['E', 'A', 'C', 'H'], ['E', 'L', 'S', 'E'], ['E', 'N', 'D'], ['E', 'S', 'C', 'A', 'P', 'E'], ['E', 'X', 'C', 'E', 'P', 'T'], ['E', 'X', 'C', 'L', 'U', 'D', 'E'],
  ['E', 'X', 'C', 'L', 'U', 'S', 'I', 'V', 'E'], ['E', 'X', 'I', 'S', 'T', 'S'], ['E', 'X', 'P', 'L', 'A', 'I', 'N'], ['F', 'A', 'I', 'L'], ['F', 'I', 'L', 'T', 'E', 'R'], ['F', 'I', 'R', 'S', 'T'],
  ['F', 'O', 'L', 'L', 'O', 'W', 'I', 'N', 'G'], ['F', 'O', 'R'], ['F', 'O', 'R', 'E', 'I', 'G', 'N'], ['F', 'R', 'O', 'M'], ['F', 'U', 'L', 'L'], ['G', 'E', 'N', 'E', 'R', 'A', 'T', 'E', 'D'],
  ['G', 'L', 'O', 'B'], ['G', 'R', 'O', 'U', 'P'], ['G', 'R', 'O', 'U', 'P', 'S'], ['H', 'A', 'V', 'I', 'N', 'G'], ['I', 'F'], ['I', 'G', 'N', 'O', 'R', 'E'],
  ['I', 'M', 'M', 'E', 'D', 'I', 'A', 'T', 'E'], ['I', 'N'], ['I', 'N', 'D', 'E', 'X'], ['I', 'N', 'D', 'E', 'X', 'E', 'D'], ['I', 'N', 'I', 'T', 'I', 'A', 'L', 'L', 'Y'], ['I', 'N', 'N', 'E', 'R'],
  ['I', 'N', 'S', 'E', 'R', 'T'], ['I', 'N', 'S', 'T', 'E', 'A', 'D'], ['I', 'N', 'T', 'E', 'R', 'S', 'E', 'C', 'T'], ['I', 'N', 'T', 'O'], ['I', 'S'], ['I', 'S', 'N', 'U', 'L', 'L'],
  ['J', 'O', 'I', 'N'], ['K', 'E', 'Y'], ['L', 'A', 'S', 'T'], ['L', 'E', 'F', 'T'], ['L', 'I', 'K', 'E'], ['L', 'I', 'M', 'I', 'T'],
  ['M', 'A', 'T', 'C', 'H'], ['M', 'A', 'T', 'E', 'R', 'I', 'A', 'L', 'I', 'Z', 'E', 'D'], ['N', 'A', 'T', 'U', 'R', 'A', 'L'], ['N', 'O'], ['N', 'O', 'T'], ['N', 'O', 'T', 'H', 'I', 'N', 'G'],
  ['N', 'O', 'T', 'N', 'U', 'L', 'L'], ['N', 'U', 'L', 'L'], ['N', 'U', 'L', 'L', 'S'], ['O', 'F'], ['O', 'F', 'F', 'S', 'E', 'T'], ['O', 'N'],
  ['O', 'R'], ['O', 'R', 'D', 'E', 'R'], ['O', 'T', 'H', 'E', 'R', 'S'], ['O', 'U', 'T', 'E', 'R'], ['O', 'V', 'E', 'R'], ['P', 'A', 'R', 'T', 'I', 'T', 'I', 'O', 'N'],
  ['P', 'L', 'A', 'N'], ['P', 'R', 'A', 'G', 'M', 'A'], ['P', 'R', 'E', 'C', 'E', 'D', 'I', 'N', 'G'], ['P', 'R', 'I', 'M', 'A', 'R', 'Y'], ['Q', 'U', 'E', 'R', 'Y'], ['R', 'A', 'I', 'S', 'E'],
  ['R', 'A', 'N', 'G', 'E'], ['R', 'E', 'C', 'U', 'R', 'S', 'I', 'V', 'E'], ['R', 'E', 'F', 'E', 'R', 'E', 'N', 'C', 'E', 'S'], ['R', 'E', 'G', 'E', 'X', 'P'], ['R', 'E', 'I', 'N', 'D', 'E', 'X'], ['R', 'E', 'L', 'E', 'A', 'S', 'E'],
  ['R', 'E', 'N', 'A', 'M', 'E'], ['R', 'E', 'P', 'L', 'A', 'C', 'E'], ['R', 'E', 'S', 'T', 'R', 'I', 'C', 'T'], ['R', 'E', 'T', 'U', 'R', 'N', 'I', 'N', 'G'], ['R', 'I', 'G', 'H', 'T'], ['R', 'O', 'L', 'L', 'B', 'A', 'C', 'K'],
  ['R', 'O', 'W'], ['R', 'O', 'W', 'S'], ['S', 'A', 'V', 'E', 'P', 'O', 'I', 'N', 'T'], ['S', 'E', 'L', 'E', 'C', 'T'], ['S', 'E', 'T'], ['T', 'A', 'B', 'L', 'E'],
  ['T', 'E', 'M', 'P'], ['T', 'E', 'M', 'P', 'O', 'R', 'A', 'R', 'Y'], ['T', 'H', 'E', 'N'], ['T', 'I', 'E', 'S'], ['T', 'O'], ['T', 'R', 'A', 'N', 'S', 'A', 'C', 'T', 'I', 'O', 'N'],
  ['T', 'R', 'I', 'G', 'G', 'E', 'R'], ['U', 'N', 'B', 'O', 'U', 'N', 'D', 'E', 'D'], ['U', 'N', 'I', 'O', 'N'], ['U', 'N', 'I', 'Q', 'U', 'E'], ['U', 'P', 'D', 'A', 'T', 'E'], ['U', 'S', 'I', 'N', 'G'],
  ['V', 'A', 'C', 'U', 'U', 'M'], ['V', 'A', 'L', 'U', 'E', 'S'], ['V', 'I', 'E', 'W'], ['V', 'I', 'R', 'T', 'U', 'A', 'L'], ['W', 'H', 'E', 'N'], ['W', 'H', 'E', 'R', 'E'],
  ['W', 'I', 'N', 'D', 'O', 'W'], ['W', 'I', 'T', 'H'], ['W', 'I', 'T', 'H', 'O', 'U', 'T']]

/-- every SQLite reserved word is in the keyword set used for every dialect … -/
theorem sqlite_reserved_are_keywords : ∀ k ∈ sqliteReserved, Gen.Keywords.sqlKeywords.contains k = true := by decide +kernel

/-- … hence a bare identifier is never a reserved word of SQLite, in any letter case -/
theorem bare_never_sqlite_reserved (d : Dialect) (s : Src) (h : identPart d s = (s, none)) : s.map upperAscii ∉ sqliteReserved := by
  intro hm
  have hk := (bare_is_regex_and_not_keyword d s h).2.2
  have := sqlite_reserved_are_keywords _ hm
  simp only [isKeyword, this, Bool.true_or] at hk
  cases hk

example : identPart .sqlite ['o', 'r', 'd', 'e', 'r'] = (['o', 'r', 'd', 'e', 'r'], some '"') := by decide +kernel
example : identPart .sqlite ['o', 'r', 'd', 'e', 'r', 's'] = (['o', 'r', 'd', 'e', 'r', 's'], none) := by decide +kernel

/-- what may follow an identifier: not the quote character, not a word character -/
def RestOk (d : Dialect) (rest : Src) : Prop := ∀ c, rest.head? = some c → c ≠ d.ident_quote ∧ isWordChar c = false

/-- FULL statement: the emitted identifier reads back as exactly the name (the wildcard `*` is not a name) -/
def ident_roundtrip_full : Prop :=
  ∀ (d : Dialect) (s rest : Src), s ≠ ['*'] → RestOk d rest → sqlLexIdent d (emitIdent d s ++ rest) = some (s, rest)

/-- a quoted identifier is its name with the quote character doubled: `translate_ident_part` doubles first (commit 3b64e89) and
sqlparser's "may already be escaped" printer prints a doubled value verbatim -/
theorem emit_ident_eq_doubling (d : Dialect) (s : Src) : emitIdent d s = emitIdentStd d s := by
  unfold emitIdent emitIdentStd
  split
  · rfl
  · simp [Model.Lit.sqlQuoteIdent, Model.Lit.identValue, Quote.quote, sqlEscape_esc]

/-- the `Ident` value handed to sqlparser for a quoted name is the name with the quote character doubled -/
theorem ident_value_doubled (d : Dialect) (s : Src) (h : identBare d s = false) :
    identPart d s = (Quote.esc d.ident_quote s, some d.ident_quote) := by
  simp [identPart, h, Model.Lit.identValue]

/-- the full statement is still false, for one reason only: a bare name that starts with `$` (the regex lets it through); `$d` is not an
identifier for the reader.  (Open finding `dollar-leading-identifier-emitted-bare`.) -/
theorem ident_roundtrip_dollar_counterexample : ¬ ident_roundtrip_full := by
  intro h
  have := h .sqlite ['$', 'd'] [' '] (by decide) (by intro c hc; simp at hc; subst hc; decide)
  revert this
  decide +kernel

theorem quote_not_word (d : Dialect) : isWordChar d.ident_quote = false := by cases d <;> decide

theorem start_class_word_or_dollar :
    ∀ r ∈ Gen.Ident.startClass, ∃ w ∈ wordStartRanges ++ [('$', '$')], w.1 ≤ r.1 ∧ r.2 ≤ w.2 := by decide

theorem wordStart_of_start {c : Char} (h : Gen.Ident.inClass Gen.Ident.startClass c = true) (hd : c ≠ '$') : isWordStart c = true := by
  have := inClass_mono start_class_word_or_dollar h
  simp only [Gen.Ident.inClass, List.any_append, Bool.or_eq_true] at this
  rcases this with h1 | h2
  · exact h1
  · simp only [List.any_cons, List.any_nil, Bool.or_false, Bool.and_eq_true, decide_eq_true_eq] at h2
    exact absurd (Char.le_antisymm h2.2 h2.1) hd

theorem classes_are_word_chars :
    (∀ r ∈ Gen.Ident.startClass, ∃ w ∈ wordRanges, w.1 ≤ r.1 ∧ r.2 ≤ w.2) ∧
    (∀ r ∈ Gen.Ident.contClass, ∃ w ∈ wordRanges, w.1 ≤ r.1 ∧ r.2 ≤ w.2) := by decide

theorem bare_roundtrip (d : Dialect) (s rest : Src) (hs : s ≠ ['*']) (hdollar : s.head? ≠ some '$')
    (hv : Gen.Ident.validIdent s = true) (hrest : RestOk d rest) :
    sqlLexIdent d (s ++ rest) = some (s, rest) := by
  cases s with
  | nil => simp [Gen.Ident.validIdent] at hv
  | cons c cs =>
    have hcls : Gen.Ident.inClass Gen.Ident.startClass c = true ∧ cs.all (Gen.Ident.inClass Gen.Ident.contClass) = true := by
      unfold Gen.Ident.validIdent at hv
      split at hv
      · next heq => exact absurd heq hs
      · next c' cs' heq => simp at heq; obtain ⟨rfl, rfl⟩ := heq; simpa using hv
      · next heq => simp at heq
    have hc : isWordChar c = true := inClass_mono classes_are_word_chars.1 hcls.1
    have hst : isWordStart c = true := wordStart_of_start hcls.1 (by simpa using hdollar)
    have hcs : ∀ x ∈ cs, isWordChar x = true := by
      intro x hx
      have := List.all_eq_true.mp hcls.2 x hx
      exact inClass_mono classes_are_word_chars.2 this
    have hq : c ≠ d.ident_quote := by
      intro e; have := quote_not_word d; rw [← e, hc] at this; cases this
    have hall : ∀ x ∈ c :: cs, isWordChar x = true := by
      intro x hx; rcases List.mem_cons.mp hx with rfl | hx
      · exact hc
      · exact hcs x hx
    have := takeWhile_append_stop (p := isWordChar) (c :: cs) rest hall (fun x hx => (hrest x hx).2)
    simp only [List.cons_append] at this
    simp [sqlLexIdent, hq, hst, this.1, this.2]

/-- plain doubling of the quote character is right for every name that does not start with `$` -/
theorem ident_roundtrip_std (d : Dialect) (s rest : Src) (hs : s ≠ ['*']) (hdollar : s.head? ≠ some '$') (hrest : RestOk d rest) :
    sqlLexIdent d (emitIdentStd d s ++ rest) = some (s, rest) := by
  unfold emitIdentStd
  split
  · next hb =>
    have hv : Gen.Ident.validIdent s = true := by simp [identBare] at hb; exact hb.1.2
    exact bare_roundtrip d s rest hs hdollar hv hrest
  · have hr : rest.head? ≠ some d.ident_quote := fun e => (hrest _ e).1 rfl
    have := Quote.quote_roundtrip d.ident_quote s rest hr
    simpa [sqlLexIdent, Quote.quote] using this

/-- PARTIAL (the one missing hypothesis is the leading `$`): for every dialect and EVERY other name – keywords, spaces, quote
characters in any arrangement, backslashes, non-ASCII – the emitted identifier reads back as exactly that name and ends where
the emitter ended it -/
theorem ident_roundtrip_partial (d : Dialect) (s rest : Src) (hs : s ≠ ['*']) (hdollar : s.head? ≠ some '$')
    (hrest : RestOk d rest) : sqlLexIdent d (emitIdent d s ++ rest) = some (s, rest) := by
  rw [emit_ident_eq_doubling]
  exact ident_roundtrip_std d s rest hs hdollar hrest

example : sqlLexIdent .sqlite (emitIdent .sqlite ['q', '"', '"', 'q'] ++ [' ']) = some (['q', '"', '"', 'q'], [' ']) := by decide +kernel
example : sqlLexIdent .postgres (emitIdent .postgres ['b', '\\', '"', 's'] ++ [' ']) = some (['b', '\\', '"', 's'], [' ']) := by decide +kernel

/-! ## T2  names assigned to CTEs and relation instances -/

/-- whatever the declarations, the names `assign_names` ends with are pairwise distinct, distinct from every name present
before, and one per declaration -/
theorem assign_names_fresh (pre : Src) (ds : List (Option Src)) (names : List Src) (n : Nat) (xs : List Src) (n' : Nat)
    (h : assignSeq pre ds names n = some (xs, n')) : xs.Nodup ∧ (∀ x ∈ xs, x ∉ names) ∧ xs.length = ds.length :=
  assignSeq_spec pre ds names n xs n' h

example : assignSeq Gen.Ident.tablePrefix [some ['t'], none, some ['t'], none] [] 0
    = some ([['t'], ['t', 'a', 'b', 'l', 'e', '_', '0'], ['t', 'a', 'b', 'l', 'e', '_', '1'], ['t', 'a', 'b', 'l', 'e', '_', '2']], 3) := by decide

/-- named declarations that come first in id order (pairwise distinct, not yet present) keep their names -/
theorem assign_names_keeps_leading (pre : Src) (named : List Src) (rest : List (Option Src)) (names : List Src) (n : Nat)
    (xs : List Src) (n' : Nat) (hnd : named.Nodup) (hnew : ∀ x ∈ named, x ∉ names)
    (h : assignSeq pre (named.map some ++ rest) names n = some (xs, n')) : named <+: xs :=
  assignSeq_leading pre named rest names n xs n' hnd hnew h

/-- FULL statement: a declaration that has a name keeps it -/
def assign_names_keeps_user : Prop :=
  ∀ (ds : List (Option Src)) (xs : List Src) (n' : Nat), assignSeq Gen.Ident.tablePrefix ds [] 0 = some (xs, n') →
    ∀ (i : Nat) (x : Src), ds[i]? = some (some x) → xs[i]? = some x

/-- false: an anonymous declaration with a smaller id takes `table_0` and the user's (extern) table `table_0` becomes `table_1` -/
theorem assign_names_keeps_user_counterexample : ¬ assign_names_keeps_user := by
  intro h
  have := h [none, some ['t', 'a', 'b', 'l', 'e', '_', '0']]
    [['t', 'a', 'b', 'l', 'e', '_', '0'], ['t', 'a', 'b', 'l', 'e', '_', '1']] 2 (by decide) 1 ['t', 'a', 'b', 'l', 'e', '_', '0'] (by decide)
  revert this
  decide

/-- T2a: an id generated after loading a query is above every id of the query (declarations made by a split come last) -/
theorem idgen_load_fresh (ids : List Nat) : ∀ i ∈ ids, i < idLoad ids := foldl_idSkip_gt ids 0

/-! ## T3  column names made by a split -/

/-- FULL statement: the column names of the relation created by a split are pairwise distinct -/
def split_names_unique : Prop :=
  ∀ (cols : List (Option Src)) (n : Nat), (outNames (splitNames Gen.Ident.colPrefix cols [] n)).Nodup

/-- false: next to a duplicated name a user column `_expr_0` collides with the regenerated name (renamed once, not re-checked) -/
theorem split_names_unique_counterexample : ¬ split_names_unique := by
  intro h
  have := h [some ['_', 'e', 'x', 'p', 'r', '_', '0'], some ['a'], some ['a']] 0
  revert this
  decide

/-- PARTIAL: distinct whenever no incoming column is called like a name the generator has yet to produce -/
theorem split_names_unique_partial (pre : Src) (cols : List (Option Src)) (n : Nat)
    (h : ∀ x, some x ∈ cols → ∀ k, n ≤ k → x ≠ genName pre k) : (outNames (splitNames pre cols [] n)).Nodup :=
  (splitNames_nodup pre cols [] n (by intro u hu; cases hu) h).1

example : outNames (splitNames Gen.Ident.colPrefix [some ['a'], some ['b'], some ['a'], none, some ['b']] [] 0)
    = [['a'], ['b'], ['_', 'e', 'x', 'p', 'r', '_', '0'], ['_', 'e', 'x', 'p', 'r', '_', '1']] := by decide

end Props.C09
