/-
C10  Ill-scoped programs are rejected, never compiled to something else.

Theorems over Model/Scope.lean (name resolution against frames; the root redirects and the top-level names of `std` are
regenerated from module.rs / std.prql) and Model/Fn.lean (argument binding):

T1  resolve_unique / resolve_two_candidates / resolve_ok_iff_denotes
      an accepted reference denotes the *one* candidate (or, with no candidate at all, the one input that still has a
      wildcard); two distinct candidates are always an error - never an arbitrary pick
T2  closed_frame_rejects      a fully known frame (no wildcard) and no candidate: "Unknown name"
T3  args_checked_surplus / args_checked_named / call_rejects      (corollaries of Model.Fn.bindArgs)
T4  relation_required         a scalar as argument of from / join / append: not accepted
P   accept_iff_wellScoped, scope_break_rejected, unknown_reference_rejected, ambiguous_reference_rejected
      the model accepts exactly the programs in which every reference denotes; inserting, at *any* site of *any*
      program, a reference that has no candidate in a fully known frame (or two candidates) yields a program that is
      not accepted.
The tie to the real resolver is the differential run of tools/props/c10.py.  Known findings (the real compiler accepts an
ill-scoped program): relation-as-scalar-passes-through - `derive {x = (from t1)}` compiles to `t1 AS t1`; the model has
no such fallback (T5 of the design, `no_passthrough`, is therefore a statement about the model only and is not claimed).
-/
import PrqlModel.Lemmas.Scope
namespace Props.C10
open Model Model.Scope

deriving instance DecidableEq for Except

/-! ## T1 -/

/-- an accepted reference denotes the only candidate; if there is no candidate, the only input with a wildcard -/
theorem resolve_unique (env : Env) (fr : Frame) (r : Ref) (c : Cand) (h : resolve env fr r = .ok c) :
    lookup env fr r = [c] ∨
    (lookup env fr r = [] ∧ ∃ i, c = .inferred i r.name ∧ openInputs fr r = [i]) := by
  unfold resolve at h
  split at h
  next c0 hl => simp only [Except.ok.injEq] at h; subst h; exact Or.inl hl
  · cases h
  next hl =>
    split at h
    next i hi => simp only [Except.ok.injEq] at h; subst h; exact Or.inr ⟨hl, i, rfl, hi⟩
    · cases h
    · cases h

/-- two distinct candidates: always "Ambiguous name", whatever else is in scope -/
theorem resolve_two_candidates (env : Env) (fr : Frame) (r : Ref) (c1 c2 : Cand)
    (h1 : c1 ∈ lookup env fr r) (h2 : c2 ∈ lookup env fr r) (hne : c1 ≠ c2) :
    resolve env fr r = .error (.ambiguous r) := by
  obtain ⟨x, y, zs, hl⟩ := two_le_length_of_ne h1 h2 hne
  simp [resolve, hl]

/-- the same in terms of the frame: two columns that both match and are filed differently -/
theorem resolve_two_columns (env : Env) (fr : Frame) (r : Ref) (a b : Col) (c1 c2 : Cand)
    (ha : a ∈ fr) (hb : b ∈ fr) (h1 : a.cand? r = some c1) (h2 : b.cand? r = some c2) (hne : c1 ≠ c2) :
    resolve env fr r = .error (.ambiguous r) := by
  apply resolve_two_candidates env fr r c1 c2 _ _ hne
  · rw [lookup, mem_dedup]; exact List.mem_append_right _ (List.mem_filterMap.mpr ⟨a, ha, h1⟩)
  · rw [lookup, mem_dedup]; exact List.mem_append_right _ (List.mem_filterMap.mpr ⟨b, hb, h2⟩)

/-- "r denotes c in this scope", stated without the algorithm -/
def Denotes (env : Env) (fr : Frame) (r : Ref) (c : Cand) : Prop :=
  (c ∈ lookup env fr r ∧ ∀ c' ∈ lookup env fr r, c' = c) ∨
  (lookup env fr r = [] ∧ ∃ i, c = .inferred i r.name ∧ i ∈ openInputs fr r ∧ ∀ i' ∈ openInputs fr r, i' = i)

theorem resolve_ok_iff_denotes (env : Env) (fr : Frame) (r : Ref) (c : Cand) :
    resolve env fr r = .ok c ↔ Denotes env fr r c := by
  constructor
  · intro h
    rcases resolve_unique env fr r c h with hl | ⟨hl, i, hc, hi⟩
    · left; rw [hl]; simp
    · right; exact ⟨hl, i, hc, by rw [hi]; simp, by rw [hi]; simp⟩
  · rintro (⟨hm, hall⟩ | ⟨hl, i, hc, hm, hall⟩)
    · have := eq_singleton_of_nodup (nodup_dedup _) hm hall
      unfold lookup at this
      simp [resolve, lookup, this]
    · have := eq_singleton_of_nodup (nodup_dedup _) hm hall
      unfold openInputs at this
      simp [resolve, hl, openInputs, this, hc]

/-! ## T2 -/

theorem openInputs_closed (fr : Frame) (r : Ref) (h : fr.closed = true) : openInputs fr r = [] := by
  have : fr.filterMap (Col.open? r) = [] := by
    rw [List.filterMap_eq_nil_iff]
    intro c hc
    have := List.all_eq_true.mp h c hc
    cases c with
    | single n i => rfl
    | thatSingle n i => rfl
    | all i => simp at this
  simp [openInputs, this, dedup]

/-- fully known frame, no column matches, not a root/std name: "Unknown name" -/
theorem closed_frame_rejects (env : Env) (fr : Frame) (r : Ref) (hclosed : fr.closed = true)
    (hnone : ∀ c ∈ fr, c.cand? r = none) (hglobal : globalCands env r = []) :
    resolve env fr r = .error (.unknown r) := by
  have hl : lookup env fr r = [] := by
    have : fr.filterMap (Col.cand? r) = [] := List.filterMap_eq_nil_iff.mpr hnone
    simp [lookup, hglobal, this, dedup]
  simp [resolve, hl, openInputs_closed fr r hclosed]

/-- in particular: a name that is not the name of any column of a fully known frame -/
theorem closed_frame_rejects_name (env : Env) (fr : Frame) (r : Ref) (hclosed : fr.closed = true)
    (hname : ∀ n i, (Col.single (some n) i ∈ fr ∨ Col.thatSingle (some n) i ∈ fr) → n ≠ r.name) (hglobal : globalCands env r = []) :
    resolve env fr r = .error (.unknown r) := by
  apply closed_frame_rejects env fr r hclosed _ hglobal
  intro c hc
  cases c with
  | all i => rfl
  | single n i =>
    cases n with
    | none => rfl
    | some n => simp [Col.cand?, hname n i (Or.inl hc)]
  | thatSingle n i =>
    cases n with
    | none => rfl
    | some n => simp [Col.cand?, hname n i (Or.inr hc)]

/-- the converse direction of the design: inference happens *only* when the frame still has a wildcard -/
theorem inferred_only_if_open (env : Env) (fr : Frame) (r : Ref) (i n : Name)
    (h : resolve env fr r = .ok (.inferred i n)) : fr.closed = false := by
  rcases resolve_unique env fr r _ h with hl | ⟨_, j, hc, hi⟩
  · have hm : Cand.inferred i n ∈ lookup env fr r := by rw [hl]; simp
    rw [lookup, mem_dedup, List.mem_append] at hm
    rcases hm with hm | hm
    · unfold globalCands at hm
      split at hm
      · split at hm <;> simp at hm
      · simp at hm
    · obtain ⟨col, _, hcand⟩ := List.mem_filterMap.mp hm
      cases col with
      | all j => simp [Col.cand?] at hcand
      | single nm inp =>
        cases nm with
        | none => simp [Col.cand?] at hcand
        | some nm =>
          simp only [Col.cand?] at hcand
          split at hcand
          · split at hcand
            · simp at hcand
            · split at hcand <;> simp at hcand
          · simp at hcand
      | thatSingle nm inp =>
        cases nm with
        | none => simp [Col.cand?] at hcand
        | some nm =>
          simp only [Col.cand?] at hcand
          split at hcand
          · split at hcand
            · simp at hcand
            · split at hcand <;> simp at hcand
          · simp at hcand
  · cases hcl : fr.closed with
    | false => rfl
    | true => rw [openInputs_closed fr r hcl] at hi; cases hi

/-! ## T3 (Model.Fn.bindArgs) -/

open Model.Fn in
/-- more positional arguments than parameters: error -/
theorem args_checked_surplus (f : FnDecl) (pos : List Rel.Expr) (named : List (Fn.Name × Rel.Expr))
    (h : f.positional < pos.length) : bindArgs f pos named = .error .tooManyPositional := by
  simp [bindArgs, h]

open Model.Fn in
/-- a named argument that is not a named parameter: error (the first such argument is reported) -/
theorem args_checked_named (f : FnDecl) (pos : List Rel.Expr) (named : List (Fn.Name × Rel.Expr)) (na : Fn.Name × Rel.Expr)
    (hpos : pos.length = f.positional) (hmem : na ∈ named) (hunk : ∀ p ∈ f.named, p.1 ≠ na.1) :
    ∃ n, bindArgs f pos named = .error (.unknownNamed n) ∧ ∀ p ∈ f.named, p.1 ≠ n := by
  have h1 : ¬ f.positional < pos.length := by omega
  have h2 : ¬ pos.length < f.positional := by omega
  cases hf : named.find? (fun na => !(f.named.any fun p => p.1 == na.1)) with
  | some x =>
    refine ⟨x.1, by simp [bindArgs, h1, h2, hf], ?_⟩
    have := List.find?_some hf
    intro p hp he
    simp only [Bool.not_eq_eq_eq_not, Bool.not_true, List.any_eq_false] at this
    exact this p hp (by simp [he])
  | none =>
    have := List.find?_eq_none.mp hf na hmem
    simp only [Bool.not_eq_eq_eq_not, Bool.not_true, Bool.not_eq_false, List.any_eq_true] at this
    obtain ⟨p, hp, he⟩ := this
    exact absurd (by simpa using he) (hunk p hp)

open Model.Fn in
/-- such a call is not an expression at all -/
theorem call_rejects (f : FnDecl) (pos : List Rel.Expr) (named : List (Fn.Name × Rel.Expr))
    (h : f.positional < pos.length) : call f pos named = .error .tooManyPositional := by
  simp [call, args_checked_surplus f pos named h, Except.map]

open Model.Fn in
example : bindArgs { positional := 2, named := [], body := .col 0 } [.col 0, .col 1, .col 2] [] = .error .tooManyPositional := by
  rfl
open Model.Fn in
example : bindArgs { positional := 1, named := [(['n'], .lit (.int 0))], body := .col 0 } [.col 0] [(['n'], .col 1), (['m'], .col 1)]
    = .error (.unknownNamed ['m']) := by rfl

/-! ## the program level -/

/-- every relation argument is a relation and every reference denotes something -/
def WellScoped (p : Program) : Prop :=
  (∀ s ∈ p.sources, (s.2.frame s.1).isSome = true) ∧ ∀ s ∈ p.sites, ∃ c, Denotes p.env s.1 s.2 c

theorem siteOk_iff (env : Env) (s : Frame × Ref) : siteOk env s = true ↔ ∃ c, Denotes env s.1 s.2 c := by
  unfold siteOk
  constructor
  · intro h
    cases hr : resolve env s.1 s.2 with
    | ok c => exact ⟨c, (resolve_ok_iff_denotes _ _ _ _).mp hr⟩
    | error e => simp [hr] at h
  · rintro ⟨c, hc⟩
    rw [(resolve_ok_iff_denotes _ _ _ _).mpr hc]

/-- the model accepts exactly the well-scoped programs -/
theorem accept_iff_wellScoped (p : Program) : accept p = true ↔ WellScoped p := by
  simp only [accept, Bool.and_eq_true, List.all_eq_true, WellScoped, sourceOk]
  constructor
  · rintro ⟨h1, h2⟩; exact ⟨h1, fun s hs => (siteOk_iff _ _).mp (h2 s hs)⟩
  · rintro ⟨h1, h2⟩; exact ⟨h1, fun s hs => (siteOk_iff _ _).mpr (h2 s hs)⟩

/-- THE PROPERTY on the model: whatever edit turns a well-scoped program into an ill-scoped one, the result is rejected -/
theorem scope_break_rejected (p : Program) (edit : Program → Program) (_hw : WellScoped p) (hb : ¬ WellScoped (edit p)) :
    accept (edit p) = false := by
  cases h : accept (edit p) with
  | false => rfl
  | true => exact absurd ((accept_iff_wellScoped _).mp h) hb

/-- T4: a scalar where `from` / `join` / `append` need a relation -/
theorem relation_required (p : Program) (done : List Frame) (h : (done, Source.scalar) ∈ p.sources) : accept p = false := by
  cases ha : accept p with
  | false => rfl
  | true =>
    have := ((accept_iff_wellScoped p).mp ha).1 _ h
    simp [Source.frame] at this

/-- insert a step after the first `j` steps of the main pipeline -/
def insertStep (p : Program) (j : Nat) (s : Step) : Program :=
  { p with main := { p.main with steps := p.main.steps.take j ++ s :: p.main.steps.drop j } }

/-- the frame in force after the first `j` steps of the main pipeline -/
def frameAt (p : Program) (j : Nat) : Frame :=
  stepsFrame p.env (letFrames p.env p.lets []) (srcFrame (letFrames p.env p.lets []) p.main.src p.main.alias) (p.main.steps.take j)

theorem site_of_inserted_filter (p : Program) (j : Nat) (r : Ref) :
    (frameAt p j, r) ∈ (insertStep p j (.filter [r])).sites := by
  unfold Program.sites insertStep Pipeline.sites
  apply List.mem_append_right
  simp only [stepsSites_append, List.mem_append]
  right
  simp [stepsSites, stepSites, frameAt]

/-- a column dropped earlier (or one that never existed), referenced at any site where the frame is fully known:
the edited program is rejected -/
theorem unknown_reference_rejected (p : Program) (j : Nat) (r : Ref)
    (hclosed : (frameAt p j).closed = true) (hnone : ∀ c ∈ frameAt p j, c.cand? r = none)
    (hglobal : globalCands p.env r = []) :
    accept (insertStep p j (.filter [r])) = false := by
  cases ha : accept (insertStep p j (.filter [r])) with
  | false => rfl
  | true =>
    obtain ⟨c, hc⟩ := ((accept_iff_wellScoped _).mp ha).2 _ (site_of_inserted_filter p j r)
    have h1 := (resolve_ok_iff_denotes _ _ _ _).mpr hc
    have h2 := closed_frame_rejects p.env (frameAt p j) r hclosed hnone hglobal
    have : (insertStep p j (Step.filter [r])).env = p.env := rfl
    rw [this, h2] at h1
    cases h1

/-- a bare name that two relations in scope provide, referenced at any site: the edited program is rejected -/
theorem ambiguous_reference_rejected (p : Program) (j : Nat) (r : Ref) (a b : Col) (c1 c2 : Cand)
    (ha : a ∈ frameAt p j) (hb : b ∈ frameAt p j) (h1 : a.cand? r = some c1) (h2 : b.cand? r = some c2) (hne : c1 ≠ c2) :
    accept (insertStep p j (.filter [r])) = false := by
  cases hacc : accept (insertStep p j (.filter [r])) with
  | false => rfl
  | true =>
    obtain ⟨c, hc⟩ := ((accept_iff_wellScoped _).mp hacc).2 _ (site_of_inserted_filter p j r)
    have h3 := (resolve_ok_iff_denotes _ _ _ _).mpr hc
    have h4 := resolve_two_columns p.env (frameAt p j) r a b c1 c2 ha hb h1 h2 hne
    have : (insertStep p j (Step.filter [r])).env = p.env := rfl
    rw [this, h4] at h3
    cases h3

/-! ## non-vacuity: concrete frames and programs -/

def n (s : String) : Name := s.toList
def t0 : Source := .table (n "t0") (some [n "u0", n "a0", n "k"])
def t1 : Source := .table (n "t1") (some [n "u1", n "a1", n "k"])
def plainItem (q : Option String) (x : String) : Item := { refs := [{ qual := q.map n, name := n x }], plain := true }

/-- from t0 | join t1 (==k) | select {t0.k, u1} | filter k -/
def good : Program :=
  { env := Env.std,
    main := { src := t0, steps := [.join t1 none [] [{ name := n "k" }] [{ name := n "k" }],
                                   .select [plainItem (some "t0") "k", plainItem none "u1"],
                                   .filter [{ name := n "k" }]] } }

example : accept good = true := by decide +kernel
example : frameAt good 2 = [.single (some (n "k")) (some (n "t0")), .single (some (n "u1")) (some (n "t1"))] := by decide +kernel
/-- dropped column referenced later: a0 after the select -/
example : firstError (insertStep good 2 (.filter [{ name := n "a0" }])) = some (.unknown { name := n "a0" }) := by decide +kernel
/-- bare name of two joined relations, right after the join -/
example : firstError (insertStep good 1 (.filter [{ name := n "k" }])) = some (.ambiguous { name := n "k" }) := by decide +kernel
/-- the hypotheses of `unknown_reference_rejected` / `ambiguous_reference_rejected` on these instances -/
example : (frameAt good 2).closed = true ∧ (∀ c ∈ frameAt good 2, c.cand? { name := n "a0" } = none) ∧
    globalCands good.env { name := n "a0" } = [] := by decide +kernel
example : Col.single (some (n "k")) (some (n "t0")) ∈ frameAt good 1 ∧ Col.single (some (n "k")) (some (n "t1")) ∈ frameAt good 1 := by
  decide +kernel
/-- a column named like a std function is ambiguous (`std` is a root redirect) -/
example : resolve Env.std [.single (some (n "sum")) none] { name := n "sum" } = .error (.ambiguous { name := n "sum" }) := by
  decide +kernel
/-- undeclared table: any name is inferred while the frame has the wildcard, none after a select -/
example : resolve Env.std [.all (n "t")] { name := n "zz" } = .ok (.inferred (n "t") (n "zz")) := by decide +kernel
example : resolve Env.std [.single (some (n "a")) (some (n "t"))] { name := n "zz" } = .error (.unknown { name := n "zz" }) := by
  decide +kernel
/-- two open inputs: a bare unknown name is ambiguous, a qualified one is inferred -/
example : resolve Env.std [.all (n "t"), .all (n "u")] { name := n "zz" } = .error (.ambiguous { name := n "zz" }) := by decide +kernel
example : resolve Env.std [.all (n "t"), .all (n "u")] { qual := some (n "u"), name := n "zz" } = .ok (.inferred (n "u") (n "zz")) := by
  decide +kernel
/-- `derive {k = 1}` after the join takes the name away from both `k` columns -/
example : stepFrame Env.std [] (frameAt good 1) (.derive [{ alias := some (n "k") }]) =
    [.single (some (n "u0")) (some (n "t0")), .single (some (n "a0")) (some (n "t0")), .single none (some (n "t0")),
     .single (some (n "u1")) (some (n "t1")), .single (some (n "a1")) (some (n "t1")), .single none (some (n "t1")),
     .single (some (n "k")) none] := by decide +kernel
/-- in a join condition the two sides are different namespaces: a name both sides file under the same input is ambiguous -/
example : resolve Env.std ([.single (some (n "k")) (some (n "t1"))] ++ asThat [.single (some (n "k")) (some (n "t1"))])
    { qual := some (n "t1"), name := n "k" } = .error (.ambiguous { qual := some (n "t1"), name := n "k" }) := by decide +kernel
/-- scalar as a relation -/
example : accept { good with main := { good.main with src := .scalar } } = false := by decide +kernel

end Props.C10
