/-
C11  Compilation is a pure function of source tree and options.

A Lean function is deterministic by construction, so `compileM x = compileM x` would say nothing.  What is proved here:

* ORDER-INDEPENDENCE.  Every enumeration of a HashMap / HashSet in the compiler (inventory: tools/gen_hashsites.py →
  Gen/HashSites.lean; every site is classified, a new unclassified site breaks the check) is modelled in Model/Order.lean as
  a function of an explicit enumeration `l`; two enumerations of one container are `List.Perm`.  One theorem per way of
  consuming an enumeration says when the result does not depend on it; where the code's use DOES depend on it there is an
  `…_order_dependent_counterexample` (two enumerations, two results) and a known finding.
* LOG NON-INTERFERENCE.  The global debug log is a state machine; the result of a compile does not depend on the log state
  nor on any interleaving of log operations of other threads unless the lock gets poisoned, and the two ways to poison it
  through the `#[doc(hidden)] pub` API are explicit theorems (both reproduced on the real code by tools/props/c11.py).

The level is PARTIAL: hash seeds, threads, allocator and process state are runtime and are explored by the check, not proved.
-/
import PrqlModel.Model.Order
namespace Props.C11
open Model.Order List

/-- the result of `f` does not depend on the order in which the container is enumerated -/
def OrderIndependent (f : List α → β) : Prop := ∀ l l' : List α, l.Perm l' → f l = f l'

/-! ## first match / first element -/

/-- first match: independent of the enumeration when at most one entry satisfies the predicate
(redirect targets are injective: every redirect target is a fresh `cid.gen()` in anchor.rs `anchor_split` and
postprocess.rs `fold_sql_query`). -/
theorem find_unique_order_indep (p : α → Bool) {l l' : List α}
    (uniq : ∀ x ∈ l, ∀ y ∈ l, p x = true → p y = true → x = y) (h : l.Perm l') :
    findFirst p l = findFirst p l' := by
  unfold findFirst
  induction h with
  | nil => rfl
  | cons x _ ih =>
    simp only [List.find?_cons]
    split
    · rfl
    · exact ih (fun a ha b hb => uniq a (List.mem_cons_of_mem _ ha) b (List.mem_cons_of_mem _ hb))
  | swap x y l =>
    simp only [List.find?_cons]
    cases hx : p x <;> cases hy : p y <;> simp
    exact uniq y (by simp) x (by simp) hy hx
  | trans h₁ _ ih₁ ih₂ =>
    exact (ih₁ uniq).trans (ih₂ (fun a ha b hb => uniq a (h₁.mem_iff.mpr ha) b (h₁.mem_iff.mpr hb)))

example : findFirst (fun e : Nat × Nat => e.2 == 7) [(1, 5), (2, 7), (3, 9)] = findFirst (fun e => e.2 == 7) [(3, 9), (2, 7), (1, 5)] :=
  find_unique_order_indep _ (by decide) (by decide)

/-- …and it is not when two entries match: postprocess.rs `relation_instances.iter_mut().find(|(_, ri)| ri.table_ref.source == cte.tid)`
with two instances of one CTE (finding `cte-instance-choice`), parser.rs `sources.keys().find(path_starts_with_uppercase)` with
two such files (finding `root-file-choice`). -/
theorem find_order_dependent_counterexample : ¬ OrderIndependent (findFirst (fun e : Nat × Nat => e.2 == 0)) := by
  intro h
  exact absurd (h [(1, 0), (2, 0)] [(2, 0), (1, 0)] (List.Perm.swap _ _ _)) (by decide)

/-- a container with at most one entry has only one enumeration: `decls.into_iter().next()` under `decls.len() == 1`
(resolver/names.rs), `sources.keys().next()` under `sources.len() == 1` (parser.rs), `for (k, v) in &query.other` (0 or 1
entries by construction in parser/stmt.rs). -/
theorem singleton_enum_order_indep {l l' : List α} (h : l.Perm l') (small : l.length ≤ 1) : l = l' := by
  match l, small with
  | [], _ => exact (List.nil_perm.mp h).symm
  | [a], _ => exact List.singleton_perm.mp h
  | _ :: _ :: _, hs => simp at hs

/-- `map.into_iter().next()` with two or more entries returns an arbitrary one:
functions.rs `apply_args_to_closure` (finding `unknown-named-arg-choice`). -/
theorem first_of_enumeration_order_dependent_counterexample : ¬ OrderIndependent (firstOf (α := Nat)) := by
  intro h
  exact absurd (h [1, 2] [2, 1] (List.Perm.swap _ _ _)) (by decide)

/-! ## collecting into a map -/

/-- collecting pairs with pairwise distinct keys into a map gives the same map for every enumeration
(parser.rs `ids`, postprocess.rs `redirects`, module.rs `into_exprs` / `from_exprs`, ast_expand.rs `restrict_expr_kind`:
the keys are the keys of the source map). -/
theorem collect_distinct_keys_order_indep [DecidableEq κ] {l l' : List (κ × β)} (k : κ)
    (distinct : ∀ x ∈ l, ∀ y ∈ l, x.1 = y.1 → x = y) (h : l.Perm l') :
    collectLast l k = collectLast l' k := by
  unfold collectLast
  have hr : l.reverse.Perm l'.reverse := (List.reverse_perm l).trans (h.trans (List.reverse_perm l').symm)
  have := find_unique_order_indep (fun e : κ × β => e.1 == k) (l := l.reverse) (l' := l'.reverse)
    (fun x hx y hy px py => by
      have hx' : x ∈ l := List.mem_reverse.mp hx
      have hy' : y ∈ l := List.mem_reverse.mp hy
      exact distinct x hx' y hy' (by simp at px py; rw [px, py])) hr
  unfold findFirst at this
  rw [this]

example : collectLast [(1, 10), (2, 20)] 2 = collectLast [(2, 20), (1, 10)] 2 :=
  collect_distinct_keys_order_indep 2 (by decide) (by decide)

/-- …with a repeated key the LAST enumerated entry wins: postprocess.rs `alias_last_sorting` builds
`column_aliases : referenced column ↦ alias` from `column_decls.values()`; two aliases of one column (`derive {x = a, y = a}`)
are two entries with the same key, and the ORDER BY names whichever came last (finding `orderby-alias-choice`). -/
theorem collect_last_order_dependent_counterexample : ¬ OrderIndependent (fun l : List (Nat × Nat) => collectLast l 0) := by
  intro h
  exact absurd (h [(0, 1), (0, 2)] [(0, 2), (0, 1)] (List.Perm.swap _ _ _)) (by decide)

/-- a pure per-value update commutes with the enumeration: the updated container is the same container
(lowering.rs `redirect_mappings`: `node_mapping.values_mut()` and the inner `mapping.values_mut()`). -/
theorem pointwise_update_order_indep (f : β → β) {l l' : List (κ × β)} (h : l.Perm l') :
    (valuesMut f l).Perm (valuesMut f l') := h.map _

/-- set semantics of a lookup result: membership and size do not depend on the enumeration, nor on the order in which
partial results are united (module.rs `Module::lookup`: `res.extend(..)` per redirect; the callers read `len()`, `contains`,
the single element, or sort). -/
theorem lookup_set_semantics {l l' r r' : List α} (h : l.Perm l') (hr : r.Perm r') :
    (∀ x, x ∈ l ++ r ↔ x ∈ r' ++ l') ∧ (l ++ r).length = (r' ++ l').length := by
  have hp : (l ++ r).Perm (r' ++ l') := (h.append hr).trans List.perm_append_comm
  exact ⟨fun x => hp.mem_iff, hp.length_eq⟩

/-! ## first error -/

/-- `iter.map(f).try_collect()`: the reported error is independent of the enumeration when at most one entry fails -/
theorem first_error_unique_order_indep (f : α → Except ε β) {l l' : List α}
    (uniq : ∀ x ∈ l, ∀ y ∈ l, (∃ e, f x = .error e) → (∃ e, f y = .error e) → x = y) (h : l.Perm l') :
    firstError f l = firstError f l' := by
  unfold firstError
  induction h with
  | nil => rfl
  | cons x _ ih =>
    simp only [List.findSome?_cons]
    split
    · rfl
    · exact ih (fun a ha b hb => uniq a (List.mem_cons_of_mem _ ha) b (List.mem_cons_of_mem _ hb))
  | swap x y l =>
    simp only [List.findSome?_cons]
    cases hx : f x with
    | ok _ =>
      cases hy : f y <;> simp
    | error ex =>
      cases hy : f y with
      | ok _ => simp
      | error ey =>
        have : y = x := uniq y (by simp) x (by simp) ⟨ey, hy⟩ ⟨ex, hx⟩
        subst this
        rw [hy] at hx
        cases hx
        simp
  | trans h₁ _ ih₁ ih₂ =>
    exact (ih₁ uniq).trans (ih₂ (fun a ha b hb => uniq a (h₁.mem_iff.mpr ha) b (h₁.mem_iff.mpr hb)))

example : firstError (fun n : Nat => if n = 2 then Except.error n else Except.ok n) [1, 2, 3]
    = firstError (fun n : Nat => if n = 2 then (Except.error n : Except Nat Nat) else Except.ok n) [3, 2, 1] := by decide

/-- …two failing entries: which error is reported depends on the enumeration (ast_expand.rs `expand_expr` over `named_args`,
finding `named-args-first-error-choice`). -/
theorem first_error_order_dependent_counterexample :
    ¬ OrderIndependent (firstError (fun n : Nat => (Except.error n : Except Nat Nat))) := by
  intro h
  exact absurd (h [1, 2] [2, 1] (List.Perm.swap _ _ _)) (by decide)

/-! ## printing -/

/-- text produced by walking the enumeration depends on it as soon as there are two entries: codegen/ast.rs (formatter,
finding `fmt-named-args-order`), serde of `named_args` (finding `pl-json-named-args-order`), parser/stmt.rs
`args.keys()…join(", ")` (finding `query-def-unknown-args-order`). -/
theorem print_enumeration_order_dependent_counterexample : ¬ OrderIndependent (printAll (fun n : Nat => [n])) := by
  intro h
  exact absurd (h [1, 2] [2, 1] (List.Perm.swap _ _ _)) (by decide)

/-! ## sorting -/

theorem insertBy_comm (key : α → Nat) (x y : α) (hxy : key x ≠ key y ∨ x = y) (s : List α) :
    insertBy key x (insertBy key y s) = insertBy key y (insertBy key x s) := by
  rcases hxy with hne | rfl
  · induction s with
    | nil =>
      simp only [insertBy]
      by_cases h1 : key x ≤ key y <;> by_cases h2 : key y ≤ key x <;> simp [h1, h2] <;> omega
    | cons b s ih =>
      simp only [insertBy]
      by_cases hy : key y ≤ key b <;> by_cases hx : key x ≤ key b <;> simp only [hy, hx, if_true, if_false, insertBy]
      · by_cases h1 : key x ≤ key y <;> by_cases h2 : key y ≤ key x <;> simp [h1, h2] <;> omega
      · have h1 : ¬ key x ≤ key y := by omega
        simp [h1]
      · have h2 : ¬ key y ≤ key x := by omega
        simp [h2]
      · simp [ih]
  · rfl

/-- sorting two enumerations of one container by a key that is injective on it gives the same list
(`sorted_by_key(|c| c.get())` over cids, `sort_by_key(|e| e.1.1)` over column positions, `sorted_by_key(|x| x.0)` and
`sort_by(ident)` over map keys, `chunks.sort()` / `.sorted()` over whole elements). -/
theorem sort_perm (key : α → Nat) {l l' : List α}
    (inj : ∀ x ∈ l, ∀ y ∈ l, key x = key y → x = y) (h : l.Perm l') :
    sortBy key l = sortBy key l' := by
  unfold sortBy
  induction h with
  | nil => rfl
  | cons x _ ih =>
    simp only [List.foldr_cons]
    rw [ih (fun a ha b hb => inj a (List.mem_cons_of_mem _ ha) b (List.mem_cons_of_mem _ hb))]
  | swap x y l =>
    simp only [List.foldr_cons]
    apply insertBy_comm
    by_cases hk : key y = key x
    · exact Or.inr (inj y (by simp) x (by simp) hk)
    · exact Or.inl hk
  | trans h₁ _ ih₁ ih₂ =>
    exact (ih₁ inj).trans (ih₂ (fun a ha b hb => inj a (h₁.mem_iff.mpr ha) b (h₁.mem_iff.mpr hb)))

example : sortBy (fun e : Nat × Nat => e.1) [(3, 0), (1, 5), (2, 7)] = sortBy (fun e => e.1) [(2, 7), (3, 0), (1, 5)] :=
  sort_perm _ (by decide) (by decide)

/-- …a stable sort leaves entries with EQUAL keys in enumeration order: parser.rs `linearize_tree` sorts the files by module
path, `a.prql` and `a.sql` have the same module path (finding `equal-module-path-order`). -/
theorem stable_sort_equal_keys_order_dependent_counterexample :
    ¬ OrderIndependent (sortBy (fun e : Nat × Nat => e.1)) := by
  intro h
  exact absurd (h [(1, 0), (1, 9)] [(1, 9), (1, 0)] (List.Perm.swap _ _ _)) (by decide)

/-- lowering.rs `toposort_tables`: the table map is enumerated in hash order, the dependency list is sorted by identifier
(identifiers are map keys, hence distinct), and utils/toposort.rs is a function of that slice: the order of the CTEs does
not depend on the enumeration. -/
theorem toposort_stable (key : α → Nat) (depsOf : List α → List (List Nat)) (start : Nat) {l l' : List α}
    (inj : ∀ x ∈ l, ∀ y ∈ l, key x = key y → x = y) (h : l.Perm l') :
    toposortTables key depsOf start l = toposortTables key depsOf start l' := by
  unfold toposortTables
  rw [sort_perm key inj h]

/-- parser.rs `linearize_tree`: with pairwise distinct module paths the file order handed to the parser is the sorted one -/
theorem linearize_tree_sorted (modulePath : α → Nat) {l l' : List α}
    (inj : ∀ x ∈ l, ∀ y ∈ l, modulePath x = modulePath y → x = y) (h : l.Perm l') :
    sortBy modulePath l = sortBy modulePath l' := sort_perm modulePath inj h

/-! ## reductions -/

theorem foldl_max_perm {l l' : List Nat} (h : l.Perm l') (a : Nat) : l.foldl max a = l'.foldl max a := by
  induction h generalizing a with
  | nil => rfl
  | cons x _ ih => simp only [List.foldl_cons]; exact ih _
  | swap x y l => simp only [List.foldl_cons]; congr 1; omega
  | trans _ _ ih₁ ih₂ => exact (ih₁ a).trans (ih₂ a)

/-- `keys().max()`, `iter().all(p)`, `iter().any(p)`: commutative reductions (lib.rs `SourceTree::insert`,
names.rs `ambiguous_error`, lowering.rs `user_declared_names.is_empty()`). -/
theorem reduce_order_indep (p : α → Bool) {l l' : List α} (h : l.Perm l') (m m' : List Nat) (hm : m.Perm m') :
    l.all p = l'.all p ∧ l.any p = l'.any p ∧ maxOf m = maxOf m' ∧ (l.filter p).isEmpty = (l'.filter p).isEmpty := by
  refine ⟨?_, ?_, foldl_max_perm hm 0, ?_⟩
  · rw [Bool.eq_iff_iff]; simp only [List.all_eq_true]; exact ⟨fun H x hx => H x (h.mem_iff.mpr hx), fun H x hx => H x (h.mem_iff.mp hx)⟩
  · rw [Bool.eq_iff_iff]; simp only [List.any_eq_true]
    exact ⟨fun ⟨x, hx, px⟩ => ⟨x, h.mem_iff.mp hx, px⟩, fun ⟨x, hx, px⟩ => ⟨x, h.mem_iff.mpr hx, px⟩⟩
  · have := (h.filter p).length_eq
    cases h1 : l.filter p <;> cases h2 : l'.filter p <;> simp_all

/-! ## the full statement about enumerations, and why it is false of the code as it is -/

/-- FULL: every way the compiler consumes an enumeration is order-independent, with no side condition -/
def AllConsumersOrderIndependent : Prop :=
  OrderIndependent (firstOf (α := Nat))
  ∧ OrderIndependent (findFirst (fun e : Nat × Nat => e.2 == 0))
  ∧ OrderIndependent (fun l : List (Nat × Nat) => collectLast l 0)
  ∧ OrderIndependent (firstError (fun n : Nat => (Except.error n : Except Nat Nat)))
  ∧ OrderIndependent (printAll (fun n : Nat => [n]))
  ∧ OrderIndependent (sortBy (fun e : Nat × Nat => e.1))

theorem all_consumers_order_independent_counterexample : ¬ AllConsumersOrderIndependent :=
  fun h => first_of_enumeration_order_dependent_counterexample h.1

/-- PARTIAL: under the side conditions (at most one match / distinct keys / at most one failure / injective sort key) they are;
`printAll` has no side condition short of "at most one entry" (`singleton_enum_order_indep`). -/
theorem all_consumers_order_independent_partial (l l' : List (Nat × Nat)) (h : l.Perm l')
    (distinct : ∀ x ∈ l, ∀ y ∈ l, x.1 = y.1 → x = y) (p : Nat × Nat → Bool)
    (uniq : ∀ x ∈ l, ∀ y ∈ l, p x = true → p y = true → x = y) :
    findFirst p l = findFirst p l' ∧ (∀ k, collectLast l k = collectLast l' k) ∧ sortBy (·.1) l = sortBy (·.1) l'
    ∧ (l.length ≤ 1 → firstOf l = firstOf l' ∧ printAll (fun e => [e.1, e.2]) l = printAll (fun e => [e.1, e.2]) l') :=
  ⟨find_unique_order_indep p uniq h, fun k => collect_distinct_keys_order_indep k distinct h, sort_perm _ distinct h,
   fun small => by rw [singleton_enum_order_indep h small]; exact ⟨rfl, rfl⟩⟩

/-! ## the global debug log -/

/-- no step of the trace, by the compile or by another thread, leaves the lock poisoned -/
def NeverPoisoned (s : Log) (todo : List COp) (tok : Bool) (tr : List Ev) : Prop :=
  ∀ r : Unit, (runCompile r s todo tok tr).2 ≠ .poisoned ∧ (runCompile r s todo tok tr).1 ≠ .panicked

theorem mineStep_error_poisoned {s : Log} {c : COp} {tok : Bool} {s' : Log} (h : mineStep s c tok = .error s') : s' = .poisoned := by
  cases c with
  | entry =>
    cases s with
    | absent => simp [mineStep, step] at h
    | poisoned => simp [mineStep, step] at h; exact h.symm
    | active n e => simp only [mineStep, step] at h; split at h <;> simp_all
  | suppress =>
    cases s with
    | absent => simp [mineStep, step] at h
    | poisoned => simp [mineStep, step] at h; exact h.symm
    | active n e => simp [mineStep, step] at h
  | dropToken =>
    cases tok with
    | false => simp [mineStep] at h
    | true =>
      cases s with
      | absent => simp [mineStep, step] at h
      | poisoned => simp [mineStep, step] at h; exact h.symm
      | active n e =>
        cases n with
        | succ n => simp [mineStep, step] at h
        | zero =>
          simp only [mineStep, step, if_true] at h
          by_cases hf : Gen.HashSites.logUnsuppressSubtractsUnderWriteLock = true
          · simp [hf] at h; exact h.symm
          · simp [hf] at h

/-- FULL statement: the result of a compile is its pure value for EVERY log state and EVERY interleaving -/
def LogNeverInterferes : Prop :=
  ∀ (ρ : Type) (r : ρ) (s : Log) (tr : List Ev), (runCompile r s compileOps false tr).1 = .value r

/-- `log_noninterference` (the PARTIAL, provable form): for every initial log state, every suppress-token state and every
interleaving of log operations of other threads, a compile whose own log operations do not panic returns exactly its pure
value; its own operations panic only on a poisoned lock (`mineStep_error_poisoned`). -/
theorem log_noninterference {ρ : Type} (r : ρ) (s : Log) (todo : List COp) (tok : Bool) (tr : List Ev) :
    (runCompile r s todo tok tr).1 = .value r ∨
    ((runCompile r s todo tok tr).1 = .panicked ∧ (runCompile r s todo tok tr).2 = .poisoned) := by
  induction todo generalizing s tok tr with
  | nil => left; unfold runCompile; rfl
  | cons c rest ih =>
    induction tr generalizing s tok with
    | nil =>
      unfold runCompile
      cases hm : mineStep s c tok with
      | error s' => right; have hp := mineStep_error_poisoned hm; subst hp; simp
      | ok v => obtain ⟨s', tok'⟩ := v; simp only []; exact ih s' tok' []
    | cons e tr' ihtr =>
      cases e with
      | other op => unfold runCompile; simp only []; exact ihtr (step s op).1 tok
      | mine =>
        unfold runCompile
        cases hm : mineStep s c tok with
        | error s' => right; have hp := mineStep_error_poisoned hm; subst hp; simp
        | ok v => obtain ⟨s', tok'⟩ := v; simp only []; exact ih s' tok' tr'

/-- in a SEQUENTIAL history (no other thread between the operations of the compile) a compile on a log that is not poisoned
returns its value and leaves the suppress count as it was: every call history of compiles and non-poisoning log operations
is harmless. -/
theorem log_noninterference_sequential {ρ : Type} (r : ρ) (s : Log) (hs : s ≠ .poisoned) :
    (runCompile r s compileOps false []).1 = .value r ∧
    (runCompile r s compileOps false []).2 = (match s with | .active 0 e => .active 0 (e + 4) | s => s) := by
  cases s with
  | poisoned => exact absurd rfl hs
  | absent => simp [compileOps, runCompile, mineStep, step]
  | active n e =>
    cases n with
    | zero => simp [compileOps, runCompile, mineStep, step]
    | succ n => simp [compileOps, runCompile, mineStep, step]

/-- the exception, route 1 (a call HISTORY): `log_start(); log_start()` – the assert fires while the write guard is held –
poisons the lock, and every later compile in the process panics in its first `log_entry`. -/
theorem log_double_start_poisons_counterexample : ¬ LogNeverInterferes := by
  intro h
  have := h Unit () ((step (step .absent .start).1 .start).1) []
  revert this
  simp [step, Gen.HashSites.logStartAssertsUnderWriteLock, compileOps, runCompile, mineStep]

theorem double_start_history :
    runHistory .absent [.compile, .log .start, .compile, .log .start, .compile, .log .finish, .log .isEnabled]
      = [.unit, .unit, .unit, .panic, .panic, .panic, .panic] := by
  simp [runHistory, step, Gen.HashSites.logStartAssertsUnderWriteLock, compileOps, runCompile, mineStep]

/-- the exception, route 2 (an INTERLEAVING): another thread restarts the log (`log_finish(); log_start()`) while a compile
holds a suppress token; the token's `Drop` then subtracts from a fresh count of 0 under the write guard, panics (overflow
checks on) and poisons the lock: this compile and every later one panic. -/
theorem log_restart_race_poisons_counterexample :
    runCompile () (.active 0 0) compileOps false [.mine, .mine, .mine, .other .finish, .other .start] = (.panicked, .poisoned) := by
  simp [step, Gen.HashSites.logUnsuppressSubtractsUnderWriteLock, compileOps, runCompile, mineStep]

/-- `OnceLock::get_or_init` with a constant initialiser: the value read does not depend on whether (or by whom) the cell was
initialised before (sql/operators.rs `STD`, sql/keywords.rs, codegen/ast.rs `KEYWORDS`). -/
theorem oncelock_idempotent (init : Unit → α) (cell : Option α) (h : cell = none ∨ cell = some (init ())) :
    (getOrInit cell init).1 = init () ∧ (getOrInit (getOrInit cell init).2 init) = (init (), some (init ())) := by
  rcases h with rfl | rfl <;> simp [getOrInit]

end Props.C11
