/-
C12  No input makes a public entry point panic, abort or hang.

PARTIAL for the proof technique: stack depth, wall time and the >150 unwrap/index sites outside the modelled
kernels are runtime behaviour; they are explored by tools/props/c12.py. What the model carries:

 T3  error_compose_no_panic      `ErrorMessages::composed` reaches neither its own assert nor ariadne's label assert
                                 iff the span is ordered and inside the source *in characters* – exactly `SpanOk`
                                 of C13. With `parser_span_ok_counterexample` of C13 this pins the multibyte panic.
     lexer_errors_never_panic_compose   spans built by `convert_lexer_error` always compose.
     parser_error_compose_panics        the `é)` witness of C13 panics in the model too (as on the binary).
 totality / cost: every function of Model/Text is total (structural recursion, accepted without `partial`);
     the step-counting twins are linear: `offset_conversion_linear`, `lineCol_linear`.
-/
import PrqlModel.Lemmas.Text
import PrqlModel.Props.C13
import PrqlModel.Lemmas.Anchor
namespace Props.C12
open Model.Text

/-- the location assert alone: passes iff both ends are inside the source in characters -/
theorem location_assert_iff (s : Src) (sp : Span) :
    (composedLocation s sp).isSome ↔ sp.start ≤ s.length ∧ sp.stop ≤ s.length := by
  unfold composedLocation composeLocation
  have h1 := lineCol_isSome_iff s sp.start
  have h2 := lineCol_isSome_iff s sp.stop
  cases ha : lineCol s sp.start <;> cases hb : lineCol s sp.stop <;> simp_all

/-- T3. `composed` does not panic iff the span is ordered and lies inside the source in characters. -/
theorem error_compose_no_panic (s : Src) (sp : Span) :
    (∃ l, composed s sp = .ok l) ↔ SpanOk s sp := by
  unfold composed SpanOk
  have h := location_assert_iff s sp
  unfold composedLocation at h
  cases hl : composeLocation s sp with
  | none =>
    rw [hl] at h
    simp only [Option.isSome_none, Bool.false_eq_true, false_iff] at h
    constructor
    · rintro ⟨l, hl'⟩; cases hl'
    · intro hh; exact absurd ⟨by omega, hh.2⟩ h
  | some l =>
    rw [hl] at h
    have h' := h.mp rfl
    constructor
    · rintro ⟨l', hl'⟩
      by_cases hlt : sp.stop < sp.start
      · simp [hlt] at hl'
      · exact ⟨by omega, h'.2⟩
    · intro hh
      have : ¬ sp.stop < sp.start := by omega
      exact ⟨l, by simp [this]⟩

/-- which assert fires -/
theorem compose_panic_sites (s : Src) (sp : Span) :
    (composed s sp = .panicOutOfBounds ↔ ¬ (sp.start ≤ s.length ∧ sp.stop ≤ s.length)) ∧
    (composed s sp = .panicLabelOrder ↔ (sp.start ≤ s.length ∧ sp.stop < sp.start)) := by
  have h := location_assert_iff s sp
  unfold composedLocation at h
  unfold composed
  cases hl : composeLocation s sp with
  | none =>
    rw [hl] at h
    have h' : ¬ (sp.start ≤ s.length ∧ sp.stop ≤ s.length) := by simpa using h
    constructor
    · constructor
      · intro _; exact h'
      · intro _; rfl
    · constructor
      · intro hh; cases hh
      · intro hh; exact absurd ⟨hh.1, by omega⟩ h'
  | some l =>
    rw [hl] at h
    have h' := h.mp rfl
    by_cases hlt : sp.stop < sp.start
    · dsimp only; rw [if_pos hlt]
      constructor
      · constructor
        · intro hh; cases hh
        · intro hh; exact absurd h' hh
      · constructor
        · intro _; exact ⟨h'.1, hlt⟩
        · intro _; rfl
    · dsimp only; rw [if_neg hlt]
      constructor
      · constructor
        · intro hh; cases hh
        · intro hh; exact absurd h' hh
      · constructor
        · intro hh; cases hh
        · intro hh; exact absurd hh.2 hlt

/-- spans produced by `convert_lexer_error` never make `composed` panic -/
theorem lexer_errors_never_panic_compose (s : Src) (bs be sid : Nat) (e : LexErr)
    (hle : bs ≤ be) (hb1 : isBoundary s bs = true) (hb2 : isBoundary s be = true)
    (h : convertLexerError s bs be sid = some e) : ∃ l, composed s e.span = .ok l := by
  obtain ⟨e', he', _, _, hok, _⟩ := Props.C13.lexer_error_span_ok s bs be sid hle hb1 hb2
  rw [h] at he'; cases he'
  exact (error_compose_no_panic s e.span).mpr hok

/-- the C13 witness `é)`: the parser's byte span 2..3 makes `composed` hit the location assert -/
theorem parser_error_compose_panics :
    composed Props.C13.witnessSrc (mapSpan Props.C13.witnessToks 2 3 1) = .panicOutOfBounds := by decide

/-- cost of the offset conversion: at most one step per byte and per character -/
theorem offset_conversion_linear (s : Src) (b : Nat) :
    charOfByteSteps s b ≤ b ∧ charOfByteSteps s b ≤ s.length := charOfByteSteps_le s b

/-- cost of the line/column computation: at most one step per character before the offset -/
theorem lineCol_linear (s : Src) (off : Nat) :
    lineColSteps s off ≤ off ∧ lineColSteps s off ≤ s.length := lineColSteps_le s off

-- non-vacuity
example : composed ['a', 'b', '\n', 'c'] ⟨1, 4, 1⟩ = .ok ⟨(0, 1), (1, 1)⟩ := by decide
example : composed ['a', 'b', '\n', 'c'] ⟨3, 2, 1⟩ = .panicLabelOrder := by decide
example : composed ['a', 'b', '\n', 'c'] ⟨3, 5, 1⟩ = .panicOutOfBounds := by decide

/-! ## T2 the unwraps of the pipeline splitter (mirror: Model.Anchor, see Props/C07)

`extract_atomic` / `anchor_split` (sql/pq/anchor.rs) unwrap: the Select of the atomic part
(`find_map(.. as_select ..).unwrap()`), the Select that ends the preceding part (`preceding.last().unwrap() .. as_select().unwrap()`)
and the declaration of every column at the split (`ctx.column_decls.get(old_cid).unwrap()`). On the mirror none of them can fail
for a well-formed pipeline. -/
section SplitterUnwraps
open Model.Anchor Lemmas.Anchor

/-- **splitter_unwraps_succeed.** (a) the atomic part always starts with its Select; (b) a preceding part, when there is one,
ends with the Select of the missing columns; (c) every column at the split is defined by a transform of the preceding part
(AnchorContext holds a declaration for every instance column and every compute). -/
theorem splitter_unwraps_succeed (decls : List Comp) (p : List Tr) (out : List CId) (hwf : wfPipe p out = true) :
    (∃ sel, (splitOffBack decls p out).atomic.head? = some (.select sel)) ∧
    (∀ q, (splitOffBack decls p out).preceding = some q →
        q.getLast? = some (.select (splitOffBack decls p out).missing)) ∧
    (∀ c ∈ (splitOffBack decls p out).missing, c ∈ defsOf (splitOffBack decls p out).rest) := by
  refine ⟨⟨_, rfl⟩, ?_, (split_scope decls p out hwf).2.2.2.2.1⟩
  intro q hq
  simp only [SplitResult.preceding] at hq
  split at hq
  · simp at hq
  · simp only [Option.some.injEq] at hq
    subst hq
    simp

/-- `translate_select_pipeline` takes "the" projection with `pluck(into_select) .. exactly_one().unwrap()`: the atomic part the
splitter hands over holds EXACTLY ONE Select (its head; the scan drops every Select it passes), for every pipeline - the unwrap
cannot fail -/
theorem atomic_part_has_exactly_one_select (decls : List Comp) (p : List Tr) (out : List CId) :
    (splitOffBack decls p out).atomic.filter isSelect = [.select (splitOffBack decls p out).select] := by
  unfold SplitResult.atomic
  have h := splitOffBack_kept_no_select decls p out
  have : (splitOffBack decls p out).kept.filter isSelect = [] :=
    List.filter_eq_nil_iff.mpr fun u hu => by simp [h u hu]
  simp [List.filter_cons, isSelect, this]

example : (splitOffBack [] [.from [0, 1], .select [0, 1], .filter (.col 0), .select [1]] [1]).atomic.filter isSelect = [.select [1]] := by decide

end SplitterUnwraps

end Props.C12
