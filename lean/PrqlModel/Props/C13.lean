/-
C13  Errors are located inside the source and point at the offending text.

Theorems over Model/Text (mirrors of `convert_lexer_error`, the `map_span` closure of `parse_lr_to_pr`,
the interpolation rebasing, `compose_location` and the `SourceTree` id maps).

 T1  lexer_error_span_ok            lexer errors: proved at full strength.
 T2  parser_span_ok                 FALSE of the code as it is (`parser_span_ok_counterexample`: parser spans
                                    are byte offsets read as character offsets); proved when the text before the
                                    span end is ASCII and the token range is not empty (`parser_span_ok_partial`);
                                    the two other ways in which `map_span` leaves the offending text are
                                    `mapSpan_empty_range_inverted` and `mapSpan_at_end_of_input`.
 T3  interp_span_ok                 FALSE for multi-quote strings (`interp_span_ok_counterexample`), proved for
                                    one opening quote (`interp_span_ok_partial`); escapes in the body are a
                                    second source of shift (`interp_span_escape_counterexample`).
 T4  multi_file                     the id stamped on a file's errors names that file and its text.
-/
import PrqlModel.Lemmas.Text
namespace Props.C13
open Model.Text

/-! ## T1 lexer errors -/

/-- T1. For every source and every byte span `bs ≤ be ≤ byteLen` on character boundaries,
`convert_lexer_error` does not panic, gives a non-empty reason and a character span that is ordered, inside the
source, denotes the same text as the byte span, and whose composed location is the position of that span. -/
theorem lexer_error_span_ok (s : Src) (bs be sid : Nat)
    (hle : bs ≤ be) (hb1 : isBoundary s bs = true) (hb2 : isBoundary s be = true) :
    ∃ e, convertLexerError s bs be sid = some e ∧ e.reason ≠ [] ∧ e.span.sourceId = sid ∧
      SpanOk s e.span ∧
      byteOfChar s e.span.start = bs ∧ byteOfChar s e.span.stop = be ∧
      LocOk s e.span (composeLocation s e.span) := by
  unfold isBoundary at hb1 hb2
  obtain ⟨cs, hcs⟩ := Option.isSome_iff_exists.mp hb1
  obtain ⟨ce, hce⟩ := Option.isSome_iff_exists.mp hb2
  have hmono := charOfByte_mono hcs hce hle
  have ⟨h1, h1'⟩ := charOfByte_some hcs
  have ⟨h2, h2'⟩ := charOfByte_some hce
  have hnlt : ¬ ce < cs := by omega
  have hconv : convertLexerError s bs be sid = some
      ⟨strUnexpected ++ (if ((s.drop cs).take (ce - cs)).isEmpty then strEndOfInput
          else '\'' :: (s.drop cs).take (ce - cs) ++ ['\'']), ⟨cs, ce, sid⟩⟩ := by
    simp only [convertLexerError, hcs, hce, hnlt, if_false]
  refine ⟨_, hconv, ?_, ?_, ?_, ?_, ?_, ?_⟩
  · show strUnexpected ++ _ ≠ []
    intro h; have := congrArg List.length h; simp [strUnexpected] at this
  · rfl
  · exact ⟨hmono, h2⟩
  · exact h1'
  · exact h2'
  · show LocOk s ⟨cs, ce, sid⟩ (composeLocation s ⟨cs, ce, sid⟩)
    obtain ⟨a, ha, hap⟩ := lineCol_isPos s cs (by omega)
    obtain ⟨b, hb, hbp⟩ := lineCol_isPos s ce h2
    exact ⟨⟨a, b⟩, by simp [composeLocation, ha, hb], hap, hbp⟩

/-- the hypothesis `be ≤ byteLen s` of the design statement follows from `be` being a boundary -/
theorem boundary_le_byteLen (s : Src) (b : Nat) (h : isBoundary s b = true) : b ≤ byteLen s := by
  obtain ⟨k, hk⟩ := Option.isSome_iff_exists.mp h
  exact charOfByte_le_byteLen hk

/-- the "found" text in the reason is the text under the reported span -/
theorem lexer_error_reason_quotes_span (s : Src) (bs be sid : Nat) (e : LexErr)
    (h : convertLexerError s bs be sid = some e) :
    e.reason = strUnexpected ++
      (if (sliceChars s e.span.start e.span.stop).isEmpty then strEndOfInput
       else '\'' :: sliceChars s e.span.start e.span.stop ++ ['\'']) := by
  unfold convertLexerError at h
  split at h
  · split at h
    · cases h
    · cases h; rfl
  · cases h

-- non-vacuity: `aé^` with the byte span of `^` (bytes 3..4 = characters 2..3)
example : convertLexerError ['a', 'é', '^'] 3 4 0
    = some ⟨['u', 'n', 'e', 'x', 'p', 'e', 'c', 't', 'e', 'd', ' ', '\'', '^', '\''], ⟨2, 3, 0⟩⟩ := by decide
example : isBoundary ['a', 'é', '^'] 3 = true ∧ isBoundary ['a', 'é', '^'] 2 = false := by decide

/-! ## T2 parser errors -/

/-- the token list handed to the parser: byte spans on character boundaries, in source order -/
structure TokensOk (s : Src) (toks : List Tok) : Prop where
  each : ∀ t ∈ toks, t.start ≤ t.stop ∧ isBoundary s t.start = true ∧ isBoundary s t.stop = true
  ordered : toks.Pairwise (fun a b => a.stop ≤ b.start)

/-- what the property asks of the span reported for the token range `i..j`: read the way `compose_location`
reads it (character offsets) it is ordered, inside the source, it is the text the tokens cover, and the composed
location is its position. -/
def ParserSpanOkAt (s : Src) (toks : List Tok) (i j sid : Nat) : Prop :=
  let sp := mapSpan toks i j sid
  SpanOk s sp ∧
  (∃ t u, toks[i]? = some t ∧ toks[j - 1]? = some u ∧
      charOfByte s t.start = some sp.start ∧ charOfByte s u.stop = some sp.stop) ∧
  LocOk s sp (composeLocation s sp)

/-- T2, full statement (as the design states it: every token list in source order, every index range). -/
def parser_span_ok : Prop :=
  ∀ (s : Src) (toks : List Tok) (i j sid : Nat), TokensOk s toks → i ≤ j → j ≤ toks.length → 0 < j →
    ParserSpanOkAt s toks i j sid

/-- the tokens of `é)` as `lex_source` returns them: Start 0..0, Ident 0..2, Control 2..3 -/
def witnessSrc : Src := ['é', ')']
def witnessToks : List Tok := [⟨0, 0⟩, ⟨0, 2⟩, ⟨2, 3⟩]

theorem witness_tokens_ok : TokensOk witnessSrc witnessToks :=
  ⟨by decide, by decide⟩

/-- the span reported for the unexpected `)` (token 2) is 2..3: past the end of a 2-character source -/
theorem witness_span : mapSpan witnessToks 2 3 1 = ⟨2, 3, 1⟩ ∧ witnessSrc.length = 2 ∧
    composedLocation witnessSrc (mapSpan witnessToks 2 3 1) = none := by decide

/-- T2 is false of the code as it is: parser spans are BYTE offsets, `compose_location` reads them as
CHARACTER offsets. Witness `é)` – on the implementation: panic `span Some(1:2-3) is out of bounds of the
source (len = 2)` (error_message.rs, `composed`). -/
theorem parser_span_ok_counterexample : ¬ parser_span_ok := by
  intro h
  have := h witnessSrc witnessToks 2 3 1 witness_tokens_ok (by decide) (by decide) (by decide)
  have hs : ¬ SpanOk witnessSrc (mapSpan witnessToks 2 3 1) := by decide
  exact hs this.1

theorem tokens_start_le_stop {s : Src} {toks : List Tok} (h : TokensOk s toks) {i k : Nat} {t u : Tok}
    (hik : i ≤ k) (ht : toks[i]? = some t) (hu : toks[k]? = some u) : t.start ≤ u.stop := by
  have hi := (List.getElem?_eq_some_iff.mp ht)
  have hk := (List.getElem?_eq_some_iff.mp hu)
  obtain ⟨hi1, hi2⟩ := hi
  obtain ⟨hk1, hk2⟩ := hk
  have ht' := h.each t (by rw [← hi2]; exact List.getElem_mem _)
  have hu' := h.each u (by rw [← hk2]; exact List.getElem_mem _)
  by_cases heq : i = k
  · subst heq; rw [hi2] at hk2; subst hk2; exact ht'.1
  · have := (List.pairwise_iff_getElem.mp h.ordered) i k hi1 hk1 (by omega)
    rw [hi2, hk2] at this
    omega

/-- T2, proved part: a NON-EMPTY token range whose text up to the span end is ASCII. -/
theorem parser_span_ok_partial (s : Src) (toks : List Tok) (i j sid : Nat)
    (htok : TokensOk s toks) (hij : i < j) (hj : j ≤ toks.length)
    (hascii : asciiPrefix s (mapSpan toks i j sid).stop) :
    ParserSpanOkAt s toks i j sid := by
  have hi : i < toks.length := by omega
  have hj1 : j - 1 < toks.length := by omega
  have ht : toks[i]? = some toks[i] := List.getElem?_eq_getElem hi
  have hu : toks[j - 1]? = some toks[j - 1] := List.getElem?_eq_getElem hj1
  have hsp : mapSpan toks i j sid = ⟨toks[i].start, toks[j - 1].stop, sid⟩ := by
    simp [mapSpan, ht, hu]
  have hle := tokens_start_le_stop htok (by omega : i ≤ j - 1) ht hu
  have hu' := htok.each toks[j - 1] (List.getElem_mem _)
  have hstopB := boundary_le_byteLen s _ hu'.2.2
  rw [hsp] at hascii
  have c2 : charOfByte s toks[j - 1].stop = some toks[j - 1].stop := charOfByte_ascii hascii (Nat.le_refl _) hstopB
  have c1 : charOfByte s toks[i].start = some toks[i].start := charOfByte_ascii hascii hle (by omega)
  have hlen := (charOfByte_some c2).1
  unfold ParserSpanOkAt
  rw [hsp]
  refine ⟨⟨hle, hlen⟩, ⟨_, _, ht, hu, c1, c2⟩, ?_⟩
  obtain ⟨a, ha, hap⟩ := lineCol_isPos s toks[i].start (by omega)
  obtain ⟨b, hb, hbp⟩ := lineCol_isPos s toks[j - 1].stop hlen
  exact ⟨⟨a, b⟩, by simp [composeLocation, ha, hb], hap, hbp⟩

-- non-vacuity of the partial theorem: `a )` (tokens Start, Ident 0..1, Control 2..3), error on token 2
example : TokensOk ['a', ' ', ')'] [⟨0, 0⟩, ⟨0, 1⟩, ⟨2, 3⟩] := ⟨by decide, by decide⟩
example : asciiPrefix ['a', ' ', ')'] (mapSpan [⟨0, 0⟩, ⟨0, 1⟩, ⟨2, 3⟩] 2 3 1).stop := by
  intro c hc; simp [mapSpan] at hc; rcases hc with rfl | rfl | rfl <;> decide
example : composeLocation ['a', ' ', ')'] (mapSpan [⟨0, 0⟩, ⟨0, 1⟩, ⟨2, 3⟩] 2 3 1) = some ⟨(0, 2), (0, 3)⟩ := by decide

/-- (i) an EMPTY token range `i = j` between two tokens separated by blank text gives `start > end`
(`end` comes from token `i - 1`, `start` from token `i`) – even in a pure ASCII source. Whether chumsky ever
reports such a range is observed by the correspondence run (C13 suite `impl-property`). -/
theorem mapSpan_empty_range_inverted :
    ∃ (s : Src) (toks : List Tok) (i : Nat), TokensOk s toks ∧ i ≤ toks.length ∧ 0 < i ∧
      (∀ c ∈ s, utf8Width c = 1) ∧ ¬ SpanOk s (mapSpan toks i i 1) :=
  ⟨['a', ' ', ')'], [⟨0, 0⟩, ⟨0, 1⟩, ⟨2, 3⟩], 2, ⟨by decide, by decide⟩, by decide, by decide,
    by intro c hc; simp at hc; rcases hc with rfl | rfl | rfl <;> decide, by decide⟩

/-- (ii) for the range at the end of the input (`i = j = len`, "found end of input") `start` falls back to 0:
the reported span is the WHOLE text up to the last token, not the end of the input. -/
theorem mapSpan_at_end_of_input (toks : List Tok) (sid : Nat) (u : Tok)
    (h : toks[toks.length - 1]? = some u) :
    mapSpan toks toks.length toks.length sid = ⟨0, u.stop, sid⟩ := by
  simp [mapSpan, h]

/-! ## T3 spans inside s- and f-strings -/

/-- where the inner text `a..b` (byte offsets into the body) of an interpolated string really is, when the
token starts at byte `tokStart`: after the prefix letter and ALL `nq` opening quotes. -/
def interpTrue (tokStart nq a b sid : Nat) : Span := ⟨tokStart + 1 + nq + a, tokStart + 1 + nq + b, sid⟩

/-- what the code reports: `interpolation::parse(string, span + 2)` then `span_base.start + inner` -/
def interpReported (tokStart tokStop a b sid : Nat) : Span :=
  interpRebase (interpBase ⟨tokStart, tokStop, sid⟩) a b

/-- T3, full statement: for every number of opening quotes the reported span is the true one
(identity body: no escape sequence before the position). -/
def interp_span_ok : Prop :=
  ∀ (tokStart tokStop nq a b sid : Nat), 0 < nq → interpReported tokStart tokStop a b sid = interpTrue tokStart nq a b sid

/-- the reported inner span is right exactly for one opening quote -/
theorem interp_span_iff (tokStart tokStop nq a b sid : Nat) :
    interpReported tokStart tokStop a b sid = interpTrue tokStart nq a b sid ↔ nq = 1 := by
  simp only [interpReported, interpRebase, interpBase, Span.add, interpTrue, Span.mk.injEq]
  constructor
  · rintro ⟨h1, _, _⟩; omega
  · intro h; subst h; exact ⟨by omega, by omega, trivial⟩

theorem interp_span_ok_partial (tokStart tokStop a b sid : Nat) :
    interpReported tokStart tokStop a b sid = interpTrue tokStart 1 a b sid :=
  (interp_span_iff tokStart tokStop 1 a b sid).mpr rfl

/-- T3 is false for multi-quote strings: `s"""{a b}"""` – the unexpected blank is body bytes 2..3, true span
6..7 of the token, reported 4..5 (the `{`). Observed on the implementation
(`from t | select s"""{a b}"""` reports 20..21 instead of 22..23). -/
theorem interp_span_ok_counterexample : ¬ interp_span_ok := by
  intro h
  have := (interp_span_iff 0 11 3 2 3 1).mp (h 0 11 3 2 3 1 (by decide))
  omega

/-- the same on concrete text: the reported span of the 3-quote token quotes `{`, the true one the blank -/
theorem interp_multiquote_text :
    let tok := interpToken 's' '"' 3 ['{', 'a', ' ', 'b', '}']
    sliceBytes tok (interpReported 0 11 2 3 1).start (interpReported 0 11 2 3 1).stop = some ['{'] ∧
    sliceBytes tok (interpTrue 0 3 2 3 1).start (interpTrue 0 3 2 3 1).stop = some [' '] ∧
    sliceBytes (interpToken 's' '"' 1 ['{', 'a', ' ', 'b', '}']) (interpReported 0 7 2 3 1).start (interpReported 0 7 2 3 1).stop = some [' '] := by
  decide

/-- second source of shift: the inner offsets count the UNESCAPED value. With the raw body `\t{a b}`
(7 characters) the value is `<TAB>{a b}` (6 characters); the blank is value bytes 3..4 but raw bytes 4..5, so even
with one quote the reported span quotes `a`. Observed: `from t | select s"\t{a b}"` reports 21..22 (`a`). -/
theorem interp_span_escape_counterexample :
    let raw := ['\\', 't', '{', 'a', ' ', 'b', '}']
    let tok := interpToken 's' '"' 1 raw
    sliceBytes tok (interpReported 0 9 3 4 1).start (interpReported 0 9 3 4 1).stop = some ['a'] ∧
    sliceBytes raw 4 5 = some [' '] := by
  decide

/-! ## T4 several files -/

theorem find_rev_range (p : Nat → Bool) (n k : Nat) (hk : k < n) (hp : p k = true)
    (hgt : ∀ m, k < m → m < n → p m = false) : (List.range n).reverse.find? p = some k := by
  induction n with
  | zero => omega
  | succ n ih =>
    rw [List.range_succ, List.reverse_append]
    simp only [List.reverse_cons, List.reverse_nil, List.nil_append, List.singleton_append, List.find?_cons]
    by_cases hkn : k = n
    · subst hkn; simp [hp]
    · have : p n = false := hgt n (by omega) (by omega)
      simp only [this]
      exact ih (by omega) (fun m h1 h2 => hgt m h1 (by omega))

theorem find_last_index {α : Type} [DecidableEq α] (l : List α) (k : Nat) (hk : k < l.length)
    (hnd : l.Nodup) :
    (List.range l.length).reverse.find? (fun m => l[m]? = some l[k]) = some k := by
  apply find_rev_range _ _ _ hk
  · simp [List.getElem?_eq_getElem hk]
  · intro m hkm hm
    have := (List.pairwise_iff_getElem.mp hnd) k m hk hm hkm
    simp only [List.getElem?_eq_getElem hm, decide_eq_false_iff_not, Option.some.injEq]
    exact fun h => this h.symm

/-- T4. With distinct paths: file number `k` of the list given to `SourceTree::new` is stamped with id `k + 1`
(so are the spans of every error raised while lexing/parsing it, in whatever order `linearize_tree` visits the
files), `source_ids` maps that id back to the file's own path, and `composed` measures the span against that
file's own text. -/
theorem multi_file {P : Type} [DecidableEq P] (t : Tree P) (k : Nat) (hk : k < t.files.length)
    (hnd : (t.files.map (·.1)).Nodup) :
    t.idOf t.files[k].1 = some (k + 1) ∧
    t.sourceIds (k + 1) = some t.files[k].1 ∧
    t.textOf (k + 1) = some t.files[k].2 := by
  have hk' : k < (t.files.map (·.1)).length := by simpa using hk
  refine ⟨?_, ?_, ?_⟩
  · unfold Tree.idOf
    have := find_last_index (t.files.map (·.1)) k hk' hnd
    simp only [List.length_map, List.getElem?_map, List.getElem_map] at this
    rw [this]; rfl
  · simp [Tree.sourceIds, List.getElem?_eq_getElem hk]
  · have hs : t.sourceIds (k + 1) = some t.files[k].1 := by
      simp [Tree.sourceIds, List.getElem?_eq_getElem hk]
    simp only [Tree.textOf, hs, Tree.sources]
    -- the only binding of that path is the file itself
    have hfind : t.files.reverse.find? (fun f => decide (f.1 = t.files[k].1)) = some t.files[k] := by
      rw [List.find?_eq_some_iff_append]
      refine ⟨by simp, ?_⟩
      have hsplit : t.files = t.files.take k ++ t.files[k] :: t.files.drop (k + 1) := by
        simp
      refine ⟨(t.files.drop (k + 1)).reverse, (t.files.take k).reverse, ?_, ?_⟩
      · conv => lhs; rw [hsplit]
        simp
      · intro f hf
        simp only [List.mem_reverse] at hf
        obtain ⟨m, hm, rfl⟩ := List.mem_iff_getElem.mp hf
        simp only [List.getElem_drop, Bool.not_eq_true', decide_eq_false_iff_not]
        intro heq
        have hm2 : k + 1 + m < t.files.length := by simp at hm; omega
        have h1 : (t.files.map (·.1))[k + 1 + m]'(by simpa using hm2) = (t.files.map (·.1))[k]'hk' := by
          simpa using heq
        have := (List.pairwise_iff_getElem.mp hnd) k (k + 1 + m) hk' (by simpa using hm2) (by omega)
        exact this h1.symm
    rw [hfind]; rfl

-- non-vacuity: two files, the error is in the second
example : (⟨[("Main", ['a']), ("lib", ['é', ')'])]⟩ : Tree String).textOf 2 = some ['é', ')'] := by decide
example : (⟨[("Main", ['a']), ("lib", ['é', ')'])]⟩ : Tree String).idOf "lib" = some 2 := by decide

end Props.C13
