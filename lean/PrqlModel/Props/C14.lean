/-
C14  Formatting preserves the program and is idempotent.

Tables (regenerated on every run): Gen/Fmt (codegen/ast.rs, pr/ident.rs, lexer/lr.rs shapes), Gen/Pratt (parser/expr.rs), Gen/Lex.
-/
import PrqlModel.Lemmas.Pratt
import PrqlModel.Model.Fmt
namespace Props.C14
open Gen.Pratt Gen.Fmt Model.PExpr Model.Pratt Model.Fmt Lemmas.Pratt PrecU

/-! ## T1  the formatter's parentheses against the Pratt parser -/

/-- "whenever the formatter omits parentheses the Pratt parser regroups the same way": decided over all (parent, side, child)
triples of the two EXTRACTED tables -/
theorem fmt_compat : Compat prattTbl fmtNp :=
  compat_of_compatB BinOp.all UnOp.all binop_mem_all unop_mem_all _ _ (by decide)

/-- every compound operand of a unary operator is parenthesised (unary/unary and unary/binary adjacency) -/
theorem fmt_unary_operand (u : UnOp) (s : Bool) (c : Node BinOp UnOp) : fmtNp (.u u) s c = true := by
  cases c with
  | b o => cases o <;> rfl
  | u v => rfl

/-- T1: for EVERY operator tree (any depth), parsing the formatter's token sequence gives the tree back -/
theorem fmt_parse_roundtrip (t : PTree) : parseToks ((pr fmtNp t).map ofPTok) = some (toSExpr t) :=
  parseToks_pr fmtNp fmt_compat fmt_unary_operand t

/-- `can_bind_left` covers every unary operator whose token is also a binary operator token: after an unbound expression
(function-call arguments) exactly those must be parenthesised -/
theorem can_bind_left_complete : ∀ u : UnOp, (binOfTok u.tok).isSome = canBindLeft u := by
  intro u; cases u <;> decide

/-! ## T4  idempotence on the operator fragment -/
/-- formatting, parsing, formatting again yields the same tokens (every operator tree, any depth) -/
theorem fmt_idempotent (t : PTree) :
    (parseAll prattTbl (pr fmtNp t)).map (pr fmtNp) = some (pr fmtNp t) := by
  rw [roundtrip_all fmt_compat t]; rfl

-- the formatter does print parentheses where the parser needs them, and none elsewhere (non-vacuity)
example : renderF (pr fmtNp (.bin .Sub (.leaf (.col 0)) (.bin .Sub (.leaf (.col 1)) (.un .Neg (.un .Neg (.leaf (.col 2)))))))
    = ['a', ' ', '-', ' ', '(', 'b', ' ', '-', ' ', '-', '(', '-', 'c', ')', ')'] := by decide
example : renderF (pr fmtNp (.bin .Pow (.leaf (.col 0)) (.bin .Pow (.leaf (.col 1)) (.leaf (.col 2)))))
    = ['a', ' ', '*', '*', ' ', 'b', ' ', '*', '*', ' ', 'c'] := by decide

/-! ## T2  literals: `lex (display lit) = lit` -/
/-- T2 (full statement): every literal the lexer can produce is printed as a text that lexes back to it -/
def LiteralRoundtrip : Prop :=
  ∀ (l : Model.Lex.Lit) (txt : List Char), lexLitDisplay l = some txt → Model.Lex.literal txt = some (l, [])

/-- FALSE: the string consisting of a single quote, `a`, a double quote is printed with a four-quote run in front,
which lexes as the empty string followed by more text -/
theorem literal_roundtrip_string_counterexample : ¬ LiteralRoundtrip := by
  intro h
  have := h (.string ['\'', 'a', '"']) _ rfl
  revert this; decide

theorem literal_display_mixed_quotes :
    lexLitDisplay (.string ['\'', 'a', '"']) = some ['\'', '\'', '\'', '\'', 'a', '"', '\'', '\'', '\''] := by decide

/-- FALSE for floats as well: `1.0` is printed `1` and `2.50` is printed `2.5` -/
theorem literal_roundtrip_float_counterexample :
    lexLitDisplay (.float ['1', '.', '0']) = some ['1'] ∧
    Model.Lex.literal ['1'] = some (.integer 1, []) ∧
    lexLitDisplay (.float ['2', '.', '5', '0']) = some ['2', '.', '5'] := by decide

/-- partial: null and the booleans -/
theorem literal_roundtrip_null_bool :
    Model.Lex.literal (litDisplay .null) = some (.null, []) ∧
    Model.Lex.literal (litDisplay (.bool true)) = some (.boolean true, []) ∧
    Model.Lex.literal (litDisplay (.bool false)) = some (.boolean false, []) := by decide

/-- partial: integers (all of 0..299, and the largest one) -/
theorem literal_roundtrip_int_bounded :
    (List.range 300).all (fun n => Model.Lex.literal (litDisplay (.int n)) == some (.integer n, [])) = true ∧
    Model.Lex.literal (litDisplay (.int 9223372036854775807)) = some (.integer 9223372036854775807, []) := by
  constructor <;> decide +kernel

/-- partial: floats `i.f` whose last fraction digit is not 0 (all i < 30, a selection of fractions) -/
theorem literal_roundtrip_float_bounded :
    (List.range 30).all (fun i => [[1], [2], [5], [9], [0, 1], [0, 5], [1, 1], [2, 5], [7, 5], [1, 2, 5]].all fun f =>
      let txt := natDigits i ++ ['.'] ++ f.map digitChar
      lexLitDisplay (.float txt) == some txt && Model.Lex.literal txt == some (.float txt, [])) = true := by
  decide +kernel

/-- characters that `escape_all_except_quotes` leaves alone and that are not the double quote or the backslash -/
def plainChar (c : Char) : Bool := 0x20 ≤ c.toNat && c.toNat ≤ 0x7e && c != '"' && c != '\\'

theorem plain_facts (c : Char) (h : plainChar c = true) :
    0x20 ≤ c.toNat ∧ c.toNat ≤ 0x7e ∧ c ≠ '"' ∧ c ≠ '\\' := by
  simp only [plainChar, Bool.and_eq_true, decide_eq_true_eq, bne_iff_ne, ne_eq] at h
  exact ⟨h.1.1.1, h.1.1.2, h.1.2, h.2⟩

theorem escape_plain (s : List Char) (h : s.all plainChar = true) : escapeAllExceptQuotes s = s := by
  induction s with
  | nil => rfl
  | cons c r ih =>
    simp only [List.all_cons, Bool.and_eq_true] at h
    obtain ⟨h20, h7e, hq, hb⟩ := plain_facts c h.1
    have ih' := ih h.2
    simp only [escapeAllExceptQuotes, List.flatMap_cons] at ih' ⊢
    rw [ih']
    by_cases hs : c = '\''
    · simp [hs]
    · have h1 : c ≠ '\t' := by intro e; subst e; revert h20; decide
      have h2 : c ≠ '\r' := by intro e; subst e; revert h20; decide
      have h3 : c ≠ '\n' := by intro e; subst e; revert h20; decide
      simp [escapeDefault, hq, hb, hs, h1, h2, h3, h20, h7e]

theorem contains_dquote_false (s : List Char) (h : s.all plainChar = true) : s.contains '"' = false := by
  induction s with
  | nil => rfl
  | cons c r ih =>
    simp only [List.all_cons, Bool.and_eq_true] at h
    obtain ⟨_, _, hq, _⟩ := plain_facts c h.1
    have := ih h.2
    simp only [List.contains_cons, this, Bool.or_false, beq_eq_false_iff_ne, ne_eq]
    exact fun e => hq e.symm

open Model.Lex in
/-- lexing the content of a `"`-delimited string of plain characters -/
theorem repeat_plain (s rest : List Char) (h : s.all plainChar = true) :
    ∀ n, s.length + 1 ≤ n → repeatF (contentChar '"' 1 true) n (s ++ '"' :: rest) = some (s, '"' :: rest) := by
  induction s with
  | nil =>
    intro n hn
    obtain ⟨n, rfl⟩ : ∃ k, n = k + 1 := ⟨n - 1, by simp at hn; omega⟩
    simp [repeatF, contentChar, stripQuotes]
  | cons c r ih =>
    intro n hn
    obtain ⟨n, rfl⟩ : ∃ k, n = k + 1 := ⟨n - 1, by simp at hn; omega⟩
    simp only [List.all_cons, Bool.and_eq_true] at h
    obtain ⟨_, _, hq, hb⟩ := plain_facts c h.1
    have := ih h.2 n (by simp at hn ⊢; omega)
    simp [repeatF, contentChar, stripQuotes, hq, hb, this]

open Model.Lex in
/-- T2 (partial): a non-empty string of printable ASCII characters without `"` and `\` (single quotes allowed) is printed
between double quotes and lexes back to itself -/
theorem literal_roundtrip_string_partial (s : List Char) (h : s.all plainChar = true) (hne : s ≠ []) :
    Model.Lex.literal (litDisplay (.str s)) = some (.string s, []) := by
  have hd : litDisplay (.str s) = '"' :: (s ++ ['"']) := by
    simp only [litDisplay, escape_plain s h, quoteString, contains_dquote_false s h, Bool.not_false, if_true]
    simp
  rw [hd]
  obtain ⟨c, r, rfl⟩ : ∃ c r, s = c :: r := by
    cases s with
    | nil => exact absurd rfl hne
    | cons c r => exact ⟨c, r, rfl⟩
  have hc : c ≠ '"' := by
    simp only [List.all_cons, Bool.and_eq_true] at h
    exact (plain_facts c h.1).2.2.1
  have hrep : repeatF (contentChar '"' 1 true) (r.length + 1 + 1 + 1) (c :: (r ++ ['"'])) = some (c :: r, ['"']) := by
    simpa using repeat_plain (c :: r) [] h (r.length + 1 + 1 + 1) (by simp)
  have hq : multiQuoted '"' true ('"' :: c :: (r ++ ['"'])) = some (c :: r, []) := by
    unfold multiQuoted
    have e1 : ('"' :: c :: (r ++ ['"'])).takeWhile (· == '"') = ['"'] := by simp [hc]
    have e2 : ('"' :: c :: (r ++ ['"'])).dropWhile (· == '"') = c :: (r ++ ['"']) := by simp [hc]
    simp only [e1, e2]
    simp [hrep, stripQuotes]
  simp only [List.cons_append]
  simp [literal, orElse, radixNumber, stripPrefix, Model.Lex.string, quotedString, hq, Gen.Lex.binPrefix, Gen.Lex.hexPrefix,
    Gen.Lex.octPrefix]

example : Model.Lex.literal (litDisplay (.str ['i', 't', '\'', 's', ' ', 'o', 'k'])) = some (.string ['i', 't', '\'', 's', ' ', 'o', 'k'], []) :=
  literal_roundtrip_string_partial _ (by decide) (by decide)

/-! ## T3  identifiers -/
/-- T3 (full statement): an identifier expression is printed as a text that lexes back to that identifier -/
def IdentRoundtrip : Prop := ∀ s : List Char, lexIdent (displayIdentPart s) = some s

/-- FALSE: the identifier `case` (written between backticks) is printed bare and lexes as a keyword; likewise `true`
(a literal) and `$p` (a parameter) -/
theorem ident_roundtrip_counterexample : ¬ IdentRoundtrip := by
  intro h
  have := h ['c', 'a', 's', 'e']
  revert this; decide

theorem ident_display_keywords_bare :
    Gen.Lex.keywords.all (fun k => displayIdentPart k == k && lexIdent (displayIdentPart k) == none) = true ∧
    lexIdent (displayIdentPart ['t', 'r', 'u', 'e']) = none ∧ lexIdent (displayIdentPart ['$', 'p']) = none := by decide

/-- the formatter's own keyword set (aliases, parameters) misses lexer keywords -/
def FmtKeywordsComplete : Prop := ∀ k ∈ Gen.Lex.keywords, k ∈ Gen.Fmt.keywords
theorem fmt_keywords_counterexample : ¬ FmtKeywordsComplete := by unfold FmtKeywordsComplete; decide
theorem fmt_keywords_missing :
    Gen.Lex.keywords.filter (fun k => !Gen.Fmt.keywords.contains k) = [['i', 'm', 'p', 'o', 'r', 't'], ['e', 'n', 'u', 'm']] := by decide
/-- hence the alias `import` is printed bare -/
theorem alias_import_bare : writeIdentPart ['i', 'm', 'p', 'o', 'r', 't'] = ['i', 'm', 'p', 'o', 'r', 't'] := by decide

theorem takeWhile_backtick : ∀ s : List Char, s.all (· != '`') = true → (s ++ ['`']).takeWhile (· != '`') = s
  | [], _ => by simp
  | c :: r, h => by
    simp only [List.all_cons, Bool.and_eq_true] at h
    simp [List.takeWhile_cons, h.1, takeWhile_backtick r h.2]
theorem dropWhile_backtick : ∀ s : List Char, s.all (· != '`') = true → (s ++ ['`']).dropWhile (· != '`') = ['`']
  | [], _ => by simp
  | c :: r, h => by
    simp only [List.all_cons, Bool.and_eq_true] at h
    simp [List.dropWhile_cons, h.1, dropWhile_backtick r h.2]

/-- T3 (partial): a name between backticks lexes back to itself, whatever it contains except a backtick -/
theorem backtick_roundtrip (s : List Char) (h : s.all (· != '`') = true) :
    Model.Lex.identPart ('`' :: (s ++ ['`'])) = some (s, []) := by
  have hs : Model.Lex.isIdentStart '`' = false := by decide
  simp [Model.Lex.identPart, hs, takeWhile_backtick s h, dropWhile_backtick s h]

/-- T3 (partial, bounded): every name of at most 3 characters over {a, B, 1, _, $, space, -} that is printed bare and does not
start with `$` lexes back to itself; the others are printed between backticks -/
def smallAlphabet : List Char := ['a', 'B', '1', '_', '$', ' ', '-']
def names3 : List (List Char) :=
  smallAlphabet.map (fun a => [a]) ++ smallAlphabet.flatMap (fun a => smallAlphabet.map fun b => [a, b]) ++
    smallAlphabet.flatMap (fun a => smallAlphabet.flatMap fun b => smallAlphabet.map fun c => [a, b, c])
theorem ident_roundtrip_partial_bounded :
    names3.all (fun s =>
      if displayIdentPart s == s then (s.head? == some '$') || lexIdent s == some s
      else displayIdentPart s == '`' :: (s ++ ['`'])) = true := by decide +kernel

end Props.C14
