/-
C14  Formatting preserves the program and is idempotent.

Tables (regenerated on every run): Gen/Fmt (codegen/ast.rs, pr/ident.rs, lexer/lr.rs shapes), Gen/Pratt (parser/expr.rs), Gen/Lex.
-/
import PrqlModel.Lemmas.Pratt
import PrqlModel.Model.Fmt
namespace Props.C14
open Gen.Pratt Gen.Fmt Model.PExpr Model.Pratt Model.Fmt Lemmas.Pratt PrecU

/-! ## T1  the formatter's parentheses against the Pratt parser -/

/-- "whenever the formatter omits parentheses the Pratt parser regroups the same way": decided over all (parent, side, child)
triples of the two EXTRACTED tables -/
theorem fmt_compat : Compat prattTbl fmtNp :=
  compat_of_compatB BinOp.all UnOp.all binop_mem_all unop_mem_all _ _ (by decide)

/-- every compound operand of a unary operator is parenthesised (unary/unary and unary/binary adjacency) -/
theorem fmt_unary_operand (u : UnOp) (s : Bool) (c : Node BinOp UnOp) : fmtNp (.u u) s c = true := by
  cases c with
  | b o => cases o <;> rfl
  | u v => rfl

/-- T1: for EVERY operator tree (any depth), parsing the formatter's token sequence gives the tree back -/
theorem fmt_parse_roundtrip (t : PTree) : parseToks ((pr fmtNp t).map ofPTok) = some (toSExpr t) :=
  parseToks_pr fmtNp fmt_compat fmt_unary_operand t

/-- `can_bind_left` covers every unary operator whose token is also a binary operator token: after an unbound expression
(function-call arguments) exactly those must be parenthesised -/
theorem can_bind_left_complete : ∀ u : UnOp, (binOfTok u.tok).isSome = canBindLeft u := by
  intro u; cases u <;> decide

end Props.C14
