/-
C15  Staged compilation through JSON equals one-shot compile.
Theorems over Model/Json (JSON text) and Model/SerdeModel (the encodings), with the serde shapes of the
real types regenerated into Gen/Serde on every run.
-/
import PrqlModel.Model.SerdeModel
namespace Props.C15
open Model Model.Json Model.Dec Model.Serde

/-! ## T1  spans -/

theorem splitOnce_append (c : Char) : ∀ (a b : Str), c ∉ a → splitOnce c (a ++ c :: b) = some (a, b)
  | [], b, _ => by simp [splitOnce]
  | x :: a, b, h => by
    have hx : x ≠ c := fun e => h (by simp [e])
    have ha : c ∉ a := fun e => h (by simp [e])
    simp [splitOnce, hx, splitOnce_append c a b ha]

theorem not_mem_digits {c : Char} (hc : c.isDigit = false) (n : Nat) : c ∉ natDigits n := by
  intro h
  have := natDigits_all_digit n
  rw [List.all_eq_true] at this
  rw [this c h] at hc; cases hc

theorem parseUnsigned_natDigits (bound n : Nat) (h : n < bound) :
    parseUnsigned bound (natDigits n) = some n := by
  have hall := natDigits_all_digit n
  have hr := readNat_natDigits n
  unfold parseUnsigned
  cases hd : natDigits n with
  | nil => exact absurd hd (natDigits_ne_nil n)
  | cons c r =>
    rw [hd] at hall hr
    simp only [List.all_cons, Bool.and_eq_true] at hall
    have hc : c ≠ '+' := by intro e; subst e; exact absurd hall.1 (by decide)
    simp [hc, hr, h]

/-- **T1.** every span whose fields fit the Rust field types is read back from its text;
this contains the decimal print/read round trip of every natural number (`readNat_natDigits`). -/
theorem span_json_roundtrip (s : Span) (h : s.wf = true) : parseSpan (showSpan s) = some s := by
  simp only [Span.wf, Bool.and_eq_true, decide_eq_true_eq] at h
  obtain ⟨⟨h1, h2⟩, h3⟩ := h
  unfold parseSpan showSpan
  rw [splitOnce_append ':' _ _ (not_mem_digits (by decide) _)]
  simp only [parseUnsigned_natDigits _ _ h1]
  rw [splitOnce_append '-' _ _ (not_mem_digits (by decide) _)]
  simp only [parseUnsigned_natDigits _ _ h2, parseUnsigned_natDigits _ _ h3]

/-- without the width limits of `u16` / `usize` the statement would be false: the reader rejects -/
theorem span_width_matters : parseSpan (showSpan ⟨65536, 0, 0⟩) = none := by decide

theorem span_value_roundtrip (s : Span) (h : s.wf = true) : decodeSpan (encodeSpan s) = some s :=
  span_json_roundtrip s h

/-- … and through the JSON text itself -/
theorem span_text_roundtrip (s : Span) (h : s.wf = true) :
    (Json.parse (Json.print (encodeSpan s))).bind decodeSpan = some s := by
  rw [Json.parse_print _ (by rfl)]; exact span_json_roundtrip s h

example : parseSpan (showSpan ⟨1, 24, 18446744073709551615⟩) = some ⟨1, 24, 18446744073709551615⟩ := by decide
example : showSpan ⟨1, 24, 29⟩ = ['1', ':', '2', '4', '-', '2', '9'] := by decide

/-! ## T2  identifiers -/

theorem unStrList_strList : ∀ l : List Str, unStrList (strList l) = some l
  | [] => rfl
  | s :: r => by simp [strList, unStrList, unStrList_strList r]

theorem fromPath_snoc : ∀ (p : List Str) (n : Str), fromPath (p ++ [n]) = some ⟨p, n⟩
  | [], n => rfl
  | [a], n => by simp [fromPath]
  | a :: b :: r, n => by
    have := fromPath_snoc (b :: r) n
    simp only [List.cons_append] at this ⊢
    simp [fromPath, this]

/-- **T2.** an identifier is read back from its sequence encoding -/
theorem ident_json_roundtrip (i : Ident) : decodeIdent (encodeIdent i) = some i := by
  simp [decodeIdent, encodeIdent, unStrList_strList, fromPath_snoc]

theorem ident_text_roundtrip (i : Ident) :
    (Json.parse (Json.print (encodeIdent i))).bind decodeIdent = some i := by
  have hw : ∀ l : List Str, wfList (strList l) = true := by
    intro l; induction l with
    | nil => rfl
    | cons s r ih => simp [strList, wfList, wf, ih]
  rw [Json.parse_print _ (by simp [encodeIdent, wf, hw])]; exact ident_json_roundtrip i

/-- the empty sequence is not an identifier (`Ident::from_path` would `unwrap` a `None`) -/
theorem ident_empty_rejected : decodeIdent (.arr .nil) = none := rfl

end Props.C15
