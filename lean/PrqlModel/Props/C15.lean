/-
C15  Staged compilation through JSON equals one-shot compile.

Theorems over Model/Json (JSON text), Model/SerdeModel (the encodings and the staged API) and the serde shapes
of the real types regenerated into Gen/Serde on every run.  Helper lemmas are in Lemmas/Serde.lean.
-/
import PrqlModel.Lemmas.Serde
namespace Props.C15
open Model Model.Json Model.Serde Gen.Serde

/-! ## JSON text (ours): reading back what was written -/

/-- every JSON value is read back from its compact text (`wf`: opaque number text is a JSON number token) -/
theorem json_text_roundtrip (j : Json) (h : j.wf = true) : Json.parse (Json.print j) = some j :=
  Json.parse_print j h

/-! ## T1 / T2  the hand-written encodings -/

/-- **T1.** every span whose fields fit `u16` / `usize` is read back from `"id:start-end"`; contains the
decimal print/read round trip of every natural number (`Model.Dec.readNat_natDigits`). -/
theorem span_json_roundtrip (s : Span) (h : s.wf = true) : parseSpan (showSpan s) = some s := span_rt s h

/-- the width side condition is needed: the reader rejects what does not fit -/
theorem span_width_needed : parseSpan (showSpan ⟨65536, 0, 0⟩) = none := span_width_matters

example : (⟨1, 24, 29⟩ : Span).wf = true ∧ showSpan ⟨1, 24, 29⟩ = ['1', ':', '2', '4', '-', '2', '9'] := by decide

/-- **T2.** an identifier is read back from its sequence encoding -/
theorem ident_json_roundtrip (i : Ident) : decodeIdent (encodeIdent i) = some i := ident_rt i

theorem span_through_text (s : Span) (h : s.wf = true) :
    (Json.parse (Json.print (encodeSpan s))).bind decodeSpan = some s := span_text_roundtrip s h
theorem ident_through_text (i : Ident) :
    (Json.parse (Json.print (encodeIdent i))).bind decodeIdent = some i := ident_text_roundtrip i

/-! ## the extracted serde shapes (Gen/Serde): conditions every derived type must meet -/

/-- a flattened field must be an enum none of whose variant names is one of the struct's own keys -/
def flattenOk (t : TypeInfo) : Bool :=
  t.fields.all fun f => !f.flatten ||
    match find f.tyRef with
    | some e => e.kind == .enum && e.variantNames.all (fun v => !(t.ownFieldNames.contains v))
    | none => false

/-- a field that may be left out when writing must be readable when absent -/
def skipOk (t : TypeInfo) : Bool := t.fields.all fun f => f.skip == 0 || f.dflt || f.optional

/-- **key disjointness for every `#[serde(flatten)]` of PR and RQ** (a variant renamed to `span`, `alias`,
`annotations`, … or a new field called like a variant breaks this proof) -/
theorem extracted_flatten_keys_disjoint : types.all flattenOk = true := by decide

/-- every `skip_serializing_if` field is an `Option` or has `#[serde(default)]`: absent decodes to None/default -/
theorem extracted_skip_has_default : types.all skipOk = true := by decide

/-- keys of one object and variant names of one enum are pairwise distinct -/
theorem extracted_names_nodup :
    types.all (fun t => decide ((t.fields.map (·.name)).Nodup) && decide (t.variantNames.Nodup)) = true := by decide

/-- the flattened structs are exactly `pr::Expr` and `pr::Stmt` -/
theorem extracted_flatten_sites :
    (types.filter (fun t => t.fields.any (·.flatten))).map (·.name) = [pr_Expr.name, pr_Stmt.name] := by decide

private def sig (t : TypeInfo) : List (List Char × Bool × Nat × Bool × Bool) :=
  t.fields.map fun f => (f.name, f.flatten, f.skip, f.dflt, f.optional)

/-- the names and attributes the model of Model/SerdeModel.lean uses are the ones in the source
(name, flatten, skip predicate, default, is-Option) -/
theorem model_names_are_extracted :
    sig pr_Expr = [(['k', 'i', 'n', 'd'], true, 0, false, false), (kSpan, false, 1, false, true),
                   (kAlias, false, 1, false, true), (kDoc, false, 1, false, true)] ∧
    sig pr_BinaryExpr = [(kLeft, false, 0, false, false), (kOp, false, 0, false, false), (kRight, false, 0, false, false)] ∧
    sig pr_UnaryExpr = [(kOp, false, 0, false, false), (kExpr, false, 0, false, false)] ∧
    sig pr_FuncCall = [(kName, false, 0, false, false), (kArgs, false, 0, false, false), (kNamedArgs, false, 2, true, false)] ∧
    sig pr_Pipeline = [(kExprs, false, 0, false, false)] ∧
    sig generic_Range_Box_pr_Expr = [(kStart, false, 0, false, true), (kEnd, false, 0, false, true)] ∧
    sig lr_ValueAndUnit = [(kN, false, 0, false, false), (kUnit, false, 0, false, false)] ∧
    lr_Literal.variants = [⟨lNull, .unit⟩, ⟨lInteger, .newtype⟩, ⟨lFloat, .newtype⟩, ⟨lBoolean, .newtype⟩, ⟨lString, .newtype⟩,
      ⟨lRawString, .newtype⟩, ⟨lDate, .newtype⟩, ⟨lTime, .newtype⟩, ⟨lTimestamp, .newtype⟩, ⟨lValueAndUnit, .newtype⟩] ∧
    [tIdent, tLiteral, tTuple, tArray, tPipeline, tRange, tBinary, tUnary, tFuncCall, tParam, tInternal].all
      (fun t => pr_ExprKind.variants.contains ⟨t, .newtype⟩) = true ∧
    pr_BinOp.variants.all (·.shape == .unit) = true ∧ pr_UnOp.variants.all (·.shape == .unit) = true := by
  refine ⟨?_, ?_, ?_, ?_, ?_, ?_, ?_, ?_, ?_, ?_, ?_⟩ <;> decide

/-- the tag of every modelled variant is a real variant name and not one of the real own keys of `pr::Expr` -/
theorem model_tags_disjoint (k : ExprKind) :
    exprOwnKeys.contains (tagOf k) = false ∧ exprKindTags.contains (tagOf k) = true := tag_disjoint k

/-! ## T3  serde's object encoding of the model AST -/

/-- full statement: every value the Rust types admit is read back -/
def ExprJsonRoundtrip : Prop := ∀ x : Expr, x.typed = true → decExpr (encExpr x) = some x

/-- **T3 (proved part).** Every expression without a non-finite float is read back: by mutual structural
induction; the content is `model_tags_disjoint` (the flattened variant key is never taken for one of the
struct's own keys, and is found among the remaining entries) and that an absent optional decodes to `None`. -/
theorem expr_json_roundtrip_partial (x : Expr) (h : x.wf = true) : decExpr (encExpr x) = some x :=
  dec_expr x h _ (Nat.lt_succ_self _)

/-- the float `inf` (what `1e999` lexes to) is written as `null` and not read back -/
def infLiteral : Expr := .mk (.literal (.float .nonFinite)) (some ⟨1, 24, 29⟩) (some ['b']) none

/-- **T3 is false as stated**: the witness is the literal `1e999` -/
theorem expr_json_roundtrip_counterexample : ¬ ExprJsonRoundtrip := by
  intro h
  have h1 := h infLiteral (by decide)
  have h2 : decExpr (encExpr infLiteral) = none := by decide
  rw [h2] at h1; cases h1

/-- … also through the text -/
theorem expr_text_roundtrip (x : Expr) (h : x.wf = true) (hj : (encExpr x).wf = true) :
    (Json.parse (Json.print (encExpr x))).bind decExpr = some x := by
  rw [Json.parse_print _ hj]; exact expr_json_roundtrip_partial x h

/-- non-vacuity: an expression with every modelled node kind and optional fields present and absent -/
def sampleExpr : Expr :=
  .mk (.funcCall (.mk (.ident ⟨[['s', 't', 'd']], ['f']⟩) (some ⟨1, 0, 5⟩) none none)
        (.cons (.mk (.binary (.mk (.literal (.integer (-3))) none none none) ⟨5, by decide⟩
                      (.mk (.unary ⟨0, by decide⟩ (.mk (.literal (.float (.finite ['1', '.', '5']))) none (some ['x']) none)) none none none))
                none none (some ['d', 'o', 'c']))
          (.cons (.mk (.range .none (.some (.mk (.param ['1']) none none none))) none none none)
            (.cons (.mk (.tuple (.cons (.mk (.pipeline .nil) none none none) (.cons (.mk (.array .nil) none none none) .nil))) none none none)
              (.cons (.mk (.literal (.valueAndUnit 2 ['d', 'a', 'y', 's'])) none none none)
                (.cons (.mk (.internal ['a', '.', 'b']) none none none) .nil)))))
        (.cons ['y'] (.mk (.literal .null) none none none) .nil))
      (some ⟨1, 0, 40⟩) (some ['z']) none

example : sampleExpr.wf = true ∧ (encExpr sampleExpr).wf = true := by decide

/-! ## T4  staged chain = one-shot compile -/

/-- what has to hold of a serde codec for a value: it is written as well-formed JSON and read back.
For the real types this is serde's derive semantics (modelled by T3) **and** serde_json's number handling –
the hypothesis that is serde's, not ours. -/
def Codec.RoundTrips {α : Type} (c : Codec α) (a : α) : Prop :=
  (c.encode a).wf = true ∧ c.decode (c.encode a) = some a

theorem codec_text_roundtrip {α Err : Type} (c : Codec α) (e : Err) (a : α) (h : Codec.RoundTrips c a) :
    c.fromText e (c.toText a) = .ok a := by
  simp [Codec.fromText, Codec.toText, Json.parse_print _ h.1, h.2]

/-- **T4.** If the PL the parser produces and the RQ the resolver produces (from that PL) round-trip through
their codecs, the staged chain through JSON text returns exactly what `compile` returns – SQL or error. -/
theorem staged_eq {Src PL RQ Opt Sql Err : Type} (st : Stages Src PL RQ Opt Sql Err) (cpl : Codec PL) (crq : Codec RQ)
    (o : Opt) (s : Src)
    (hpl : ∀ pl, st.prqlToPl s = .ok pl → Codec.RoundTrips cpl pl)
    (hrq : ∀ pl rq, st.prqlToPl s = .ok pl → st.plToRq pl = .ok rq → Codec.RoundTrips crq rq) :
    staged st cpl crq o s = compile st o s := by
  unfold staged compile
  cases h1 : st.prqlToPl s with
  | error e => rfl
  | ok pl =>
    have e1 := codec_text_roundtrip cpl st.jsonErr pl (hpl pl h1)
    cases h2 : st.plToRq pl with
    | error e => simp [bind, Except.bind, e1, h2]
    | ok rq =>
      have e2 := codec_text_roundtrip crq st.jsonErr rq (hrq pl rq h1 h2)
      simp [bind, Except.bind, e1, h2, e2]

/-- the model AST codec -/
def exprCodec : Codec Expr := ⟨encExpr, decExpr⟩

/-- the hypothesis of `staged_eq` is satisfiable: T3 provides it for every finite model expression -/
theorem exprCodec_roundtrips (x : Expr) (h : x.wf = true) (hj : (encExpr x).wf = true) : Codec.RoundTrips exprCodec x :=
  ⟨hj, expr_json_roundtrip_partial x h⟩

example : Codec.RoundTrips exprCodec sampleExpr := exprCodec_roundtrips _ (by decide) (by decide)

/-- without the round-trip hypothesis the conclusion fails: a one-stage "compiler" whose parser yields the
literal `1e999` succeeds one-shot and fails when staged (the model-level image of the finding) -/
theorem staged_eq_needs_roundtrip :
    let st : Stages Unit Expr Expr Unit Unit Unit := ⟨fun _ => .ok infLiteral, .ok, fun _ _ => .ok (), ()⟩
    compile st () () = .ok () ∧ staged st exprCodec exprCodec () () = .error () := by
  intro st
  refine ⟨rfl, ?_⟩
  have h : exprCodec.fromText () (exprCodec.toText infLiteral) = (.error () : Except Unit Expr) := by
    have hp : Json.parse (Json.print (encExpr infLiteral)) = some (encExpr infLiteral) := Json.parse_print _ (by decide)
    have hd : decExpr (encExpr infLiteral) = none := by decide
    simp [Codec.fromText, Codec.toText, exprCodec, hp, hd]
  simp [staged, st, bind, Except.bind, h]

end Props.C15
