/-
C16  Every emitted relational query (RQ) is closed and consistently identified.

`Model.Rq.wfRq` (Model/Rq.lean) is the property as an executable predicate on the decoded RQ document.

T1  lower_inv / lower_wf : every state reachable by the operations of the Lowerer model (Model/Lower.lean) satisfies the
    invariant `Model.Lower.Inv`, and every query the model emits passes `wfRq`.
    What the operations mirror, what they guard and what is not mirrored is stated at the top of Model/Lower.lean.
T2  wf_enables_backend : `wfRq rq` implies the preconditions `AnchorContext::of` / `QueryLoader` / the anchoring code rely on.
Structural lemmas: wfRq_iff, scope_visible_subset_defs, wf_append_transform, wf_defined_before_use.
Non-vacuity: a model run that emits a query with a CTE referenced twice, a join of a sub-pipeline, an append, a window and a
loop; hand-made documents rejected for each clause.
Finding: `emitted_rq_wf_counterexample` - the document the real compiler emits for `from t | sort b | select {a} | take 2`
(and the one for `sort b | aggregate .. | derive {r = row_number this}`) fails the scope clause: a `sort` is carried past
`select` / `aggregate` into the `sort` of later Takes and windows (semantic/resolver/flatten.rs).  `EmittedWf` below is therefore
proved for the model only, whose guard (c) excludes exactly this; the monitor of tools/props/c16.py checks every real RQ
against `wfRq` and lists the classes as known findings (a third one, sort-leaks-into-subpipeline - a `sort` copied into the
pipeline of a join/append argument - was repaired by 147decc, see `leaked_sort_document_rejected`), and reports `wfRqLax` (stale *sort* columns tolerated) next to it.
-/
import PrqlModel.Lemmas.Rq
import PrqlModel.Lemmas.Lower
import PrqlModel.Lemmas.RqBackend
namespace Props.C16
open Model Model.Rq Model.Lower Model.Rq.Backend

deriving instance DecidableEq for Except

/-! ## T1 -/

/-- T1a: the invariant holds in every reachable state -/
theorem lower_inv (ops : List Op) (st : St) (h : run St.init ops = some st) : Inv st :=
  run_inv inv_init h

/-- T1b: `cid.next` is above every cid defined so far and above every cid in `node_mapping`; definitions are unique -/
theorem lower_cid_above (ops : List Op) (st : St) (h : run St.init ops = some st) :
    (∀ c ∈ allDefs st, c < st.nextCid) ∧ (∀ e ∈ st.mapping, ∀ c ∈ e.2.cids, c < st.nextCid) ∧ (allDefs st).Nodup :=
  have hi := lower_inv ops st h
  ⟨hi.core.defs_lt, hi.map_lt, hi.core.defs_nodup⟩

/-- T1c: every mapped cid is defined by a relation under construction or already finished -/
theorem lower_mapping_defined (ops : List Op) (st : St) (h : run St.init ops = some st) :
    ∀ e ∈ st.mapping, ∀ c ∈ e.2.cids, c ∈ allDefs st :=
  (lower_inv ops st h).map_defs

/-- T1: whatever the model of the Lowerer emits is well formed -/
theorem lower_wf (ops : List Op) (rq : RelationalQuery) (h : lower ops = some rq) : wfRq rq = .ok () := by
  unfold lower at h
  split at h
  next st hs => exact finish_wf (lower_inv ops st hs) h
  · cases h

/-- the property-shaped statement about the compiler; proved for the model (`lower_wf`), refuted for the real compiler by
`emitted_rq_wf_counterexample` (a listed finding), monitored on every real RQ by the check -/
def EmittedWf (emit : List Op → Option RelationalQuery) : Prop := ∀ ops rq, emit ops = some rq → wfRq rq = .ok ()

theorem emittedWf_model : EmittedWf lower := lower_wf

/-! ### non-vacuity: a run of the model -/

def cA : RelCol := .single (some ['a'])
def cB : RelCol := .single (some ['b'])
def ref (c : CId) : Expr := .columnRef c
def add (a b : Expr) : Expr := .operator ['a', 'd', 'd'] (.cons a (.cons b .nil))

/--  let x = (from t | derive {c = a + b} | select {a, c})
     from x | join (from x | filter a > 0 | select {a}) (==a) | append x | derive {r = row_number this (window)} | loop (filter ..)  -/
def demoOps : List Op := [
  .declareExtern 0 [cA, cB, .wildcard],
  .beginRelation, .fromTable 10 0 none,                       -- t: a=0 b=1 *=2
  .declareAsColumn 11 (add (ref 0) (ref 1)) none false,        -- c=3
  .declareAsColumn 11 (add (ref 0) (ref 1)) none false,        -- memo hit: nothing happens
  .push (.select [0, 3]),
  .endCte 1 (some ['x']) [(cA, 0), (.single (some ['c']), 3)],
  .beginRelation, .fromTable 20 1 (some ['x']),                -- x: a=4 c=5
  .beginRelation, .fromTable 21 1 none,                        -- x again: a=6 c=7
  .push (.filter (ref 6)), .aliasColumn 22 6,
  .endInlineJoin 23 [(cA, 6)] .inner (.operator ['e', 'q'] (.cons (ref 4) (.cons (ref 8) .nil))),   -- instance a=8
  .appendTable 24 1 none,                                      -- x a third time: 9, 10
  .declareAsColumn 25 (.operator ['r', 'n'] .nil) (some { partition := [4], sort := [{ column := 5 }] }) false,  -- r=11
  .beginLoop, .push (.filter (ref 11)), .declareAsColumn 26 (add (ref 4) (ref 11)) none false, .push (.select [12]), .endLoop,
  .endCte 2 none [(cA, 4), (.single (some ['r']), 11)]
]

example : (lower demoOps).map wfRq = some (.ok ()) := by decide +kernel
example : (lower demoOps).map (fun rq => (rq.tables.length, rq.defs, rq.uses.length)) =
    some (3, [0, 1, 2, 3, 6, 7, 4, 5, 8, 9, 10, 11, 12], 18) := by decide +kernel

/-- the guard (c) at work: `sort b | select {a} | take (sort = [b])` is not a run of the model -/
example : (lower [.declareExtern 0 [cA, cB], .beginRelation, .fromTable 1 0 none, .push (.sort [{ column := 1 }]),
    .push (.select [0]), .push (.take { rangeEnd := some .literal, sort := [{ column := 1 }] }), .endCte 1 none [(cA, 0)]]).isNone = true := by
  decide +kernel
/-- ... while the same program with a visible sort column is -/
example : (lower [.declareExtern 0 [cA, cB], .beginRelation, .fromTable 1 0 none, .push (.sort [{ column := 1 }]),
    .push (.select [0]), .push (.take { rangeEnd := some .literal, sort := [{ column := 0 }] }), .endCte 1 none [(cA, 0)]]).isSome = true := by
  decide +kernel

/-! ## structural lemmas about `wfRq` -/

/-- `wfRq` is the conjunction of its clauses -/
theorem wfRq_iff (rq : RelationalQuery) :
    wfRq rq = .ok () ↔ checkTids rq = .ok () ∧ rq.defs.Nodup ∧ ∀ r ∈ rq.relations, checkRelation r = .ok () :=
  Model.Rq.wfRq_iff rq

/-- whatever a sequence of transforms uses, and whatever is visible after it, was visible before or is defined in it -/
theorem scope_visible_subset_defs (ts : List Transform) (vis v : List CId) (h : scopeL vis ts = .ok v) :
    (∀ c ∈ usesL ts, c ∈ vis ∨ c ∈ defsL ts) ∧ (∀ c ∈ v, c ∈ vis ∨ c ∈ defsL ts) :=
  scopeL_sound ts vis v h

/-- defined before use, positionally: a cid used by the transform at position `pre.length` of an accepted pipeline is defined
by a transform at an earlier position -/
theorem wf_defined_before_use (n : Nat) (pre post : List Transform) (t : Transform)
    (h : checkPipeline n (pre ++ t :: post) = .ok ()) (hne : pre ≠ []) :
    ∀ c ∈ (match t with | .loop _ => [] | .join _ _ _ => [] | t => t.uses), c ∈ defsL pre := by
  cases pre with
  | nil => exact absurd rfl hne
  | cons p0 pre' =>
    cases p0 <;> simp only [List.cons_append, checkPipeline, reduceCtorEq] at h
    next tr =>
      cases hs : scopeL tr.cids (pre' ++ t :: post) with
      | error e => simp [hs] at h
      | ok v =>
        rw [scopeL_append] at hs
        cases h1 : scopeL tr.cids pre' with
        | error e => simp [h1] at hs
        | ok v1 =>
          simp only [h1, scopeL] at hs
          have hv1 := (scopeL_sound pre' _ v1 h1).2
          cases h2 : scopeStep v1 t with
          | error e => simp [h2] at hs
          | ok v2 =>
            have hsub : ∀ c ∈ v1, c ∈ defsL (Transform.from_ tr :: pre') := by
              intro c hc
              simp only [defsL, Transform.defs, List.mem_append]
              exact hv1 c hc
            intro c hc
            apply hsub
            cases t with
            | from_ _ => simp [scopeStep] at h2
            | loop _ => simp at hc
            | join _ _ _ => simp at hc
            | append _ => simp [Transform.uses] at hc
            | compute cc =>
              simp only [scopeStep] at h2
              cases hn : need v1 cc.uses with
              | error e => simp [hn] at h2
              | ok u => exact need_ok' hn c hc
            | select cs =>
              simp only [scopeStep] at h2
              cases hn : need v1 cs with
              | error e => simp [hn] at h2
              | ok u => exact need_ok' hn c hc
            | filter e =>
              simp only [scopeStep] at h2
              cases hn : need v1 e.cids with
              | error e => simp [hn] at h2
              | ok u => exact need_ok' hn c hc
            | aggregate p q =>
              simp only [scopeStep] at h2
              cases hn : need v1 (p ++ q) with
              | error e => simp [hn] at h2
              | ok u => exact need_ok' hn c hc
            | sort s =>
              simp only [scopeStep] at h2
              cases hn : need v1 (s.map (·.column)) with
              | error e => simp [hn] at h2
              | ok u => exact need_ok' hn c hc
            | take tk =>
              simp only [scopeStep] at h2
              cases hn : need v1 tk.uses with
              | error e => simp [hn] at h2
              | ok u => exact need_ok' hn c hc

/-- inserting, just before the final `Select`, a transform that is in scope there and leaves the scope unchanged
(filter, sort, take, append, an in-scope loop) keeps a pipeline accepted -/
theorem wf_append_transform (n : Nat) (tr : TableRef) (mid : List Transform) (cs v : List CId) (x : Transform)
    (h : checkPipeline n (.from_ tr :: (mid ++ [.select cs])) = .ok ())
    (hv : scopeL tr.cids mid = .ok v) (hx : scopeStep v x = .ok v) :
    checkPipeline n (.from_ tr :: (mid ++ [x] ++ [.select cs])) = .ok () := by
  simp only [checkPipeline] at h ⊢
  rw [scopeL_snoc _ hv] at h
  have h3 : scopeL tr.cids (mid ++ [x]) = .ok v := by rw [scopeL_snoc _ hv]; exact hx
  rw [scopeL_snoc _ h3]
  cases hs : scopeStep v (.select cs) with
  | error e => simp [hs] at h
  | ok v' =>
    simp only [hs] at h ⊢
    rw [checkLast_snoc_select] at h ⊢
    exact h

/-- a pipeline that uses a cid which is not visible is rejected, whatever else it does -/
theorem wf_rejects_invisible (n : Nat) (tr : TableRef) (mid post : List Transform) (v : List CId) (e : Expr) (c : CId)
    (hv : scopeL tr.cids mid = .ok v) (hc : c ∈ e.cids) (hnv : c ∉ v) :
    checkPipeline n (.from_ tr :: (mid ++ .filter e :: post)) ≠ .ok () := by
  intro h
  simp only [checkPipeline] at h
  rw [scopeL_append, hv] at h
  simp only [scopeL, scopeStep] at h
  cases hn : need v e.cids with
  | error er => simp [hn] at h
  | ok u => exact hnv (need_ok' hn c hc)

/-! ### the predicate is not vacuous: a good document and one bad document per clause -/

def tT : TableDecl := { id := 0, relation := { kind := .externRef [['t']], columns := [cA, cB] } }
def fromT : Transform := .from_ { source := 0, columns := [(cA, 0), (cB, 1)] }
def mk (tables : List TableDecl) (ts : List Transform) (cols : List RelCol) : RelationalQuery :=
  { tables := tables, relation := { kind := .pipeline ts, columns := cols } }
def cmp2 : Transform := .compute { id := 2, expr := add (ref 0) (ref 1) }
def cX : RelCol := .single (some ['x'])

example : wfRq (mk [tT] [fromT, cmp2, .filter (ref 2), .select [0, 2]] [cA, cX]) = .ok () := by decide
/-- dangling cid -/
example : wfRq (mk [tT] [fromT, cmp2, .filter (ref 2), .select [0, 7]] [cA, cX]) = .error (.notVisible 7) := by decide
/-- cid cut off by a Select -/
example : wfRq (mk [tT] [fromT, .select [0], .filter (ref 1), .select [0]] [cA]) = .error (.notVisible 1) := by decide
/-- use before definition -/
example : wfRq (mk [tT] [fromT, .filter (ref 2), cmp2, .select [0, 2]] [cA, cX]) = .error (.notVisible 2) := by decide
/-- a window sort / partition must be visible too -/
example : wfRq (mk [tT] [fromT, .compute { id := 2, expr := .literal, window := some { partition := [0], sort := [{ column := 9 }] } },
    .select [2]] [cX]) = .error (.notVisible 9) := by decide
/-- duplicate definition (a compute re-using an instance column's id) -/
example : wfRq (mk [tT] [fromT, .compute { id := 1, expr := ref 0 }, .select [0, 1]] [cA, cX]) = .error (.duplicateCid 1) := by decide
/-- duplicate definition across relations (two instances sharing cids) -/
example : wfRq { tables := [tT, { id := 1, relation := { kind := .pipeline [fromT, .select [0]], columns := [cA] } }],
                 relation := { kind := .pipeline [fromT, .select [0]], columns := [cA] } } = .error (.duplicateCid 0) := by decide
/-- missing From -/
example : wfRq (mk [tT] [cmp2, .select [2]] [cX]) = .error .missingFrom := by decide
example : wfRq (mk [tT] [] []) = .error .emptyPipeline := by decide
/-- a second From -/
example : wfRq (mk [tT] [fromT, .from_ { source := 0, columns := [(cA, 5)] }, .select [0]] [cA]) = .error .misplacedFrom := by decide
/-- no final Select / wrong arity -/
example : wfRq (mk [tT] [fromT, .filter (ref 0)] [cA, cB]) = .error .missingSelect := by decide
example : wfRq (mk [tT] [fromT, .select [0, 1]] [cA]) = .error (.selectArity 2 1) := by decide
/-- undeclared table id; table declared after its use; table id declared twice -/
example : wfRq (mk [tT] [.from_ { source := 5, columns := [(cA, 0)] }, .select [0]] [cA]) = .error (.undeclaredTid 5) := by decide
example : wfRq { tables := [{ id := 1, relation := { kind := .pipeline [fromT, .select [0]], columns := [cA] } }, tT],
                 relation := { kind := .pipeline [.from_ { source := 1, columns := [(cA, 3)] }, .select [3]], columns := [cA] } }
    = .error (.undeclaredTid 0) := by decide
example : wfRq { tables := [tT, tT], relation := { kind := .pipeline [fromT, .select [0]], columns := [cA] } }
    = .error (.duplicateTid 0) := by decide
/-- a loop body is checked in the enclosing scope, its definitions stay local -/
example : wfRq (mk [tT] [fromT, .loop [.filter (ref 0), cmp2, .select [2]], .select [0, 1]] [cA, cB]) = .ok () := by decide
example : wfRq (mk [tT] [fromT, .loop [cmp2, .select [2]], .select [0, 2]] [cA, cX]) = .error (.notVisible 2) := by decide

/-! ### decoding: the JSON of a real RQ (prqlc, `from t | select {a}` over an undeclared table), parsed and checked -/

def realDoc : List Char := cs! "{\"def\":{\"version\":null,\"other\":{}},\"tables\":[{\"id\":0,\"name\":null,\"relation\":{\"kind\":{\"ExternRef\":{\"LocalTable\":[\"t\"]}},\"columns\":[{\"Single\":\"a\"},\"Wildcard\"]}}],\"relation\":{\"kind\":{\"Pipeline\":[{\"From\":{\"source\":0,\"columns\":[[{\"Single\":\"a\"},0],[\"Wildcard\",1]],\"name\":\"t\",\"prefer_cte\":true}},{\"Select\":[0]},{\"Select\":[0]}]},\"columns\":[{\"Single\":\"a\"}]}}"

example : ((Json.parse realDoc).bind Rq.ofJson).map wfRq = some (.ok ()) := by decide +kernel

/-! ## the finding: what the real compiler emits is not always well formed -/

def tDecl : TableDecl := { id := 0, relation := { kind := .externRef [['t']], columns := [cA, cB, .wildcard] } }
def fromT3 : Transform := .from_ { source := 0, columns := [(cA, 0), (cB, 1), (.wildcard, 2)], name := some ['t'] }

/-- the RQ prqlc emits for `from t | sort b | select {a} | take 2` (ids as emitted; reproduced on every run of the check) -/
def staleSortSelect : RelationalQuery :=
  mk [tDecl] [fromT3, .sort [{ column := 1 }], .select [0],
    .take { rangeEnd := some .literal, sort := [{ column := 1 }] }, .select [0]] [cA]

/-- the RQ prqlc emits for `from t | sort b | aggregate {s = sum a} | derive {r = row_number this}` -/
def staleSortAggregate : RelationalQuery :=
  mk [tDecl] [fromT3, .sort [{ column := 1 }],
    .compute { id := 3, expr := .operator (cs! "std.sum") (.cons (ref 0) .nil), isAggregation := true },
    .aggregate [] [3],
    .compute { id := 4, expr := .operator (cs! "std.row_number") .nil, window := some { sort := [{ column := 1 }] } },
    .select [3, 4]] [.single (some ['s']), .single (some ['r'])]

def tDecl3 : TableDecl := { id := 0, relation := { kind := .externRef [['t']], columns := [cA, cB, .single (some ['c'])] } }

/-- the RQ prqlc emits for `from t | sort {b} | append (from t | take 2..3)` over a declared `t <[{a, b, c}]>`:
the Take of the *argument* pipeline is sorted by column 1 of the *enclosing* pipeline -/
def cC : RelCol := .single (some ['c'])
def leakInner : List Transform := [
  .from_ { source := 0, columns := [(cA, 3), (cB, 4), (cC, 5)], name := some ['t'] },
  .take { rangeStart := some .literal, rangeEnd := some .literal, sort := [{ column := 1 }] },
  .select [3, 4, 5]]
def leakMain : List Transform := [
  .from_ { source := 0, columns := [(cA, 0), (cB, 1), (cC, 2)], name := some ['t'] },
  .sort [{ column := 1 }],
  .append { source := 1, columns := [(cA, 6), (cB, 7), (cC, 8)], preferCte := false },
  .select [0, 1, 2]]
def leakedSort : RelationalQuery :=
  mk [tDecl3, { id := 1, relation := { kind := .pipeline leakInner, columns := [cA, cB, cC] } }] leakMain [cA, cB, cC]

/-- the RQ prqlc emits for `from t | group {b} (sort {a} | take 2 | select {a, c})` over a declared `t <[{a, b, c}]>`: the group
pipeline's own `Select [a, c]` hides the partition column `b` (id 1), which the Select the group appends lists again -/
def groupSelectHidesPartition : RelationalQuery :=
  mk [tDecl3] [.from_ { source := 0, columns := [(cA, 0), (cB, 1), (cC, 2)], name := some ['t'] },
    .take { rangeEnd := some .literal, partition := [1], sort := [{ column := 0 }] },
    .select [0, 2], .select [1, 0, 2]] [cB, cA, cC]

/-- the scope clause fails on documents the real compiler emits.  Known findings stale-sort-after-select and
stale-sort-after-aggregate: nothing else is wrong with the document (`wfRqLax`).  Known finding group-pipeline-select-hides-partition-column: a Select of the flattened group pipeline cuts the partition column off. -/
theorem emitted_rq_wf_counterexample :
    wfRq staleSortSelect = .error (.notVisible 1) ∧ wfRqLax staleSortSelect = .ok () ∧
    wfRq staleSortAggregate = .error (.notVisible 1) ∧ wfRqLax staleSortAggregate = .ok () ∧
    wfRq groupSelectHidesPartition = .error (.notVisible 1) ∧ wfRqLax groupSelectHidesPartition = .error (.notVisible 1) := by decide

/-- the document prqlc emitted for `from t | sort {b} | append (from t | take 2..3)` BEFORE the repair 147decc (the sort of the
enclosing pipeline copied into the argument pipeline) is rejected by the monitor; the check verifies on every run that the
compiler no longer emits it (a `fixed` finding suppresses nothing) -/
theorem leaked_sort_document_rejected :
    wfRq leakedSort = .error (.notVisible 1) ∧ wfRqLax leakedSort = .error (.notVisible 1) := by decide

/-! ## T2: what the back end may rely on -/

/-- T2: a well-formed query satisfies what the back end assumes when it loads and anchors it:
 (1) `column_decls[&cid]` succeeds for every cid the query uses anywhere;
 (2) no `column_decls.insert` overwrites an earlier declaration (a cid is either an instance column or a compute, once);
 (3) every table ref finds its declaration in `table_decls`;
 (4) `load_names`' assertion holds for every pipeline: `determine_select_columns` has the arity of the declared columns
     (and is the final Select);
 (5) the id generators loaded from the query are above every id defined in it. -/
theorem wf_enables_backend (rq : RelationalQuery) (h : wfRq rq = .ok ()) :
    (∀ c ∈ rq.uses, (lookupColumn (load rq) c).isSome = true) ∧
    ((load rq).columnDecls.map (·.1)).Nodup ∧
    (∀ x ∈ allTids rq, x ∈ (load rq).tableDecls) ∧
    (∀ r ∈ rq.relations, ∀ ts, r.kind = .pipeline ts →
        (determineSelectColumns ts).length = r.columns.length ∧ ∃ pre, ts = pre ++ [.select (determineSelectColumns ts)]) ∧
    (∀ c ∈ rq.defs, c < nextAbove rq.defs) := by
  obtain ⟨h1, h2, h3⟩ := (Model.Rq.wfRq_iff rq).mp h
  obtain ⟨hk, ht⟩ := load_keys rq
  refine ⟨?_, ?_, ?_, ?_, ?_⟩
  · intro c hc
    apply lookupColumn_isSome
    rw [hk]
    simp only [RelationalQuery.uses, RelationalQuery.defs, List.mem_flatten, List.mem_map] at hc ⊢
    obtain ⟨l, ⟨r, hr, rfl⟩, hcl⟩ := hc
    exact ⟨_, ⟨r, hr, rfl⟩, checkRelation_uses_defined (h3 r hr) c hcl⟩
  · rw [hk]; exact h2
  · rw [ht]
    unfold checkTids at h1
    cases hc : checkTables [] rq.tables with
    | error e => simp [hc] at h1
    | ok d =>
      simp only [hc] at h1
      have hd := checkTables_ids hc
      simp only [List.append_nil] at hd
      have hspec := checkTables_spec hc
      intro x hx
      simp only [allTids, RelationalQuery.relations, List.map_append, List.map_map, List.flatten_append, List.mem_append,
        List.mem_flatten, List.mem_map, Function.comp] at hx
      rcases hx with ⟨l, ⟨t, htm, rfl⟩, hxl⟩ | hx
      · obtain ⟨pre, post, e⟩ := List.append_of_mem htm
        rcases (hspec pre t post e).1 x hxl with q | q
        · simp at q
        · rw [e]; simp only [List.map_append, List.mem_append]; exact Or.inl q
      · have := needTids_mem h1 x (by simpa using hx)
        rw [hd] at this
        simpa using this
  · intro r hr ts hts
    have := h3 r hr
    unfold checkRelation at this
    simp only [hts] at this
    obtain ⟨tr, mid, cs, e, hl⟩ := checkPipeline_shape this
    have hd : determineSelectColumns ts = cs := by
      rw [e]; simp [determineSelectColumns, dscRev]
    rw [hd]
    exact ⟨hl, .from_ tr :: mid, by rw [e]; simp⟩
  · intro c hc
    have key : ∀ (l : List Nat) (n : Nat), (∀ c ∈ l, c < l.foldl (fun n i => max n (i + 1)) n) ∧ n ≤ l.foldl (fun n i => max n (i + 1)) n := by
      intro l
      induction l with
      | nil => intro n; simp
      | cons x xs ih =>
        intro n
        simp only [List.foldl_cons, List.mem_cons]
        have := ih (max n (x + 1))
        refine ⟨?_, by omega⟩
        rintro c (rfl | hc)
        · omega
        · exact this.1 c hc
    exact (key rq.defs 0).1 c hc

/-- non-vacuity of T2 on the query the model run above emits -/
example : (lower demoOps).map (fun rq => decide (wfRq rq = .ok ()) && rq.uses.all (fun c => (lookupColumn (load rq) c).isSome)) = some true := by
  decide +kernel

end Props.C16
