/-
C17  Tokens tile the source and re-lex to themselves.
Theorems over the mirror model Model/Lex (tables regenerated from lexer/mod.rs into Gen/Lex, Gen/Unicode).
-/
import PrqlModel.Model.Lex
import PrqlModel.Lemmas.Lex
namespace Props.C17
open Gen.Lex Model.Lex Lemmas.Lex

deriving instance DecidableEq for Except

/-- the hand-written `Model.Lex.token` / `literal` try the alternatives in the order the source lists them
(these are checked against the regenerated table: a reordering in lexer/mod.rs breaks this proof) -/
theorem token_order_as_modelled :
    tokenOrder = ["line_wrap", "newline", "multi_char_operators", "interpolation", "param", "date_token", "annotate",
                  "control", "literal", "keyword", "ident", "comment"] := by decide

theorem literal_order_as_modelled :
    literalOrder = ["binary_number", "hexadecimal_number", "octal_number", "string", "raw_string", "value_and_unit",
                    "number", "boolean", "null"] := by decide

/-- T4: a rejected source reports at least one error and no tokens, an accepted one reports tokens and no error
(`lexRecovery` mirrors `lex_source_recovery`; `lex` returns `Except`, so "never both" is in the type) -/
theorem reject_has_errors (src : Src) :
    (∃ toks, lex src = .ok toks ∧ lexRecovery src = (some toks, [])) ∨
    (∃ e, lex src = .error e ∧ lexRecovery src = (none, e.toList) ∧ 1 ≤ e.toList.length) := by
  unfold lexRecovery
  cases h : lex src with
  | ok toks => exact .inl ⟨toks, rfl, rfl⟩
  | error e => exact .inr ⟨e, rfl, rfl, by simp [LexErrors.toList]⟩


/-- Termination: the repetitions of the model run on fuel `length + 1`; it is never exhausted and any larger amount
gives the same result (each item parser consumes at least one character). -/
theorem lex_fuel_suffices (s : Src) :
    (repeatF lexToken (s.length + 1) s).isSome ∧ (repeatF lineWrapItem (s.length + 1) s).isSome ∧
    (∀ q n e, (repeatF (contentChar q n e) (s.length + 1) s).isSome) ∧
    (∀ m, s.length < m → repeatF lexToken m s = repeatF lexToken (s.length + 1) s) :=
  ⟨repeatF_isSome _ lexToken_lt _ _ (by omega),
   repeatF_isSome _ lineWrapItem_lt _ _ (by omega),
   fun _ _ _ => repeatF_isSome _ (fun _ _ _ h => (contentChar_sfx h).lt) _ _ (by omega),
   fun m hm => repeatF_fuel _ lexToken_lt _ _ _ hm (by omega)⟩

/-- the `fuel` error of the model is unreachable -/
theorem lex_error_is_unexpected (src : Src) (e : LexErrors) (h : lex src = .error e) :
    ∃ pos, e = ⟨.unexpected pos, []⟩ := by
  unfold lex lexRaw at h
  have hs := (lex_fuel_suffices src).1
  split at h
  · cases h
  · next e' he =>
    split at he
    · next hn => simp [hn] at hs
    · split at he
      · cases he
      · simp at he h; subst he; subst h; exact ⟨_, rfl⟩

example : lex ['a', '&'] = .error ⟨.unexpected 1, []⟩ := by decide

/-- the raw tiling behind T1/T2: an accepted source is whitespace/token-text pairs followed by whitespace -/
theorem lexRaw_tiles (src : Src) (ts : List RawTok) (h : lexRaw src = .ok ts) :
    ∃ rest, Tiles src ts rest ∧ ∀ c ∈ rest, isInlineWs c = true := by
  unfold lexRaw at h
  split at h
  · cases h
  · next ts' rest hr =>
    split at h
    · next hws =>
      simp at h; subst h
      exact ⟨rest, repeatF_tiles _ _ _ _ hr, dropWhile_nil_all hws⟩
    · cases h

theorem lex_ok (src : Src) (toks : List Token) (h : lex src = .ok toks) :
    ∃ ts, lexRaw src = .ok ts ∧ toks = ⟨.start, 0, 0⟩ :: ts.map (mkToken (utf8Len src)) := by
  unfold lex at h
  split at h
  · next ts hts => simp at h; exact ⟨ts, hts, h.symm⟩
  · cases h

/-- T1: for every accepted source the first token is `Start` at 0..0; every span lies within the source, on character
boundaries; every token but `Start` is non-empty; tokens are ordered and do not overlap (each ends before any later one
starts). -/
theorem tokens_tile (src : Src) (toks : List Token) (h : lex src = .ok toks) :
    ∃ rest, toks = ⟨.start, 0, 0⟩ :: rest ∧
      (∀ t ∈ toks, t.start ≤ t.stop ∧ t.stop ≤ utf8Len src ∧ IsBoundary src t.start ∧ IsBoundary src t.stop) ∧
      (∀ t ∈ rest, t.start < t.stop) ∧
      toks.Pairwise (fun a b => a.stop ≤ b.start) := by
  obtain ⟨ts, hraw, rfl⟩ := lex_ok src toks h
  obtain ⟨rest, ht, _⟩ := lexRaw_tiles src ts hraw
  obtain ⟨h1, h2, _⟩ := tiles_numeric src ht [] rfl
  refine ⟨_, rfl, ?_, fun t ht => (h1 t ht).2.1, ?_⟩
  · intro t htm
    simp only [List.mem_cons] at htm
    rcases htm with rfl | htm
    · exact ⟨Nat.le_refl _, Nat.zero_le _, ⟨0, by simp, by simp [utf8Len]⟩, ⟨0, by simp, by simp [utf8Len]⟩⟩
    · obtain ⟨_, a, b, c, d, _⟩ := h1 t htm; exact ⟨Nat.le_of_lt a, b, c, d⟩
  · simp only [List.pairwise_cons]
    exact ⟨fun t _ => Nat.zero_le _, h2⟩

example : lex ['a', ' ', 'é', '.', '.', '1'] =
    .ok [⟨.start, 0, 0⟩, ⟨.ident ['a'], 0, 1⟩, ⟨.ident ['é'], 2, 4⟩, ⟨.range true true, 4, 6⟩, ⟨.literal (.integer 1), 6, 7⟩] := by
  decide

/-- T2: in an accepted source the text before the first token, between consecutive tokens and after the last token is
inline whitespace only.  (Range tokens own the whitespace on both sides of `..` and line-wrap tokens everything from the
newline to the backslash: that text is inside their span, see `range_owns_whitespace`.) -/
theorem gaps_are_whitespace (src : Src) (toks : List Token) (h : lex src = .ok toks) : GapsWs src 0 toks := by
  obtain ⟨ts, hraw, rfl⟩ := lex_ok src toks h
  obtain ⟨rest, ht, hrest⟩ := lexRaw_tiles src ts hraw
  obtain ⟨_, _, h3⟩ := tiles_numeric src ht [] rfl
  refine ⟨?_, h3 hrest⟩
  simp [byteSlice, takeBytes]


/-- how range tokens own their whitespace (at the level of one `lex_token` step; every token of `lex` comes from such a
step, see `lexRaw_tiles`): if the input, after optional inline whitespace, starts with `..`, the token is a range whose
span starts before that whitespace and extends over all inline whitespace after `..`; the flags record whether each
side is empty.  A line-wrap token's span runs from its newline to its backslash (`Model.Lex.lineWrap`). -/
theorem range_owns_whitespace (s r' : Src) (h : stripPrefix rangeStr (skipWs s) = some r') :
    ∃ w1 w2, s = w1 ++ (rangeStr ++ (w2 ++ skipWs r')) ∧ (∀ c ∈ w1, isInlineWs c = true) ∧ (∀ c ∈ w2, isInlineWs c = true) ∧
      startsWithWs (skipWs r') = false ∧
      lexToken s = some (⟨.range (decide (w1 = [])) (decide (w2 = [])), s, skipWs r'⟩, skipWs r') :=
  lexToken_range h

example : stripPrefix rangeStr (skipWs [' ', '.', '.', '\t', 'x']) = some ['\t', 'x'] := by decide

/-! ### T3 re-lex -/

/-- T3, full statement: the source slice of every token, lexed in isolation, yields that same token -/
def relex_full : Prop :=
  ∀ (src : Src) (toks : List Token), lex src = .ok toks → ∀ t ∈ toks, t.kind ≠ .start →
    lex (byteSlice src t.start t.stop) = .ok [⟨.start, 0, 0⟩, ⟨t.kind, 0, t.stop - t.start⟩]

/-- the full statement is false of the lexer as it is: in `true|x` the word `true` is an identifier (the `end_expr`
guard of `boolean()` fails before `|`, `ident_part()` then takes the same characters), alone it is a boolean -/
theorem relex_counterexample : ¬ relex_full := by
  intro h
  have := h ['t', 'r', 'u', 'e', '|', 'x']
    [⟨.start, 0, 0⟩, ⟨.ident ['t', 'r', 'u', 'e'], 0, 4⟩, ⟨.control '|', 4, 5⟩, ⟨.ident ['x'], 5, 6⟩] (by decide)
    ⟨.ident ['t', 'r', 'u', 'e'], 0, 4⟩ (by decide) (by decide)
  revert this; decide

/-- the same defect with a keyword: `let+1` -/
theorem relex_counterexample_keyword :
    lex ['l', 'e', 't', '+', '1'] = .ok [⟨.start, 0, 0⟩, ⟨.ident ['l', 'e', 't'], 0, 3⟩, ⟨.control '+', 3, 4⟩, ⟨.literal (.integer 1), 4, 5⟩] ∧
    lex ['l', 'e', 't'] = .ok [⟨.start, 0, 0⟩, ⟨.keyword ['l', 'e', 't'], 0, 3⟩] := by decide

/-- identifiers spelled like a keyword, `true`, `false` or `null` (the excluded class: known finding
`relex-keywordlike-ident`) -/
def KeywordLike (k : Kind) : Prop :=
  ∃ w, k = .ident w ∧ (w ∈ keywords ∨ w ∈ booleanLits.map (·.1) ∨ w = nullLit)

/-- T3 as it is expected to hold: re-lex for every token that is not a keyword-like identifier.  NOT proved in full:
`relex_partial` below proves it for the token classes `ProvedClass`; the remaining classes (identifiers, keywords,
literals, parameters, interpolations, ranges, line wraps) are covered by the exhaustive enumeration of
the check only (tested, not proved). -/
def relex_excluding_keywordlike : Prop :=
  ∀ (src : Src) (toks : List Token), lex src = .ok toks → ∀ t ∈ toks, t.kind ≠ .start → ¬ KeywordLike t.kind →
    lex (byteSlice src t.start t.stop) = .ok [⟨.start, 0, 0⟩, ⟨t.kind, 0, t.stop - t.start⟩]

/-- the token classes for which re-lex is proved: single-character controls, `@`, newlines, multi-character operators,
comments and doc comments -/
def ProvedClass : Kind → Prop
  | .control _ => True
  | .annotate => True
  | .newLine => True
  | .op _ => True
  | .comment _ => True
  | .docComment _ => True
  | _ => False

theorem relex_control_alone : ∀ c ∈ controlChars, lex [c] = .ok [⟨.start, 0, 0⟩, ⟨.control c, 0, utf8Len [c]⟩] := by decide
theorem relex_op_alone : ∀ e ∈ multiCharOps, lex e.1 = .ok [⟨.start, 0, 0⟩, ⟨.op e.2.1, 0, utf8Len e.1⟩] := by decide
theorem relex_annotate_alone : lex ['@'] = .ok [⟨.start, 0, 0⟩, ⟨.annotate, 0, utf8Len ['@']⟩] := by decide
theorem relex_newline_alone :
    lex ['\n'] = .ok [⟨.start, 0, 0⟩, ⟨.newLine, 0, utf8Len ['\n']⟩] ∧
    lex ['\r', '\n'] = .ok [⟨.start, 0, 0⟩, ⟨.newLine, 0, utf8Len ['\r', '\n']⟩] ∧
    lex ['\r'] = .ok [⟨.start, 0, 0⟩, ⟨.newLine, 0, utf8Len ['\r']⟩] := by decide
/-- keywords, booleans and null alone lex to themselves (the isolated side of the finding) -/
theorem relex_keyword_alone : ∀ w ∈ keywords, lex w = .ok [⟨.start, 0, 0⟩, ⟨.keyword w, 0, utf8Len w⟩] := by decide
theorem relex_boolean_null_alone :
    (∀ e ∈ booleanLits, lex e.1 = .ok [⟨.start, 0, 0⟩, ⟨.literal (.boolean e.2), 0, utf8Len e.1⟩]) ∧
    lex nullLit = .ok [⟨.start, 0, 0⟩, ⟨.literal .null, 0, utf8Len nullLit⟩] := by decide

/-- T3, proved part: in every accepted source, every token of a `ProvedClass` re-lexes to itself (in context → text by
inversion of the ordered choice, text → token by evaluation of the finitely many texts of these classes). -/
theorem relex_partial (src : Src) (toks : List Token) (h : lex src = .ok toks) (t : Token) (ht : t ∈ toks)
    (hc : ProvedClass t.kind) :
    lex (byteSlice src t.start t.stop) = .ok [⟨.start, 0, 0⟩, ⟨t.kind, 0, t.stop - t.start⟩] := by
  obtain ⟨ts, hraw, rfl⟩ := lex_ok src toks h
  obtain ⟨rest, hti, _⟩ := lexRaw_tiles src ts hraw
  obtain ⟨h1, _, _⟩ := tiles_numeric src hti [] rfl
  simp only [List.mem_cons] at ht
  rcases ht with rfl | ht
  · exact absurd hc (by simp [ProvedClass])
  obtain ⟨_, _, _, _, _, ws, body, r, hlt, hbody, hslice, hlen⟩ := h1 t ht
  rw [hslice, hlen]
  rcases lexToken_inv hlt with ⟨bl, br, hk⟩ | htok
  · simp only at hk; rw [hk] at hc; exact absurd hc (by simp [ProvedClass])
  simp only at htok
  have key := token_inv htok
  cases hk : t.kind <;> rw [hk] at hc <;> simp only [ProvedClass] at hc <;> rw [hk] at key <;> simp [commentKind] at key
  · -- newLine
    have hn := key
    unfold newline at hn
    split at hn
    · next r0 heq =>
      simp at hn; subst hn
      have : body = ['\n'] := cancel1 heq
      subst this; exact relex_newline_alone.1
    · next r0 heq =>
      simp at hn; subst hn
      have : body = ['\r', '\n'] := cancel2 heq
      subst this; exact relex_newline_alone.2.1
    · next r0 _ heq =>
      simp at hn; subst hn
      have : body = ['\r'] := cancel1 heq
      subst this; exact relex_newline_alone.2.2
    · cases hn
  · -- control
    obtain ⟨heq, hmem⟩ := key
    have := cancel1 heq
    subst this; exact relex_control_alone _ hmem
  · -- op
    obtain ⟨p, o, hmem, rfl, rfl⟩ := key
    rcases hmem with hmem | hmem
    · exact relex_op_alone _ hmem
    · exact relex_op_alone _ hmem
  · -- annotate
    have : body = ['@'] := cancel1 key
    subst this; exact relex_annotate_alone
  · -- comment
    have := lex_single (comment_alone key); simpa [commentKind] using this
  · -- doc comment
    have := lex_single (comment_alone key); simpa [commentKind] using this

example : lex ['a', '|', 'b'] = .ok [⟨.start, 0, 0⟩, ⟨.ident ['a'], 0, 1⟩, ⟨.control '|', 1, 2⟩, ⟨.ident ['b'], 2, 3⟩] ∧
    ProvedClass (Kind.control '|') := ⟨by decide, trivial⟩
example : lex ['x', ' ', '#', '!', 'd'] = .ok [⟨.start, 0, 0⟩, ⟨.ident ['x'], 0, 1⟩, ⟨.docComment ['d'], 2, 5⟩] ∧
    ProvedClass (Kind.docComment ['d']) := ⟨by decide, trivial⟩
example : ¬ KeywordLike (Kind.ident ['x']) := by
  rintro ⟨w, hw, h⟩; cases hw; revert h; decide
example : KeywordLike (Kind.ident ['t', 'r', 'u', 'e']) := ⟨_, rfl, by decide⟩

end Props.C17
