/-
C17  Tokens tile the source and re-lex to themselves.
Theorems over the mirror model Model/Lex (tables regenerated from lexer/mod.rs into Gen/Lex, Gen/Unicode).
-/
import PrqlModel.Model.Lex
import PrqlModel.Lemmas.Lex
namespace Props.C17
open Gen.Lex Model.Lex Lemmas.Lex

deriving instance DecidableEq for Except

/-- the hand-written `Model.Lex.token` / `literal` try the alternatives in the order the source lists them
(these are checked against the regenerated table: a reordering in lexer/mod.rs breaks this proof) -/
theorem token_order_as_modelled :
    tokenOrder = ["line_wrap", "newline", "multi_char_operators", "interpolation", "param", "date_token", "annotate",
                  "control", "literal", "keyword", "ident", "comment"] := by decide

theorem literal_order_as_modelled :
    literalOrder = ["binary_number", "hexadecimal_number", "octal_number", "string", "raw_string", "value_and_unit",
                    "number", "boolean", "null"] := by decide

/-- T4: a rejected source reports at least one error and no tokens, an accepted one reports tokens and no error
(`lexRecovery` mirrors `lex_source_recovery`; `lex` returns `Except`, so "never both" is in the type) -/
theorem reject_has_errors (src : Src) :
    (∃ toks, lex src = .ok toks ∧ lexRecovery src = (some toks, [])) ∨
    (∃ e, lex src = .error e ∧ lexRecovery src = (none, e.toList) ∧ 1 ≤ e.toList.length) := by
  unfold lexRecovery
  cases h : lex src with
  | ok toks => exact .inl ⟨toks, rfl, rfl⟩
  | error e => exact .inr ⟨e, rfl, rfl, by simp [LexErrors.toList]⟩


/-- Termination: the repetitions of the model run on fuel `length + 1`; it is never exhausted and any larger amount
gives the same result (each item parser consumes at least one character). -/
theorem lex_fuel_suffices (s : Src) :
    (repeatF lexToken (s.length + 1) s).isSome ∧ (repeatF lineWrapItem (s.length + 1) s).isSome ∧
    (∀ q n e, (repeatF (contentChar q n e) (s.length + 1) s).isSome) ∧
    (∀ m, s.length < m → repeatF lexToken m s = repeatF lexToken (s.length + 1) s) :=
  ⟨repeatF_isSome _ lexToken_lt _ _ (by omega),
   repeatF_isSome _ lineWrapItem_lt _ _ (by omega),
   fun _ _ _ => repeatF_isSome _ (fun _ _ _ h => (contentChar_sfx h).lt) _ _ (by omega),
   fun m hm => repeatF_fuel _ lexToken_lt _ _ _ hm (by omega)⟩

/-- the `fuel` error of the model is unreachable -/
theorem lex_error_is_unexpected (src : Src) (e : LexErrors) (h : lex src = .error e) :
    ∃ pos, e = ⟨.unexpected pos, []⟩ := by
  unfold lex lexRaw at h
  have hs := (lex_fuel_suffices src).1
  split at h
  · cases h
  · next e' he =>
    split at he
    · next hn => simp [hn] at hs
    · split at he
      · cases he
      · simp at he h; subst he; subst h; exact ⟨_, rfl⟩

/-- the raw tiling behind T1/T2: an accepted source is whitespace/token-text pairs followed by whitespace -/
theorem lexRaw_tiles (src : Src) (ts : List RawTok) (h : lexRaw src = .ok ts) :
    ∃ rest, Tiles src ts rest ∧ ∀ c ∈ rest, isInlineWs c = true := by
  unfold lexRaw at h
  split at h
  · cases h
  · next ts' rest hr =>
    split at h
    · next hws =>
      simp at h; subst h
      exact ⟨rest, repeatF_tiles _ _ _ _ hr, dropWhile_nil_all hws⟩
    · cases h

theorem lex_ok (src : Src) (toks : List Token) (h : lex src = .ok toks) :
    ∃ ts, lexRaw src = .ok ts ∧ toks = ⟨.start, 0, 0⟩ :: ts.map (mkToken (utf8Len src)) := by
  unfold lex at h
  split at h
  · next ts hts => simp at h; exact ⟨ts, hts, h.symm⟩
  · cases h

/-- T1: for every accepted source the first token is `Start` at 0..0; every span lies within the source, on character
boundaries; every token but `Start` is non-empty; tokens are ordered and do not overlap (each ends before any later one
starts). -/
theorem tokens_tile (src : Src) (toks : List Token) (h : lex src = .ok toks) :
    ∃ rest, toks = ⟨.start, 0, 0⟩ :: rest ∧
      (∀ t ∈ toks, t.start ≤ t.stop ∧ t.stop ≤ utf8Len src ∧ IsBoundary src t.start ∧ IsBoundary src t.stop) ∧
      (∀ t ∈ rest, t.start < t.stop) ∧
      toks.Pairwise (fun a b => a.stop ≤ b.start) := by
  obtain ⟨ts, hraw, rfl⟩ := lex_ok src toks h
  obtain ⟨rest, ht, _⟩ := lexRaw_tiles src ts hraw
  obtain ⟨h1, h2, _⟩ := tiles_numeric src ht [] rfl
  refine ⟨_, rfl, ?_, fun t ht => (h1 t ht).2.1, ?_⟩
  · intro t htm
    simp only [List.mem_cons] at htm
    rcases htm with rfl | htm
    · exact ⟨Nat.le_refl _, Nat.zero_le _, ⟨0, by simp, by simp [utf8Len]⟩, ⟨0, by simp, by simp [utf8Len]⟩⟩
    · obtain ⟨_, a, b, c, d, _⟩ := h1 t htm; exact ⟨Nat.le_of_lt a, b, c, d⟩
  · simp only [List.pairwise_cons]
    exact ⟨fun t _ => Nat.zero_le _, h2⟩

example : lex ['a', ' ', 'é', '.', '.', '1'] =
    .ok [⟨.start, 0, 0⟩, ⟨.ident ['a'], 0, 1⟩, ⟨.ident ['é'], 2, 4⟩, ⟨.range true true, 4, 6⟩, ⟨.literal (.integer 1), 6, 7⟩] := by
  decide

/-- T2: in an accepted source the text before the first token, between consecutive tokens and after the last token is
inline whitespace only.  (Range tokens own the whitespace on both sides of `..` and line-wrap tokens everything from the
newline to the backslash: that text is inside their span, see `range_owns_whitespace`.) -/
theorem gaps_are_whitespace (src : Src) (toks : List Token) (h : lex src = .ok toks) : GapsWs src 0 toks := by
  obtain ⟨ts, hraw, rfl⟩ := lex_ok src toks h
  obtain ⟨rest, ht, hrest⟩ := lexRaw_tiles src ts hraw
  obtain ⟨_, _, h3⟩ := tiles_numeric src ht [] rfl
  refine ⟨?_, h3 hrest⟩
  simp [byteSlice, takeBytes]

end Props.C17
