/-
C17  Tokens tile the source and re-lex to themselves.
Theorems over the mirror model Model/Lex (tables regenerated from lexer/mod.rs into Gen/Lex, Gen/Unicode).
-/
import PrqlModel.Model.Lex
namespace Props.C17
open Gen.Lex Model.Lex

/-- the hand-written `Model.Lex.token` / `literal` try the alternatives in the order the source lists them
(these are checked against the regenerated table: a reordering in lexer/mod.rs breaks this proof) -/
theorem token_order_as_modelled :
    tokenOrder = ["line_wrap", "newline", "multi_char_operators", "interpolation", "param", "date_token", "annotate",
                  "control", "literal", "keyword", "ident", "comment"] := by decide

theorem literal_order_as_modelled :
    literalOrder = ["binary_number", "hexadecimal_number", "octal_number", "string", "raw_string", "value_and_unit",
                    "number", "boolean", "null"] := by decide

/-- T4: a rejected source reports at least one error and no tokens, an accepted one reports tokens and no error
(`lexRecovery` mirrors `lex_source_recovery`; `lex` returns `Except`, so "never both" is in the type) -/
theorem reject_has_errors (src : Src) :
    (∃ toks, lex src = .ok toks ∧ lexRecovery src = (some toks, [])) ∨
    (∃ e, lex src = .error e ∧ lexRecovery src = (none, e.toList) ∧ 1 ≤ e.toList.length) := by
  unfold lexRecovery
  cases h : lex src with
  | ok toks => exact .inl ⟨toks, rfl, rfl⟩
  | error e => exact .inr ⟨e, rfl, rfl, by simp [LexErrors.toList]⟩

end Props.C17
