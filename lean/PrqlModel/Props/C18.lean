/-
C18  The dialect is chosen by options, then by the query header, then generic.
Theorems over Model/Target with the dialect table regenerated from sql/dialect.rs.
-/
import PrqlModel.Model.Target
namespace Props.C18
open Gen Model

deriving instance DecidableEq for Except

/-- the strum names are pairwise distinct, so a name denotes one dialect (checked on the regenerated table) -/
theorem names_injective : ∀ a b : Dialect, Dialect.nameL a = Dialect.nameL b → a = b := by
  intro a b; cases a <;> cases b <;> decide

theorem dialect_all_complete : ∀ d : Dialect, d ∈ Dialect.all := by
  intro d; cases d <;> decide

/-- T4: `from_str (to_string d) = d` for every dialect -/
theorem dialectFromStr_name : ∀ d : Dialect, dialectFromStr (Dialect.nameL d) = some d := by
  intro d; cases d <;> decide

/-- no dialect is spelled `any`, so `sql.any` is never shadowed -/
theorem no_dialect_named_any : ∀ d : Dialect, Dialect.nameL d ≠ anyName := by
  intro d; cases d <;> decide

theorem stripPrefix_append (p s : Str) : stripPrefix p (p ++ s) = some s := by
  induction p with
  | nil => rfl
  | cons c cs ih => simp [stripPrefix, ih]

theorem stripPrefix_some {p s r : Str} (h : stripPrefix p s = some r) : s = p ++ r := by
  induction p generalizing s with
  | nil => simp [stripPrefix] at h; simp [h]
  | cons c cs ih =>
    cases s with
    | nil => simp [stripPrefix] at h
    | cons d ds =>
      simp only [stripPrefix] at h
      split at h
      · next hcd => subst hcd; simp [ih h]
      · cases h

theorem targetFromStr_header (d : Dialect) : targetFromStr (headerOf d) = .ok (some d) := by
  unfold targetFromStr headerOf
  rw [stripPrefix_append]
  simp only [no_dialect_named_any d, if_false, dialectFromStr_name]

theorem dialectFromStr_some {s : Str} {d : Dialect} (h : dialectFromStr s = some d) :
    s = Dialect.nameL d := by
  unfold dialectFromStr at h
  have := List.find?_some h
  exact (eq_of_beq this).symm

/-- T1a: an explicit option wins whatever the header says (even an unknown one) -/
theorem option_overrides (d : Dialect) (h : Option Str) : chooseDialect (some d) h = .ok d := rfl

/-- T1b: with no option the header decides -/
theorem header_decides (d : Dialect) : chooseDialect none (some (headerOf d)) = .ok d := by
  simp [chooseDialect, targetFromStr_header]

/-- T1c: neither option nor header (or `sql.any`): the default, which is `generic` -/
theorem neither_is_generic : chooseDialect none none = .ok .generic := by decide
theorem any_is_generic : chooseDialect none (some (sqlPrefix ++ anyName)) = .ok .generic := by decide

/-- and conversely `targetFromStr` accepts nothing else: T4 for arbitrary strings -/
theorem targetFromStr_ok_iff (h : Str) (r : Option Dialect) :
    targetFromStr h = .ok r ↔
      (r = none ∧ h = sqlPrefix ++ anyName) ∨ (∃ d, r = some d ∧ h = headerOf d) := by
  constructor
  · intro hh
    unfold targetFromStr at hh
    cases hs : stripPrefix sqlPrefix h with
    | none => simp [hs] at hh
    | some x =>
      have hx := stripPrefix_some hs
      simp only [hs] at hh
      by_cases ha : x = anyName
      · simp only [ha, if_true] at hh
        cases hh; exact Or.inl ⟨rfl, ha ▸ hx⟩
      · simp only [ha, if_false] at hh
        cases hf : dialectFromStr x with
        | none => simp [hf] at hh
        | some d =>
          simp only [hf] at hh
          cases hh
          exact Or.inr ⟨d, rfl, by rw [hx, dialectFromStr_some hf]; rfl⟩
  · rintro (⟨rfl, rfl⟩ | ⟨d, rfl, rfl⟩)
    · decide
    · exact targetFromStr_header d

theorem targetFromStr_error {h e : Str} (hh : targetFromStr h = .error e) : e = h := by
  unfold targetFromStr at hh
  split at hh
  · split at hh
    · cases hh
    · split at hh
      · cases hh
      · cases hh; rfl
  · cases hh; rfl

/-- T1d: with no option, a header that is neither `sql.any` nor `sql.<dialect name>` is an error -/
theorem unknown_header_is_error (h : Str)
    (hany : h ≠ sqlPrefix ++ anyName) (hd : ∀ d, h ≠ headerOf d) :
    chooseDialect none (some h) = .error h := by
  simp only [chooseDialect]
  cases ht : targetFromStr h with
  | error e => rw [targetFromStr_error ht]
  | ok r =>
    rcases (targetFromStr_ok_iff h r).mp ht with ⟨_, h2⟩ | ⟨d, _, h2⟩
    · exact absurd h2 hany
    · exact absurd h2 (hd d)

/-- T2 (the property): the SQL under option `d` and no header equals the SQL under header `d`
and no option; an option overrides any other header. Stated for every generator `gen`. -/
theorem option_eq_header {Rq Out : Type} (gen : Rq → Dialect → Out) (rq : Rq) (d : Dialect) :
    compileWith gen rq (some d) none = compileWith gen rq none (some (headerOf d)) := by
  simp [compileWith, option_overrides, header_decides]

theorem option_overrides_header {Rq Out : Type} (gen : Rq → Dialect → Out) (rq : Rq)
    (d : Dialect) (h : Option Str) :
    compileWith gen rq (some d) h = compileWith gen rq (some d) none := rfl

theorem neither_compiles_generic {Rq Out : Type} (gen : Rq → Dialect → Out) (rq : Rq) :
    compileWith gen rq none none = .ok (gen rq .generic) := by
  simp [compileWith, neither_is_generic]

-- non-vacuity: the hypotheses of `unknown_header_is_error` are satisfiable
example : chooseDialect none (some ['s','q','l','.','o','r','a']) = .error ['s','q','l','.','o','r','a'] := by decide
example : chooseDialect none (some ['s','q','l','i','t','e']) = .error ['s','q','l','i','t','e'] := by decide
example : chooseDialect none (some ['s','q','l','.','S','Q','L','i','t','e']) = .error ['s','q','l','.','S','Q','L','i','t','e'] := by decide

end Props.C18
