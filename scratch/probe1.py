import sys, json
sys.path.insert(0, 'tools')
from vlib import vh_batch
def strip(v):
    if isinstance(v, dict):
        return {k: strip(x) for k, x in v.items() if k != "span"}
    if isinstance(v, list):
        return [strip(x) for x in v]
    return v
progs = [
 "from t | select {a, b} | derive c = a + 1 | filter c > 2 | sort {-b} | take 3",
 "from [{n = 1}] | loop (filter n<4 | select n = n+1)",
 "from t | group a (sort b | derive r = row_number this | take 2..3) | join side:left u (==a) | append (from v | select {a, b, r=1, x=2})",
 "from s\"select a, b from t\" | aggregate {s = sum a}",
 "from_text format:json '[{\"a\":1}]' | select a",
 "from t | select {c = case [a > 1 => 2, true => s\"x{b}\"], d = f\"{a}z\", e = (a | in [1,2])} | window rows:-1..1 (derive m = sum c)",
]
ans = vh_batch([{"op": "rq", "prql": p} for p in progs])
for p, a in zip(progs, ans):
    print("==", p)
    if "rq" in a:
        r = strip(a["rq"]); r.pop("def", None)
        print(json.dumps(r, separators=(",", ":")))
    else:
        print(str(a)[:300])
