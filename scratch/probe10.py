import sys, json
sys.path.insert(0, 'tools')
from vlib import vh_batch
D = "module default_db {\n let t0 <[{u0 = int, a0 = int, k = int}]>\n let t1 <[{u1 = int, a1 = int, k = int}]>\n}\n"
progs = [
 D+"from t0 | select {u0} | filter a0 > 1",
 D+"from t0 | select {u0} | filter t0.u0 > 1",
 D+"from t0 | select {x = u0} | filter t0.u0 > 1",
 D+"from t0 | select {x = u0} | filter u0 > 1",
 D+"from t0 | aggregate {s = sum a0} | filter a0 > 1",
 D+"from t0 | group k (aggregate {s = sum a0}) | filter u0 > 1",
 D+"from t0 | group k (aggregate {s = sum a0}) | filter t0.k > 1",
 D+"from t0 | join t1 (==k) | select {k}",
 D+"from t0 | join t1 (==k) | select {t0.k, t1.k}",
 D+"from t0 | join t1 (==k) | select {t0.k, t1.k} | filter k > 1",
 D+"from t0 | join t1 (==k) | select {t0.k, t1.k} | filter t1.k > 1",
 D+"from t0 | join t1 (==k) | select {u0, zz}",
 D+"from t0 | join t1 (k == k)",
 D+"from t0 | join t1 (u0 == u1) | filter this.k > 1",
 D+"from t0 | filter zz > 1",
 D+"from t0 | derive {zz = 1} | filter zz > 1 | select {t0.zz}",
 "from t0 | select {t0.u0} | filter a0 > 1",
 "from t0 | filter a0 > 1",
 "from t0 | join t1 (t0.k == t1.k) | select {zz}",
 "from t0 | join t1 (t0.k == t1.k) | select {t0.zz}",
 "from t0 | join t1 (t0.k == t1.k) | select {t0.a} | filter zz > 1",
 "from t0 | join t1 (t0.k == t1.k) | select {t0.a, t1.b} | filter t1.zz > 1",
 D+"from t0 | select {x = math.round 2 a0 3}",
 D+"from t0 | aggregate {s = sum a0 u0}",
 D+"let f = x -> x + 1\nfrom t0 | select {y = f 1 2}",
 D+"let f = x -> x + 1\nfrom t0 | select {y = f x:1}",
 D+"let f = x -> x + 1\nfrom t0 | select {y = f a0 zz:1}",
 D+"let f = x n:0 -> x + n\nfrom t0 | select {y = f a0 n:1 m:2}",
 D+"from t0 | select {y = math.round 2 a0 digits:3}",
 "from 5",
 D+"from t0 | join 3 (==k)",
 D+"from t0 | append 7",
 D+"from t0 | derive {x = t1}",
 D+"from t0 | filter t1",
 D+"from t0 | select {x = (from t1)}",
 D+"from t0 | sort t1",
 D+"from t0 | take t1",
 D+"from u0",
 D+"from t0 | join u0 (==k)",
 D+"from t0 | select {sum = a0} | filter sum > 1",
]
ans = vh_batch([{"op": "compile", "prql": p, "target": "sql.sqlite"} for p in progs])
for p, a in zip(progs, ans):
    q = p.replace(D, "D:").replace("\n", " ; ")
    if "sql" in a:
        print("OK  ", q, "=>", " ".join(a["sql"].split())[:150])
    elif "panic" in a:
        print("PANIC", q, "=>", a["panic"][:100])
    else:
        print("ERR ", q, "=>", a["errors"][0]["reason"][:110], "|", (a["errors"][0].get("hints") or [""])[0][:60])
