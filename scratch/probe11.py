import sys, json
sys.path.insert(0, 'tools')
from vlib import vh_batch
D = "module default_db {\n let t0 <[{u0 = int, a0 = int, k = int}]>\n let t1 <[{u1 = int, a1 = int, k = int}]>\n}\n"
progs = [
 D+"from t0 | derive {x = u0 + 1, y = x + 1}",
 D+"from t0 | select {x = u0 + 1, y = x + 1}",
 D+"from t0 | select {x = u0 + 1, y = u0 + 1} | filter t0.u0 > 1",
 D+"from t0 | aggregate {x = sum u0, y = x + 1}",
 D+"from t0 | group k (aggregate {x = sum u0}) | filter k > 1",
 D+"from t0 | group k (take 1) | filter k > 1 | filter t0.k > 1 | select {t0.u0}",
 D+"from t0 | group k (sort k | take 1)",
 D+"from t0 | group {k, u0} (sort a0 | take 1) | select {k, u0, a0}",
 D+"from t0 | group k (aggregate {x = sum k})",
 D+"from t0 | join t1 (==k) | group t0.k (aggregate {x = sum a1}) | filter k > 1 | filter t0.k > 1",
 D+"from t0 | join t1 (==k) | group t0.k (aggregate {x = sum a1}) | filter t1.k > 1",
 D+"from t0 | join t1 (u0 == u1) | filter k > 1",
 D+"from t0 | join t1 (t0.k == t1.k) | derive {k = 1} | filter k > 0 | select {t0.k}",
 D+"from t0 | derive {u0 = a0} | filter t0.u0 > 0",
 D+"from t0 | derive {u0 = a0} | select {u0, t0.a0}",
 D+"from x = t0 | filter x.u0 > 1 | filter t0.u0 > 1",
 D+"let l0 = (from t0 | select {u0, z = a0})\nfrom l0 | filter l0.z > 1 | filter u0 > 0 | filter t0.u0 > 0",
 D+"from t0 | append t1 | filter u0 > 1 | filter t0.u0 > 1",
 D+"from t0 | append t1 | filter u1 > 1",
 D+"from t0 | append t1 | filter t1.u1 > 1",
 D+"from t0 | select {a = u0} | append (from t1 | select {b = u1}) | filter b > 1",
 "from t | select !{a} | filter a > 1",
 "from t | select {t.b} | filter a > 1",
 D+"from t0 | sort zz",
 D+"from t0 | group zz (take 1)",
 D+"from t0 | aggregate {s = sum zz}",
 D+"from t0 | take zz",
 D+"from t0 | join t1 (zz == u1)",
 D+"from t0 | join t1 (==zz)",
 D+"from t0 | join t1 (==u0)",
 D+"from t0 | select {x = zz.u0}",
 D+"from t0 | select {x = t1.u1}",
 D+"from t0 | filter (a0 | in 1..zz)",
 D+"from t0 | select {x = f\"{zz}\"}",
 D+"from t0 | select {x = s\"{zz}\"}",
 D+"from t0 | select {x = case [zz > 1 => 1]}",
 D+"from t0 | window rows:-1..1 (derive {m = sum zz})",
]
ans = vh_batch([{"op": "compile", "prql": p, "target": "sql.sqlite"} for p in progs])
for p, a in zip(progs, ans):
    q = p.replace(D, "D:").replace("\n", " ; ")
    if "sql" in a:
        print("OK  ", q, "=>", " ".join(a["sql"].split())[:130])
    elif "panic" in a:
        print("PANIC", q, "=>", a["panic"][:100])
    else:
        print("ERR ", q, "=>", a["errors"][0]["reason"][:90], "|", (a["errors"][0].get("hints") or [""])[0][:70])
