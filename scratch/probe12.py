import sys, json
sys.path.insert(0, 'tools')
from vlib import vh_batch
D = "module default_db {\n let t0 <[{u0 = int, a0 = int, k = int}]>\n let t1 <[{u1 = int, a1 = int, k = int}]>\n}\n"
progs = [
 D+"from t0 | select {u0, y = u0 + 1}",
 D+"from t0 | select {t0.u0, y = u0 + 1}",
 D+"from t0 | select {x = a0, y = x + 1, z = t0.a0}",
 D+"from t0 | derive {u0 = a0, y = u0 + 1}",
 D+"from t0 | derive {x = a0} | derive {x = x + 1} | select {x}",
 D+"from t0 | select {a0 = u0, y = a0 + 1}",
 D+"from t0 | join t1 (==k) | select {t0.k, y = k + 1}",
 D+"from t0 | join t1 (==k) | select {u0, t1.k, y = k + 1}",
]
ans = vh_batch([{"op": "compile", "prql": p, "target": "sql.sqlite"} for p in progs])
for p, a in zip(progs, ans):
    q = p.replace(D, "D:").replace("\n", " ; ")
    if "sql" in a:
        print("OK  ", q, "=>", " ".join(a["sql"].split())[:130])
    elif "panic" in a:
        print("PANIC", q, "=>", a["panic"][:100])
    else:
        print("ERR ", q, "=>", a["errors"][0]["reason"][:90], "|", (a["errors"][0].get("hints") or [""])[0][:70])
