import sys, json
sys.path.insert(0, 'tools')
from vlib import vh_batch
progs = [
 "from t | group a (sort b | derive r = row_number this | take 2..3)",
 "from t | group a (take 2..3) | join side:left u (==a)",
 "from t | join side:left u (==a)",
 "from t | select {a,b} | append (from v | select {a, b})",
 "from t | join side:left u (==a) | append (from v | select {a, b, r=1, x=2})",
 "from t | select {c = a} | window rows:-1..1 (derive m = sum c)",
 "from t | select {c = case [a > 1 => 2, true => 3]} | window rows:-1..1 (derive m = sum c)",
 "from t | select {c = a, e = (a | in [1,2])} | derive m = sum c",
 "from t | select {c = a, e = (a | in [1,2])} | derive m = c",
 "from t | select {c = a, e = (a | in 1..2)} | derive m = c",
]
ans = vh_batch([{"op": "rq", "prql": p} for p in progs])
for p, a in zip(progs, ans):
    print("==", p)
    if "rq" in a:
        print("ok")
    else:
        print(str(a)[:300])
