import sys, json
sys.path.insert(0, 'tools')
from vlib import vh_batch, drv_batch, enc
progs = [
 "from t | select {a, b} | derive c = a + 1 | filter c > 2 | sort {-b} | take 3",
 "from [{n = 1}] | loop (filter n<4 | select n = n+1)",
 "from t | group a (take 2..3) | join side:left u (==a)",
 "from s\"select a, b from t\" | aggregate {s = sum a}",
 "from_text format:json '[{\"a\":1}]' | select a",
 "from t | select {c = case [a > 1 => 2, true => s\"x{b}\"], d = f\"{a}z\", e = (a | in [1,2])} | window rows:-1..1 (derive {m = sum c})",
 "let x = (from t | select {a,b})\nfrom x | join y=x (==a) | append x",
]
ans = vh_batch([{"op": "rq", "prql": p} for p in progs])
lines = [f"wfrq\t{enc(json.dumps(a['rq']))}" for a in ans if 'rq' in a]
print([('rq' in a) for a in ans])
print(drv_batch(lines))
