import sys, json, random, time, collections
sys.path.insert(0, 'tools')
import vlib, relgen
from props import c10
ctx = vlib.Ctx("C10", "quick", 1)
ctx.violations = type("L", (list,), {"__len__": lambda s: 0})()   # keep everything
fixed = random.Random(101010)
t=time.time()
c10.arg_cases(ctx)
for label, n, prof in [("declared-shared-k", 150, c10.DECL_P), ("declared", 100, c10.DECL_K), ("undeclared", 100, c10.UNDECL_P)]:
    c10.explore(ctx, label, fixed, n, prof, True); print(label, round(time.time()-t,1), ctx.disagreements, ctx.oracle_failures)
cnt=collections.Counter(); ex={}
for v in list.__iter__(ctx.violations):
    k=(v['kind'], v.get('suite'), v.get('class'), v['what'][:70])
    cnt[k]+=1; ex.setdefault(k, v)
for k,n in cnt.most_common(40):
    print(n, k)
    r=ex[k]['replay']
    if k[0]=='correspondence' or 'panic' in str(k):
        print('   ', (r.get('prql') or '').split('}\n',1)[-1][:400].replace('\n',' ; '))
        print('    compiler', r.get('compiler'), 'model', r.get('model'))
