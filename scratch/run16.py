import sys, json, random, time
sys.path.insert(0, 'tools')
import vlib, relgen
from props import c16
from props.c01 import SAFE, FULL, UNDECL
ctx = vlib.Ctx("C16", "quick", 1)
fixed = random.Random(160916)
t=time.time()
corpus = [("corpus", (c16.DECL + p[2:]) if p.startswith("D:") else p) for p in c16.CORPUS]
print("corpus", c16.monitor(ctx, "corpus", corpus, fixed, 1.0), time.time()-t)
print("repo", c16.monitor(ctx, "repo-queries", c16.query_files(), fixed, 1.0), time.time()-t)
print("book", c16.monitor(ctx, "book", c16.book_programs(), fixed, 0.5), time.time()-t)
for label, n, prof in [("safe", 250, SAFE), ("full", 250, FULL), ("undeclared", 200, UNDECL)]:
    cases = [relgen.make_case(fixed, **prof) for _ in range(n)]
    print(label, c16.monitor(ctx, label, [("relgen:" + label, c.prql) for c in cases], fixed, 0.15), time.time()-t)
print(json.dumps(ctx.coverage_extra, indent=0))
print(ctx.evaluations, len(ctx.distinct), ctx.disagreements, ctx.oracle_failures)
for v in ctx.violations[:12]:
    print(json.dumps(v)[:700])
