import sys, json
sys.path.insert(0, 'tools')
from vlib import vh_batch, drv_batch, enc
from props.c16 import py_both
def ex(e):
    (k,v),=e["kind"].items()
    if k=="ColumnRef": return f"c{v}"
    if k=="Literal": return "lit"
    if k=="Operator": return v["name"].replace("std.","")+"("+",".join(ex(a) for a in v["args"])+")"
    if k=="Case": return "case(...)"
    return k
def tr(t):
    (k,v),=t.items()
    if k in("From","Append"): return f"{k}(t{v['source']}:{[c for _,c in v['columns']]})"
    if k=="Join": return f"Join(t{v['with']['source']}:{[c for _,c in v['with']['columns']]} on {ex(v['filter'])})"
    if k=="Compute":
        w=v.get("window"); ws=""
        if w: ws=f" win(part={w['partition']},sort={[s['column'] for s in w['sort']]})"
        return f"Compute({v['id']}:={ex(v['expr'])}{ws}{' agg' if v.get('is_aggregation') else ''})"
    if k=="Select": return f"Select{v}"
    if k=="Filter": return f"Filter({ex(v)})"
    if k=="Aggregate": return f"Aggregate(part={v['partition']},compute={v['compute']})"
    if k=="Sort": return f"Sort{[s['column'] for s in v]}"
    if k=="Take": return f"Take(part={v['partition']},sort={[s['column'] for s in v['sort']]})"
    if k=="Loop": return "Loop["+" ".join(tr(x) for x in v)+"]"
    return k
def skel(rq):
    out=[]
    for t in rq["tables"]+[{"id":"main","relation":rq["relation"]}]:
        (k,v),=t["relation"]["kind"].items()
        out.append(f"  t{t['id']} {k}: "+(" ".join(tr(x) for x in v) if k=="Pipeline" else ""))
    return "\n".join(out)
D = "module default_db {\n let t <[{a = int, b = int, c = int}]>\n}\n"
for p in sys.argv[1:]:
    a=vh_batch([{"op":"rq","prql":D+p}])[0]
    print("==",p)
    if "rq" in a:
        print(skel(a["rq"])); print("  ", py_both(a["rq"]))
    else: print(str(a)[:300])
