#!/bin/sh
# Run once after a fresh restore, offline: regenerate tables, build the Lean project and the harness.
set -e
cd "$(dirname "$0")"
export CARGO_NET_OFFLINE=true
python3 tools/gen.py
(cd lean && lake build PrqlModel drv 2>&1 | grep -v conda | tail -5)
(cd harness && cp -n /repo/Cargo.lock Cargo.lock 2>/dev/null; cargo build --offline 2>&1 | grep -v conda | tail -3)
echo setup-done
