import Sp.Prec
open Prec

/-- boolean version of Compat over an explicit enumeration -/
def compatB {Op : Type} (ops : List Op) (T : Tbl Op) (np : Op → Bool → Op → Bool) : Bool :=
  ops.all fun a => ops.all fun b =>
    (if T.prec a = T.prec b then T.rassoc a == T.rassoc b else true) &&
    (if np a true b = false then
        decide (T.prec a < T.prec b) || (decide (T.prec a = T.prec b) && T.rassoc a == false) else true) &&
    (if np a false b = false then
        decide (T.prec a < T.prec b) || (decide (T.prec a = T.prec b) && T.rassoc a == true) else true)

theorem compat_of_compatB {Op : Type} (ops : List Op) (hall : ∀ o, o ∈ ops) (T : Tbl Op) (np)
    (h : compatB ops T np = true) : Compat T np := by
  have H : ∀ a b, _ := fun a b => (List.all_eq_true.mp (List.all_eq_true.mp h a (hall a))) b (hall b)
  refine ⟨?_, ?_, ?_⟩
  · intro a b hab
    have := H a b; simp [hab] at this; exact this.1.1
  · intro p c hn
    have := H p c; simp [hn] at this
    rcases this.1.2 with h | h
    · exact Or.inl h
    · exact Or.inr ⟨h.1, h.2⟩
  · intro p c hn
    have := H p c; simp [hn] at this
    rcases this.2 with h | h
    · exact Or.inl h
    · exact Or.inr ⟨h.1, h.2⟩

inductive SqlOp | mul | div | mod | add | sub | eq | ne | gt | lt | ge | le | and | or | concat
  deriving DecidableEq, Repr

def SqlOp.all : List SqlOp := [.mul,.div,.mod,.add,.sub,.eq,.ne,.gt,.lt,.ge,.le,.and,.or,.concat]
theorem SqlOp.mem_all (o : SqlOp) : o ∈ SqlOp.all := by cases o <;> simp [SqlOp.all]

/-- emitter strengths as in gen_expr.rs -/
def emitStrength : SqlOp → Nat
  | .mul | .div | .mod => 11 | .add | .sub => 10
  | .eq | .ne | .gt | .lt | .ge | .le => 6 | .and => 3 | .or => 2 | .concat => 9
inductive A | left | both | right deriving DecidableEq
def emitAssoc : SqlOp → A
  | .sub | .div | .mod => .left | _ => .both
/-- needs_parentheses of gen_expr.rs:925 (child strength vs parent strength / associativity) -/
def npEmit (parent : SqlOp) (isLeft : Bool) (child : SqlOp) : Bool :=
  let ps := emitStrength parent; let cs := emitStrength child
  if cs > ps then false else if cs < ps then true
  else !(emitAssoc parent == .both || (isLeft && (emitAssoc parent == .left || emitAssoc parent == .both))
          || (!isLeft && (emitAssoc parent == .right || emitAssoc parent == .both)))

/-- SQLite's documented precedence (higher binds tighter); all left-assoc -/
def sqlite : Tbl SqlOp where
  prec | .concat => 9 | .mul | .div | .mod => 8 | .add | .sub => 7
       | .lt | .le | .gt | .ge => 5 | .eq | .ne => 4 | .and => 2 | .or => 1
  rassoc _ := false

-- the emitter is NOT compatible with SQLite's grammar: (a = b) < c, a + (b + c) [harmless], ...
#eval compatB SqlOp.all sqlite npEmit
#eval SqlOp.all.flatMap fun a => SqlOp.all.filterMap fun b =>
  if npEmit a true b = false ∧ ¬ (sqlite.prec a < sqlite.prec b ∨ (sqlite.prec a = sqlite.prec b)) then some (a, "L", b) else none

/-- a repaired decision: always parenthesise equal-strength right children and comparison children -/
def npFix (parent : SqlOp) (isLeft : Bool) (child : SqlOp) : Bool :=
  let ps := sqlite.prec parent; let cs := sqlite.prec child
  if cs > ps then false else if cs < ps then true else !isLeft
theorem fix_compat : Compat sqlite npFix :=
  compat_of_compatB SqlOp.all SqlOp.mem_all _ _ (by decide)

theorem sqlite_roundtrip (t : Tree Nat SqlOp) : parse sqlite (pr npFix t) = some (t, []) :=
  roundtrip fix_compat t

#print axioms sqlite_roundtrip
