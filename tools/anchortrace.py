"""Tie of the splitter mirror (lean/PrqlModel/Model/Anchor.lean) to sql/pq/anchor.rs.

The cargo feature `verif` of /repo records every call of `extract_atomic` made while a program is compiled
(op `hook_split_trace` of the harness). Each recorded call is replayed through the Lean functions `splitOffBack` and
`anchorSplit` (driver ops `split` / `anchor`) and every part is compared: how many transforms stay in front, the columns
the preceding part must provide, the Select that heads the atomic part, the kept transforms, the fresh column ids of
the new relation instance and the redirected pipeline.  The executable scope predicates of the model
(`selfSupporting`, `missingDefined`, `wfPipe`) are evaluated on the same real pipelines by the driver op `splitscope`.
"""
import json
from vlib import vh_batch, drv_batch


class Shape(Exception):
    pass


def ex(e):
    """rq::Expr JSON -> prefix token string"""
    if e is None:
        return None
    k = e["kind"]
    if isinstance(k, str):
        raise Shape(f"expr kind {k}")
    (tag, v), = k.items()
    if tag == "ColumnRef":
        return f"c{v}"
    if tag in ("Literal", "Param"):
        return "l"
    if tag == "Operator":
        ch = [ex(a) for a in v["args"]]
        return " ".join([f"O{len(ch)}"] + ch)
    if tag == "Array":
        ch = [ex(a) for a in v]
        return " ".join([f"O{len(ch)}"] + ch)
    if tag == "Case":
        ch = []
        for c in v:
            ch += [ex(c["condition"]), ex(c["value"])]
        return " ".join([f"K{len(ch)}"] + ch)
    if tag == "SString":
        ch = [ex(it["Expr"]["expr"]) for it in v if isinstance(it, dict) and "Expr" in it]
        return " ".join([f"S{len(ch)}"] + ch)
    raise Shape(f"expr kind {tag}")


def cids(l):
    return ",".join(str(c) for c in l)


def comp(c):
    w = c.get("window")
    if w is None:
        win = "-"
    else:
        win = "w" + cids(list(w.get("partition", [])) + [s["column"] for s in w.get("sort", [])])
    return f"{c['id']}|{1 if c.get('is_aggregation') else 0}|{win}|{ex(c['expr'])}"


def tr(t, instances):
    inst = lambda r: cids(instances[str(r)]["cids"])
    if t == "Distinct":
        return "distinct"
    if not isinstance(t, dict) or len(t) != 1:
        raise Shape(f"transform {t!r}")
    (tag, v), = t.items()
    if tag == "From":
        return "from|" + inst(v)
    if tag == "Join":
        return f"join|{inst(v['with'])}|{ex(v['filter'])}"
    if tag == "Sort":
        return "sqlsort|" + cids(s["column"] for s in v)
    if tag == "DistinctOn":
        return "distincton|" + cids(v)
    if tag in ("Union", "Except", "Intersect"):
        return f"{tag.lower()}|{inst(v['bottom'])}"
    if tag != "Super":
        raise Shape(f"transform {tag}")
    if v == "Distinct":
        raise Shape("super distinct")
    (tag, v), = v.items()
    if tag == "Compute":
        return "compute|" + comp(v)
    if tag == "Filter":
        return "filter|" + ex(v)
    if tag == "Aggregate":
        return f"aggregate|{cids(v['partition'])}|{cids(v['compute'])}"
    if tag == "Sort":
        return "sort|" + cids(s["column"] for s in v)
    if tag == "Take":
        b = [ex(x) for x in (v["range"].get("start"), v["range"].get("end")) if x is not None]
        return f"take|{' '.join([f'O{len(b)}'] + b)}|{cids(v.get('partition', []))}|{cids(s['column'] for s in v.get('sort', []))}"
    if tag == "Select":
        return "select|" + cids(v)
    if tag == "Loop":
        return "loop"
    if tag == "Append":
        return "append"
    raise Shape(f"super transform {tag}")


def pipe(p, instances):
    return ";".join(tr(t, instances) for t in p)


def requests(events):
    """events of one compile -> list of (kind, drv line, expected answer, replay info)"""
    out = []
    last_split = None
    cur_split = None
    for ev in events:
        if ev["event"] == "split":
            last_split = None
            cur_split = (ev, None)
            try:
                inst = ev["instances"]
                d = ";".join(comp(c) for c in ev["computes"])
                p = pipe(ev["pipeline"], inst)
                at = ev["atomic"]
                if not at or "Super" not in at[0] or "Select" not in at[0]["Super"]:
                    raise Shape("atomic part does not start with its Select")
                sel = at[0]["Super"]["Select"]
                kept = pipe(at[1:], inst)
                pre = ev["preceding"]
                if pre is None:
                    rest, missing = 0, None
                else:
                    rest = len(pre) - 1
                    missing = pre[-1]["Super"]["Select"]
                    if [json.dumps(x, sort_keys=True) for x in pre[:-1]] != [json.dumps(x, sort_keys=True) for x in ev["pipeline"][:rest]]:
                        raise Shape("preceding part is not a prefix of the pipeline")
            except (Shape, KeyError, TypeError) as e:
                out.append(("shape", None, str(e), ev))
                continue
            line = f"asplit\t{d}\t{p}\t{cids(ev['output'])}"
            exp = (rest, None if missing is None else cids(missing), cids(sel), kept)
            out.append(("split", line, exp, ev))
            if pre is not None:
                last_split = (missing, at, inst, d, p, ev)
        elif ev["event"] == "extracted" and cur_split is not None:
            sev, aev = cur_split
            cur_split = None
            try:
                inst = dict(sev["instances"])
                known = set(inst)
                if aev is not None:
                    inst.update(aev["instances"])
                inst.update(ev["instances"])
                nxt = 0
                for cand in ([aev] if aev is not None else []) + [ev]:
                    first = cand["atomic"][0] if cand["atomic"] else None
                    if isinstance(first, dict) and "From" in first and str(first["From"]) not in known:
                        new = cand["instances"][str(first["From"])]["cids"]
                        nxt = new[0] if new else 0
                        break
                d = ";".join(comp(c) for c in sev["computes"])
                line = f"aextract\t{d}\t{pipe(sev['pipeline'], inst)}\t{nxt}\t{cids(sev['output'])}"
                out.append(("extract", line, pipe(ev["atomic"], inst), {"split": sev, "extracted": ev}))
            except (Shape, KeyError, TypeError, IndexError) as e:
                out.append(("shape", None, str(e), ev))
        elif ev["event"] == "reorder":
            try:
                class _NoInst(dict):
                    def __missing__(self, k):
                        return {"cids": []}
                out.append(("reorder", "areorder\t" + pipe(ev["input"], _NoInst()), pipe(ev["output"], _NoInst()), ev))
            except (Shape, KeyError, TypeError) as e:
                out.append(("shape", None, str(e), ev))
        elif ev["event"] == "anchored" and last_split is None:
            if cur_split is not None:
                cur_split = (cur_split[0], ev)
        elif ev["event"] == "anchored" and last_split is not None:
            if cur_split is not None:
                cur_split = (cur_split[0], ev)
            missing, at, inst0, d, p, sev = last_split
            last_split = None
            try:
                inst = dict(inst0)
                inst.update(ev["instances"])
                real = ev["atomic"]
                riid = real[0]["From"]
                new = ev["instances"][str(riid)]["cids"]
                line = f"aanchor\t{new[0] if new else 0}\t{cids(missing)}\t{pipe(at, inst)}"
                exp = f"new={cids(new)} pipe={pipe(real, inst)}"
                out.append(("anchor", line, exp, {"split": sev, "anchored": ev}))
                out.append(("scope", f"ascope\t{d}\t{p}\t{cids(sev['output'])}", None, sev))
            except (Shape, KeyError, TypeError, IndexError) as e:
                out.append(("shape", None, str(e), ev))
    return out


def parse_split_answer(a):
    f = dict(x.split("=", 1) for x in a.split(" ", 3) if "=" in x)
    return f


def run_suite(ctx, progs, label, targets=("sql.sqlite",)):
    """progs: list of PRQL sources. Returns (#events compared, #mismatches, hooks available)"""
    reqs = [{"op": "hook_split_trace", "prql": p, "target": t} for p in progs for t in targets]
    meta = [(p, t) for p in progs for t in targets]
    ans = vh_batch(reqs)
    if ans and any(isinstance(a, dict) and a.get("no_hooks") for a in ans[:3]):
        return 0, 0, False
    items = []
    for (p, t), a in zip(meta, ans):
        for it in requests((a or {}).get("events") or []):
            items.append((p, t, it))
    lines = [it[1] for (_, _, it) in items if it[1] is not None]
    res = iter(drv_batch(lines))
    n = bad = 0
    for p, t, (kind, line, exp, ev) in items:
        if kind == "shape":
            ctx.count(f"{label}:unrecognised-shape")
            bad += 1
            ctx.disagreement("anchor-trace", f"trace event of an unrecognised shape: {exp}", {"prql": p, "target": t, "event": ev})
            continue
        a = next(res)
        n += 1
        if kind == "split":
            ctx.case(("split", line))
            ctx.count(f"{label}:split:{'whole' if exp[0] == 0 else 'cut'}")
            f = parse_split_answer(a)
            got = (int(f.get("rest", "-1")) if f.get("rest", "").isdigit() else -1, f.get("missing"), f.get("select"), f.get("kept"))
            want = (exp[0], exp[1] if exp[1] is not None else got[1], exp[2], exp[3])
            if got != want:
                bad += 1
                ctx.disagreement("anchor-split", f"split_off_back differs from Model.Anchor.splitOffBack: real (rest, missing, select, kept) = {want} vs model {got}",
                                 {"prql": p, "target": t, "request": line, "model": a, "real": {"rest": exp[0], "missing": exp[1], "select": exp[2], "kept": exp[3]}})
        elif kind == "anchor":
            ctx.case(("anchor", line))
            ctx.count(f"{label}:anchor_split")
            if a != exp:
                bad += 1
                ctx.disagreement("anchor-redirect", f"anchor_split differs from Model.Anchor.anchorSplit: real `{exp[:300]}` vs model `{a[:300]}`",
                                 {"prql": p, "target": t, "request": line, "model": a, "real": exp})
        elif kind == "extract":
            ctx.case(("extract", line))
            f = a.split(" atomic=", 1)
            got = f[1] if len(f) == 2 else a
            limiting = "stashed=2" in a or ("stashed=1" in a and ev["split"]["preceding"] is None)
            ctx.count(f"{label}:extract_atomic" + (":limiting-select" if limiting else ""))
            dsc = a.split(" dsc=", 1)[1].split(" ", 1)[0] if " dsc=" in a else None
            if ev["split"].get("select_columns") is not None:
                if ev["split"]["select_columns"] != ev["split"]["output"]:
                    ctx.count(f"{label}:extract_atomic:positional-mapping-active")
                if dsc != cids(ev["split"]["select_columns"]):
                    bad += 1
                    ctx.disagreement("determine-select-columns", f"determine_select_columns differs from Model.Anchor.determineSelect: real `{cids(ev['split']['select_columns'])}` vs model `{dsc}`",
                                     {"prql": p, "target": t, "request": line, "model": a})
            if got != exp or "select_is_output=true" not in a:
                bad += 1
                ctx.disagreement("anchor-extract", f"extract_atomic differs from Model.Anchor.extractAtomic (or its Select is not the requested output): real `{exp[:300]}` vs model `{a[:400]}`",
                                 {"prql": p, "target": t, "request": line, "model": a, "real": exp})
        elif kind == "reorder":
            ctx.case(("reorder", line))
            ctx.count(f"{label}:reorder" + (":moved" if line.split("\t", 1)[1] != exp else ""))
            if a != exp:
                bad += 1
                ctx.disagreement("reorder", f"preprocess::reorder differs from Model.Reorder.reorderTr: real `{exp[:300]}` vs model `{a[:300]}`",
                                 {"prql": p, "target": t, "request": line, "model": a, "real": exp})
        elif kind == "scope":
            ctx.count(f"{label}:scope:{a}")
            if a.startswith("wf=true") and "closed=true" not in a:
                bad += 1
                ctx.disagreement("anchor-scope", f"a well-formed real pipeline whose split is not scope-closed in the model: {a}",
                                 {"prql": p, "target": t, "request": line, "model": a})
    return n, bad, True
