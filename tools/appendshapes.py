"""Directed stream: set operations whose top input is pruned / reordered around them (C01 / C05 / C07).

`append` matches columns by position. The back end cuts the pipeline that contains the UNION, prunes the columns nobody
needs and re-projects the bottom relation accordingly (sql/pq/positional_mapping.rs, mirror Model.Positional). The stream
enumerates: top parts with chained derives (a helper column that is only needed to compute another one), reordering
selects, x tails that drop / reorder / extend columns after the append, single and double appends (one of them inside a
let), and judges the rows SQLite returns for the emitted SQL against rows computed here from the tables.
"""
import itertools
from vlib import vh_batch
import relgen

PRELUDE = ("module default_db {\n  let a <[{x = int, y = int}]>\n  let b <[{p = int, q = int, r = int, s = int}]>\n"
           "  let c <[{k = int, m = int, n = int, o = int}]>\n}\n\n")
SCHEMA = [("a", [("x", relgen.INT), ("y", relgen.INT)]), ("b", [(n, relgen.INT) for n in "pqrs"]), ("c", [(n, relgen.INT) for n in "kmno"])]
DBS = [
    [[(1, 10), (2, 20), (2, 20), (None, 5)], [(7, 70, 71, 72), (8, 80, 81, 82)], [(3, 30, 31, 32)]],
    [[(4, -1)], [], [(5, 6, 7, 8), (5, 6, 7, 8)]],
    [[], [(1, 2, 3, 4)], []],
]


def add(u, v):
    return None if u is None or v is None else u + v


def mul(u, v):
    return None if u is None or v is None else u * v


# top parts: (text, frame names, row function on a dict with x, y)
TOPS = [
    ("from a\nselect {x, y}\nderive {z = x + 1, w = z * 2}\n", ["x", "y", "z", "w"],
     lambda r: (r["x"], r["y"], add(r["x"], 1), mul(add(r["x"], 1), 2))),
    ("from a\nderive {z = x + y}\n", ["x", "y", "z"], lambda r: (r["x"], r["y"], add(r["x"], r["y"]))),
    ("from a\nselect {y, x}\n", ["y", "x"], lambda r: (r["y"], r["x"])),
    ("from a\nselect {x, y}\nderive {z = x + 1}\nderive {w = z * 2}\nselect {x, w, z}\n", ["x", "w", "z"],
     lambda r: (r["x"], mul(add(r["x"], 1), 2), add(r["x"], 1))),
    ("from a\nderive {z = x + 1}\nderive {w = z + y}\nselect {y, w}\n", ["y", "w"], lambda r: (r["y"], add(add(r["x"], 1), r["y"]))),
]


def tails(names):
    """(text, output names, row filter/map on dicts) after the append"""
    out = [("", list(names), None, None)]
    n = len(names)
    subs = [list(p) for k in (1, 2, n) for p in itertools.permutations(names, k) if k <= n][:14]
    for s in subs:
        if s != list(names):
            out.append(("select {" + ", ".join(s) + "}\n", s, None, None))
    first, last = names[0], names[-1]
    out.append((f"filter {last} > 0\nselect {{{first}}}\n", [first], lambda d: d[last] is not None and d[last] > 0, None))
    out.append((f"sort {last}\nselect {{{last}, {first}}}\n", [last, first], None, None))
    out.append((f"derive {{v = {last} + 1}}\nselect {{v, {first}}}\n", ["v", first], None, lambda d: dict(d, v=add(d[last], 1))))
    return out


def programs():
    progs = []
    for ti, (ttext, names, tf) in enumerate(TOPS):
        w = len(names)
        bcols = list("pqrs")[:w]
        for bperm in ([bcols, list(reversed(bcols))] if w > 1 else [bcols]):
            bottom = "from b | select {" + ", ".join(bperm) + "}"
            for stext, outn, flt, ext in tails(names):
                text = ttext + f"append ({bottom})\n" + stext
                progs.append({"prql": PRELUDE + text, "top": ti, "bperm": bperm, "tail": (outn, flt, ext), "second": None, "out": outn})
            # the same union inside a let, read by a second append (no select before it) and pruned afterwards
            perm = list(reversed(names))
            ccols = list("kmno")[:w]
            for after in ["", "select {" + ", ".join(perm[:max(1, w - 1)]) + "}\n"]:
                text = (f"let u = (\n{ttext}append ({bottom})\nselect {{{', '.join(perm)}}}\n)\n\nfrom u\nappend (from c | select {{{', '.join(ccols)}}})\n" + after)
                outn = perm[:max(1, w - 1)] if after else perm
                progs.append({"prql": PRELUDE + text, "top": ti, "bperm": bperm, "tail": (perm, None, None), "second": (ccols, outn), "out": outn})
    return progs



def align(names, rows, expected):
    """rows with their columns put into the order of `expected` when the returned names are a permutation of it (the ORDER of result
    columns is C05's subject and, after `group`, varies from call to call: listed C11 leak wildcard-equal-order-choice)"""
    if names is None or rows is None:
        return rows
    low = [n.lower() for n in names]
    if low != list(expected) and sorted(low) == sorted(expected) and len(set(low)) == len(low):
        idx = [low.index(e) for e in expected]
        return [[r[i] for i in idx] for r in rows]
    return rows

def expected(prog, db):
    a, b, c = db
    _, names, tf = TOPS[prog["top"]]
    rows = [dict(zip(names, tf({"x": x, "y": y}))) for (x, y) in a]
    for r in b:
        d = dict(zip("pqrs", r))
        rows.append(dict(zip(names, [d[k] for k in prog["bperm"]])))
    outn, flt, ext = prog["tail"]
    if ext:
        rows = [ext(d) for d in rows]
    if flt:
        rows = [d for d in rows if flt(d)]
    res = [tuple(d[n] for n in outn) for d in rows]
    if prog["second"]:
        ccols, outn2 = prog["second"]
        for r in c:
            d = dict(zip("kmno", r))
            res.append(tuple(d[k] for k in ccols))
        idx = [outn.index(n) for n in outn2]
        res = [tuple(t[i] for i in idx) for t in res]
    return res


def key(t):
    return tuple((0, 0) if v is None else (1, v) for v in t)


def classify_listed(prog, sql, why):
    """the listed finding of this area: after `append`, pruning / reordering reaches one branch of the UNION only"""
    return "append-branches-misaligned" if "UNION" in sql.upper() else None


def run(ctx, targets=("sql.sqlite", "sql.generic"), classify=classify_listed, bind_only=False):
    progs = programs()
    reqs = [{"op": "compile", "prql": p["prql"], "target": t} for p in progs for t in targets]
    ans = iter(vh_batch(reqs))
    nbad = 0
    for p in progs:
        for t in targets:
            a = next(ans)
            if "sql" not in a:
                ctx.count("append-shapes:rejected-by-compiler")
                continue
            for db in DBS:
                names, got, err = relgen.run_sqlite(SCHEMA, db, a["sql"])
                got = align(names, got, p["out"])
                ctx.case((p["prql"], str(db), t), nontrivial=bool(got))
                why = None
                if err is not None:
                    why = "SQLite rejects the emitted SQL: " + err
                elif not bind_only:
                    exp = expected(p, db)
                    if len(names) != len(p["out"]) or sorted(map(key, (tuple(r) for r in got))) != sorted(map(key, exp)):
                        why = f"rows differ: expected (as a bag) {sorted(exp, key=key)[:6]}, SQLite returns {sorted((tuple(r) for r in got), key=key)[:6]}"
                ctx.count("append-shapes:" + ("ok" if why is None else "fail"))
                if why is None:
                    continue
                nbad += 1
                fid = classify(p, a["sql"], why) if classify else None
                ctx.oracle_failure(fid, "append-shapes: " + why,
                                   {"prql": p["prql"], "target": t, "db": db, "schema": SCHEMA, "sql": a["sql"], "observed_rows": got, "detail": why, "class": fid},
                                   det_key=(p["prql"], str(db), t))
                break       # one instance per (program, target) is enough
    ctx.coverage_extra["append_shape_programs"] = len(progs)
    return nbad
