"""Frames with columns that are hard to name (C05): un-aliased expression columns, columns whose name is taken twice, columns that are
only distinguishable by their qualifier (`a.id` / `b.id` after a join of relations sharing column names).

Oracle: every program is built step by step together with its FRAME (the columns of the relation after each transform: name or "no
name", the qualifier it can be referred to with, in order), by the frame semantics of the language:
  select = its items (an item is named by its alias or, when it is a plain column reference, by that column; any other expression has
  no name), derive / window = frame + items, filter / sort / take keep the frame, join = left frame + right frame, aggregate = items,
  group {keys} (aggregate ..) = keys + items, group {keys} (take ..) = keys + every other column, select !{cols} = the frame without
  exactly the listed columns (a column is identified by qualifier AND name), append = the top frame where a column the top leaves
  without a name takes the name of the bottom column at the same position, `let` boundary = the same columns under the new name.
The expected result columns are the final frame: one per frame column, in order, a named column under its name (an un-named one under
any name).  The observed ones are what SQLite reports for the emitted SQL over declared tables ta(id, x, k), tb(id, y, k), tc(id, z).

A second frame is carried along for the RECORDED defect `unnamed-column-dropped-by-frame-expansion` (what the result is when every
expansion of the whole frame - `select !{..}`, the relation `group` hands to its pipeline, `this.*` - silently loses the columns
that have no name): a mismatch that equals that frame exactly is classified as that finding, anything else is not.

Streams: `unnamed_cases` (class 1: every sequence of <= 3 transform kinds that starts with a producer of un-named columns),
`qualified_cases` (class 2: every pair of known-column sources sharing names x sequences of exclusion / grouping / projection steps
with qualified references), `rand_cases` (random heads and sequences from the run's rng).
"""
import itertools, random, re, sqlite3, zlib

DECL = ("module default_db {\n  let ta <[{id = int, x = int, k = int}]>\n  let tb <[{id = int, y = int, k = int}]>\n"
        "  let tc <[{id = int, z = int}]>\n}\n" + "let dbl = v -> v * 2\n")
FUNCS = "let dbl = v -> v * 2\n"
TABLES = {"ta": ["id", "x", "k"], "tb": ["id", "y", "k"], "tc": ["id", "z"]}
SETUP = ["CREATE TABLE ta (id INTEGER, x INTEGER, k INTEGER)", "CREATE TABLE tb (id INTEGER, y INTEGER, k INTEGER)",
         "CREATE TABLE tc (id INTEGER, z INTEGER)",
         "INSERT INTO ta VALUES (1, 10, 1), (2, 20, 1), (3, 30, 2), (4, NULL, 2)",
         "INSERT INTO tb VALUES (7, 10, 1), (8, 20, 2), (9, 30, 2), (1, 20, NULL)",
         "INSERT INTO tc VALUES (1, 5), (7, 6), (3, 6)"]
LIT = {"ta": [(1, 10, 1), (2, 20, 2)], "tb": [(7, 10, 1), (2, 20, 2)], "tc": [(1, 5), (7, 6)]}


def connect():
    con = sqlite3.connect(":memory:")
    for s in SETUP:
        con.execute(s)
    con.commit()
    return con


def names_of(con, sql):
    try:
        cur = con.execute(sql)
        names = [d[0] for d in cur.description]
        cur.fetchall()
        return names, None
    except Exception as e:
        return None, f"{type(e).__name__}: {e}"


class NotApplicable(Exception):
    pass


class Col:
    """uid: identity of the column (kept by copies), so that the two frames carried along can be addressed alike"""
    __slots__ = ("name", "qual", "named", "ty", "why", "uid")
    counter = itertools.count()

    def __init__(self, name, qual=None, named=True, ty="int", why=""):
        self.name, self.qual, self.named, self.ty, self.why = name, qual, named, ty, why
        self.uid = next(Col.counter)

    def copy(self, **kw):
        c = Col(self.name, self.qual, self.named, self.ty, self.why)
        c.uid = self.uid
        for k, v in kw.items():
            setattr(c, k, v)
        return c


def shadow(frame, new):
    """a new column named n takes the name n away from every column of the frame that carried it"""
    if new.named:
        for i, c in enumerate(frame):
            if c.named and c.name == new.name:
                frame[i] = c.copy(named=False, why="shadowed")
    frame.append(new)


# un-aliased expressions over one int column reference r: (text, type)
EXPRS = [
    (lambda r: f"{r} + 1", "int"), (lambda r: f"-{r}", "int"), (lambda r: "5", "int"), (lambda r: '"s"', "text"),
    (lambda r: f"math.abs {r}", "int"), (lambda r: f"dbl {r}", "int"), (lambda r: 's"{' + r + '} * 2"', "int"),
    (lambda r: 'f"{' + r + '}-"', "text"), (lambda r: f"case [{r} > 1 => 1, true => 0]", "int"), (lambda r: f"{r} ?? 0", "int"),
    (lambda r: f"{r} > 1", "bool"), (lambda r: f"({r} | math.abs)", "int"), (lambda r: f"{r} * {r}", "int"), (lambda r: "null", "int"),
]
AGGS = ["sum", "max", "min", "count"]


class Gen:
    """one program: text lines + ideal frame I + frame D under the recorded defect (None = not predictable any more)"""

    def __init__(self, rng):
        self.rng = rng
        self.lets = []          # text of let declarations
        self.lines = []
        self.I = []
        self.D = []
        self.kinds = []
        self.fresh = 0
        self.nlet = 0
        self.tables_used = []
        self.lit_only = False
        self.redef = None           # (uid of the column that lost its name, uid of the column that took it, the name)
        self.expansion = False      # an expansion of the whole frame happened
        self.mixed_at_expansion = False

    # ---- helpers
    def nm(self, p="n"):
        self.fresh += 1
        return f"{p}{self.fresh}"

    def set_frames(self, fn, same=False):
        self.I = fn(self.I)
        if same:
            self.D = [c.copy() for c in self.I]
        elif self.D is not None:
            self.D = fn(self.D)

    def referable(self, ty=None):
        """columns of the frame a program can name: named, and unique either by bare name or by qualifier + name"""
        named = [c for c in self.I if c.named]
        out = []
        for c in named:
            if ty and c.ty != ty:
                continue
            bare = sum(1 for d in named if d.name == c.name) == 1
            qual = c.qual is not None and sum(1 for d in named if d.name == c.name and d.qual == c.qual) == 1
            if bare or qual:
                out.append((c, bare, qual))
        return out

    def ref(self, entry, style=None):
        c, bare, qual = entry
        r = self.rng.random() if style is None else style
        if qual and (not bare or r < 0.6):
            return (f"this.{c.qual}.{c.name}" if r < 0.08 else f"{c.qual}.{c.name}")
        if not bare:
            raise NotApplicable("ref")
        return f"this.{c.name}" if r > 0.92 else c.name

    def pick(self, ty="int", n=1, pred=None):
        cand = [e for e in self.referable(ty) if pred is None or pred(e[0])]
        if len(cand) < n:
            raise NotApplicable("pick")
        return self.rng.sample(cand, n)

    def twins(self):
        """referable columns whose name is carried by another named column of the frame as well"""
        named = [c for c in self.I if c.named]
        return [e for e in self.referable() if sum(1 for d in named if d.name == e[0].name) >= 2]

    # ---- sources with KNOWN columns
    def source(self, form, table, alias):
        """-> (text after from/join, columns).  form: decl | let | letd | sub | subd | lit"""
        cols = list(TABLES[table])
        rng = self.rng
        # a relation literal next to a `module default_db` declaration panics (declare_table_for_literal, C12's business): literal
        # sources only occur in programs without declared tables
        if (form == "lit") != self.lit_only and self.tables_used:
            raise NotApplicable("literal and declared sources do not mix")
        self.lit_only = form == "lit"
        if form == "decl":
            text = table
        elif form in ("let", "sub"):
            keep = ["id"] + [c for c in cols[1:] if rng.random() < 0.7]
            if len(keep) == 1:
                keep.append(cols[1])
            if rng.random() < 0.3:
                keep = keep[1:] + keep[:1]
            cols = keep
            body = f"from {table} | select {{{', '.join(cols)}}}"
            if form == "let":
                self.nlet += 1
                text = f"l{self.nlet}{table[1]}"
                self.lets.append(f"let {text} = ({body})")
            else:
                text = f"({body})"
                alias = alias or self.nm("s")
        elif form in ("letd", "subd"):
            w = self.nm("w")
            cols = ["id", w, cols[-1]]
            body = f"from {table} | derive {{{w} = {TABLES[table][1]} + 1}} | filter id > 0 | select {{{', '.join(cols)}}}"
            if form == "letd":
                self.nlet += 1
                text = f"l{self.nlet}{table[1]}"
                self.lets.append(f"let {text} = ({body})")
            else:
                text = f"({body})"
                alias = alias or self.nm("s")
        elif form == "lit":
            self.nlet += 1
            text = f"r{self.nlet}{table[1]}"
            rows = ", ".join("{" + ", ".join(f"{c} = {v}" for c, v in zip(cols, row)) + "}" for row in LIT[table])
            self.lets.append(f"let {text} = [{rows}]")
        else:
            raise ValueError(form)
        q = alias or text
        return (f"{alias}={text}" if alias else text), [Col(c, q) for c in cols]

    def start(self, form, table, alias):
        t, cols = self.source(form, table, alias)
        self.lines.append(f"from {t}")
        self.I = cols
        self.D = [c.copy() for c in cols]
        self.tables_used.append(table)

    # ---- transforms
    def unnamed_item(self):
        e, = self.pick("int")
        f, ty = self.rng.choice(EXPRS)
        return f(self.ref(e)), Col(None, None, False, ty, "expression")

    def alias_item(self):
        e, = self.pick("int")
        n = self.nm()
        f, ty = self.rng.choice(EXPRS[:6])
        return f"{n} = {f(self.ref(e))}", Col(n, None, True, ty)

    def col_item(self, e):
        return self.ref(e), e[0].copy()

    def items(self, pattern):
        """pattern: string over u (un-aliased expression) a (alias) c (column)"""
        out, used = [], set()
        for ch in pattern:
            if ch == "u":
                out.append(self.unnamed_item())
            elif ch == "a":
                out.append(self.alias_item())
            else:
                cand = [e for e in self.referable() if e[0].uid not in used]
                if not cand:
                    out.append(self.alias_item())
                    continue
                e = self.rng.choice(cand)
                used.add(e[0].uid)
                out.append(self.col_item(e))
        return out

    def st_sel_u(self):
        pat = self.rng.choice(["cu", "uc", "cuc", "ucu", "uu", "cua", "auc", "u", "ccu", "cucu"])
        self._select(self.items(pat))

    def st_sel_named(self):
        self._select(self.items(self.rng.choice(["c", "cc", "ca", "ac", "cca", "ccc"])))

    def _select(self, its):
        self.lines.append("select {" + ", ".join(t for t, _ in its) + "}")

        def fn(_):
            fr = []
            for _, c in its:
                shadow(fr, c.copy())
            return fr
        self.set_frames(fn, same=True)

    def st_der_u(self):
        self._derive(self.items(self.rng.choice(["u", "ua", "au", "uu"])))

    def st_der_named(self):
        self._derive(self.items(self.rng.choice(["a", "aa"])))

    def _derive(self, its, wrap="derive {%s}"):
        self.lines.append(wrap % ", ".join(t for t, _ in its))

        def fn(fr):
            fr = list(fr)
            for _, c in its:
                shadow(fr, c.copy())
            return fr
        self.set_frames(fn)

    def st_der_shadow(self):
        """derive a column under a name the frame already has"""
        named = [c for c in self.I if c.named]
        cand = [e for e in self.referable("int") if sum(1 for d in named if d.name == e[0].name) == 1]
        if not cand or self.redef:
            raise NotApplicable("der_shadow")
        e = self.rng.choice(cand)
        src, = self.pick("int")
        new = Col(e[0].name, None, True, "int")
        self._derive([(f"{e[0].name} = {self.ref(src)} + 1", new)])
        self.redef = (e[0].uid, new.uid, e[0].name)

    def agg_items(self, pattern):
        out = []
        for ch in pattern:
            f = self.rng.choice(AGGS)
            e, = self.pick("int")
            t = "count this" if (f == "count" and self.rng.random() < 0.5) else f"{f} {self.ref(e)}"
            if ch == "u":
                out.append((t, Col(None, None, False, "int", "expression")))
            else:
                n = self.nm("g")
                out.append((f"{n} = {t}", Col(n, None, True, "int")))
        return out

    def st_agg_u(self):
        its = self.agg_items(self.rng.choice(["u", "ua", "au", "uu", "aua"]))
        self.lines.append("aggregate {" + ", ".join(t for t, _ in its) + "}")
        self._replace([c for _, c in its])

    def _replace(self, cols):
        def fn(_):
            fr = []
            for c in cols:
                shadow(fr, c.copy())
            return fr
        self.set_frames(fn, same=True)

    def keys(self, n=1, twin=False):
        cand = self.twins() if twin else self.referable()
        cand = [e for e in cand if e[0].ty in ("int", "text")]
        if len(cand) < n:
            raise NotApplicable("keys")
        ks = self.rng.sample(cand, n)
        if len({e[0].name for e in ks}) != len(ks) and not twin:
            raise NotApplicable("keys")
        return ks

    def st_grpagg_u(self, twin=False, pattern=None):
        ks = self.keys(self.rng.choice([1, 1, 2]) if not twin else 1, twin)
        kt = [self.ref(e) for e in ks]
        kid = {e[0].uid for e in ks}
        save = self.I
        self.I = [c if c.uid not in kid else c.copy(named=False) for c in self.I]       # the keys are not visible inside
        try:
            its = self.agg_items(pattern or self.rng.choice(["u", "ua", "au", "a"]))
        finally:
            self.I = save
        self.lines.append("group {" + ", ".join(kt) + "} (aggregate {" + ", ".join(t for t, _ in its) + "})")
        self._replace([e[0].copy() for e in ks] + [c for _, c in its])

    def st_grpagg_q(self):
        self.st_grpagg_u(twin=True, pattern=self.rng.choice(["a", "aa"]))

    def st_win_u(self):
        s, = self.pick("int")
        its = self.agg_items(self.rng.choice(["u", "ua", "au", "a"]))
        self.lines.append(f"sort {{{self.ref(s)}}}")
        self._derive(its, wrap=self.rng.choice(["window rolling:2 (derive {%s})", "window rows:-1..0 (derive {%s})", "window expanding:true (derive {%s})"]))

    def mark_expansion(self):
        self.expansion = True
        quals = {c.qual for c in self.I if c.named}
        if len(quals) >= 2 or None in quals:
            self.mixed_at_expansion = True      # columns of several inputs / plain columns: the expansion orders them by input

    def st_grp_take(self, twin=False, nkeys=None, inner=None):
        ks = self.keys(nkeys or self.rng.choice([1, 1, 2]), twin)
        kt = [self.ref(e) for e in ks]
        kid = [e[0].uid for e in ks]
        body = []
        rest = [e for e in self.referable("int") if e[0].uid not in kid]
        inner = inner if inner is not None else self.rng.choice(["", "", "sort", "sort"])
        if inner.startswith("sort") and rest:
            body.append("sort {" + self.rng.choice(["", "-"]) + self.ref(self.rng.choice(rest)) + "}")
        body.append(self.rng.choice(["take 1", "take 2", "take 1..2"]))
        extra = None
        if inner.endswith("derive") and rest:
            n = self.nm("w")
            body.append(f"derive {{{n} = {self.ref(self.rng.choice(rest))} + 1}}")
            extra = Col(n, None, True, "int")
        self.lines.append("group {" + ", ".join(kt) + "} (" + " | ".join(body) + ")")
        self.mark_expansion()

        def mk(defect):
            def fn(fr):
                out = [c for k in kid for c in fr if c.uid == k]
                out += [c for c in fr if c.uid not in kid and (c.named or not defect)]
                out = list(out)
                if extra:
                    shadow(out, extra.copy())
                return out
            return fn
        self.I, self.D = mk(False)(self.I), (mk(True)(self.D) if self.D is not None else None)

    def st_grp_take_twin(self):
        self.st_grp_take(twin=True, nkeys=1, inner="")

    def st_grp_sort_take(self):
        self.st_grp_take(twin=bool(self.twins()), nkeys=1, inner="sort")

    def st_grp_take_inner(self):
        self.st_grp_take(twin=bool(self.twins()), nkeys=1, inner=self.rng.choice(["derive", "sort-derive"]))

    def st_grp_take_two(self):
        tw = self.twins()
        by = {}
        for e in tw:
            by.setdefault(e[0].name, []).append(e)
        pairs = [v for v in by.values() if len(v) >= 2]
        if not pairs:
            raise NotApplicable("two")
        ks = self.rng.choice(pairs)[:2]
        kid = [e[0].uid for e in ks]
        self.lines.append("group {" + ", ".join(self.ref(e, 0.3) for e in ks) + "} (take 1)")
        self.mark_expansion()
        def fn(fr, defect):
            out = []
            for k in kid:                                   # within the key tuple the later of two equal names takes the name
                shadow(out, [c for c in fr if c.uid == k][0].copy())
            return out + [c for c in fr if c.uid not in kid and (c.named or not defect)]
        self.I = fn(self.I, False)
        if self.D is not None:
            self.D = fn(self.D, True)

    def _exclude(self, es, style=None):
        if len(es) >= len([c for c in self.I]):
            raise NotApplicable("exclude everything")
        drop = {e[0].uid for e in es}
        self.lines.append("select !{" + ", ".join(self.ref(e, style) for e in es) + "}")
        self.mark_expansion()
        self.I = [c for c in self.I if c.uid not in drop]
        if self.D is not None:
            self.D = [c for c in self.D if c.uid not in drop and c.named]

    def st_excl(self):
        cand = self.referable()
        n = min(len(cand), self.rng.choice([1, 1, 2]))
        if n == 0:
            raise NotApplicable("excl")
        self._exclude(self.rng.sample(cand, n))

    def st_excl_twin(self):
        tw = self.twins()
        if not tw:
            raise NotApplicable("twin")
        self._exclude([self.rng.choice(tw)], 0.3)

    def st_excl_this(self):
        tw = self.twins()
        if not tw:
            raise NotApplicable("twin")
        self._exclude([self.rng.choice(tw)], 0.01)

    def st_excl_other(self):
        tw = {e[0].uid for e in self.twins()}
        cand = [e for e in self.referable() if e[0].uid not in tw]
        if not cand:
            raise NotApplicable("other")
        self._exclude([self.rng.choice(cand)])

    def st_excl_two(self):
        tw = self.twins()
        if len(tw) < 2:
            raise NotApplicable("twin")
        a = self.rng.choice(tw)
        rest = [e for e in tw if e[0].name != a[0].name] or [e for e in self.referable() if e[0].uid != a[0].uid]
        self._exclude([a, self.rng.choice(rest)], 0.3)

    def st_star(self):
        self.lines.append("select {this.*}")
        self.mark_expansion()

        def fn(fr, defect):
            out = []
            for c in fr:                                   # a select: of two items with one name the later takes it
                if c.named or not defect:
                    shadow(out, c.copy())
            return out
        self.I = fn(self.I, False)
        if self.D is not None:
            self.D = fn(self.D, True)

    def st_sel_q(self):
        """a projection of a few columns by qualified references, no two of the same name"""
        cand = self.referable()
        self.rng.shuffle(cand)
        seen, es = set(), []
        for e in cand:
            if e[0].name not in seen:
                seen.add(e[0].name)
                es.append(e)
        es = es[:self.rng.randint(2, 4)]
        if len(es) < 2:
            raise NotApplicable("sel_q")
        self._select([self.col_item(e) for e in es])

    def st_sel_twins(self):
        """both columns of a shared name in one projection (the later one takes the name)"""
        tw = self.twins()
        if len(tw) < 2:
            raise NotApplicable("twins")
        a = self.rng.choice(tw)
        bs = [e for e in tw if e[0].name == a[0].name and e[0].uid != a[0].uid]
        if not bs:
            raise NotApplicable("twins")
        b = self.rng.choice(bs)
        others = [e for e in self.referable() if e[0].name != a[0].name]
        es = [a, b] + (self.rng.sample(others, min(len(others), self.rng.randint(0, 2))))
        self.rng.shuffle(es)
        self._select([self.col_item(e) for e in es])

    def st_filter(self):
        e, = self.pick("int")
        self.lines.append(f"filter {self.ref(e)} > -100")

    def st_sort(self):
        e, = self.pick("int")
        self.lines.append("sort {" + self.rng.choice(["", "-"]) + self.ref(e) + "}")

    def st_take(self):
        self.lines.append(self.rng.choice(["take 3", "take 2..4", "take 100"]))

    def st_split(self):
        e, = self.pick("int")
        self.lines.append("take 50")
        self.lines.append(f"filter {self.ref(e)} > -100")

    def st_join(self, form=None, table=None, alias=True):
        rng = self.rng
        table = table or rng.choice([t for t in TABLES if t not in self.tables_used[-1:]] or list(TABLES))
        form = "lit" if self.lit_only else (form or rng.choice(["decl", "decl", "let", "sub", "letd", "subd"]))
        used = {c.qual for c in self.I}
        al = self.nm("j") if (alias or table in used or form in ("sub", "subd")) else None
        le = self.pick("int")[0]
        t, cols = self.source(form, table, al)
        rcol = rng.choice([c for c in cols if c.ty == "int"])
        lnamed = [c for c in self.I if c.named]
        side = rng.choice(["", "", "side:left ", "side:full ", "side:right "])
        if le[0].name == rcol.name and sum(1 for c in lnamed if c.name == rcol.name) == 1 and rng.random() < 0.5:
            cond = f"=={rcol.name}"
        elif le[1] and rng.random() < 0.3 and sum(1 for c in cols if c.name == le[0].name) == 0:
            cond = f"this.{le[0].name} == that.{rcol.name}"
        else:
            lt = self.ref(le, 0.3)
            if "." not in lt and any(c.name == lt for c in cols):
                lt = "this." + lt                                  # the bare name would also match the right side
            cond = f"{lt} == {rcol.qual}.{rcol.name}"
        self.lines.append(f"join {side}{t} ({cond})")
        self.tables_used.append(table)
        self.set_frames(lambda fr: list(fr) + [c.copy() for c in cols])

    def st_join3(self):
        self.st_join(form=self.rng.choice(["decl", "sub", "let"]), table="tc")

    def st_self_join(self):
        self.st_join(form="decl", table=self.tables_used[0])

    def _append(self, mode):
        """bottom relation fitted to the top frame.  mode: n (all named) | u (all un-named) | m (mixed) | x (the top's pattern inverted)"""
        rng = self.rng
        table = rng.choice(list(TABLES))
        bcols = TABLES[table]
        items, names = [], []
        for j, c in enumerate(self.I):
            named = {"n": True, "u": False, "m": rng.random() < 0.5, "x": not c.named}[mode]
            col = bcols[j % len(bcols)] if rng.random() < 0.7 else rng.choice(bcols)
            if c.ty == "text":
                e = f'f"{{{col}}}"'
                named = named and False
                if mode in ("n", "x", "m") and rng.random() < 0.7:
                    n = self.nm("q")
                    items.append(f"{n} = {e}")
                    names.append(n)
                    continue
                items.append(e)
                names.append(None)
                continue
            if c.ty == "bool":
                e = f"{col} > 1"
                if mode == "n" or (mode in ("x", "m") and rng.random() < 0.5):
                    n = self.nm("q")
                    items.append(f"{n} = {e}")
                    names.append(n)
                else:
                    items.append(e)
                    names.append(None)
                continue
            if named:
                if col not in names and rng.random() < 0.6:
                    items.append(col)
                    names.append(col)
                else:
                    n = self.nm("q")
                    items.append(f"{n} = {col} + 1")
                    names.append(n)
            else:
                items.append(rng.choice([f"{col} + 1", f"-{col}", "7", f"{col} ?? 0"]))
                names.append(None)
        body = f"from {table} | select {{{', '.join(items)}}}"
        if all(names) and len(set(names)) == len(names) and rng.random() < 0.35:
            self.nlet += 1
            ln = f"b{self.nlet}"
            self.lets.append(f"let {ln} = ({body})")
            self.lines.append(f"append {ln}")
        else:
            self.lines.append(f"append ({body})")
        self._append_frames(names)

    def _append_frames(self, names):
        def fn(fr):
            out = []
            for c, n in zip(fr, names):
                if c.named:
                    out.append(c.copy(qual=None))
                elif n is not None:
                    out.append(Col(n, None, True, c.ty))
                else:
                    out.append(c.copy(qual=None))
            return out
        nI = len(self.I)
        top = [c.name for c in self.I if c.named]
        given = [n for c, n in zip(self.I, names) if not c.named and n is not None]
        if set(given) & set(top) or len(set(given)) != len(given):
            # a bottom name that the frame already has would make two columns `n` of one relation (merged by the projection: not this stream's subject)
            raise NotApplicable("append would name two columns alike")
        self.I = fn(self.I)
        self.D = fn(self.D) if (self.D is not None and len(self.D) == nI) else None

    def st_app_bn(self):
        self._append("n")

    def st_app_bu(self):
        self._append("u")

    def st_app_mix(self):
        self._append(self.rng.choice(["m", "x"]))

    def st_app_tbl(self):
        """`append <declared table>`: the bottom's names are its declared columns"""
        cand = [t for t, cs in TABLES.items() if len(cs) == len(self.I)]
        if not cand or any(c.ty != "int" for c in self.I):
            raise NotApplicable("app_tbl")
        t = self.rng.choice(cand)
        self.lines.append(f"append {t}")
        self._append_frames(list(TABLES[t]))

    def st_letb(self):
        """the pipeline so far becomes a let-table (all its columns must be named, uniquely)"""
        names = [c.name for c in self.I]
        if not all(c.named for c in self.I) or len(set(names)) != len(names) or (self.D is not None and len(self.D) != len(self.I)):
            raise NotApplicable("letb")
        self.nlet += 1
        ln = f"p{self.nlet}"
        self.lets.append(f"let {ln} = (" + " | ".join(self.lines) + ")")
        al = self.nm("z") if self.rng.random() < 0.5 else None
        self.lines = [f"from {al}={ln}" if al else f"from {ln}"]
        self.I = [Col(c.name, al or ln, True, c.ty) for c in self.I]
        self.D = [c.copy() for c in self.I]

    def step(self, kind):
        if self.redef and kind not in ("filter", "sort", "take", "split"):
            raise NotApplicable("after a redefinition only frame-preserving steps (the recorded defect is modelled for those)")
        getattr(self, "st_" + kind)()
        self.kinds.append(kind)

    def case(self, label):
        nm = lambda fr: None if fr is None else [c.name if c.named else None for c in fr]
        alts = []
        if self.D is not None and nm(self.D) != nm(self.I) and self.expansion:
            alts.append((nm(self.D), "unnamed-column-dropped-by-frame-expansion"))
        if self.redef:
            old, new, name = self.redef
            for fr in [self.I] + ([self.D] if self.D is not None and nm(self.D) != nm(self.I) else []):
                # recorded: the redefinition is lost (the old column keeps the name, the new one is missing) / the names are swapped
                alts.append(([name if c.uid == old else (c.name if c.named else None) for c in fr if c.uid != new], "redefined-name-column-lost-or-misnamed"))
                alts.append(([name if c.uid == old else "~expr" if c.uid == new else (c.name if c.named else None) for c in fr], "redefined-name-column-lost-or-misnamed"))
        return Case(label, (FUNCS if self.lit_only else DECL) + "".join(l + "\n" for l in self.lets) + "\n".join(self.lines) + "\n", self.kinds,
                    nm(self.I), alts, [c.name for c in self.I if c.name], self.expansion, self.mixed_at_expansion)


class Case:
    def __init__(self, label, prql, kinds, expect, alts, allnames, expansion, mixed):
        self.label, self.prql, self.kinds, self.expect, self.alts = label, prql, kinds, expect, alts
        self.allnames, self.expansion, self.mixed = allnames, expansion, mixed

    @property
    def body(self):
        return self.prql[len(DECL):] if self.prql.startswith(DECL) else self.prql[len(FUNCS):]


def build(seed, head, seq, label):
    """head: list of (form, table, alias) - the first is the `from`, the others are joined; seq: transform kinds"""
    for attempt in range(4):
        g = Gen(random.Random(zlib.crc32(repr((seed, head, seq, attempt)).encode())))
        try:
            g.start(*head[0])
            for form, table, alias in head[1:]:
                g.st_join(form=form, table=table, alias=alias)
                g.kinds.append("join")
            for k in seq:
                g.step(k)
            return g.case(label)
        except NotApplicable:
            continue
    return None


PRODUCERS = ["sel_u", "der_u", "agg_u", "grpagg_u", "win_u", "app_bn", "app_bu", "app_mix", "join"]
FOLLOW_U = PRODUCERS + ["grp_take", "excl", "star", "sort", "take", "filter", "split", "sel_named", "der_named", "app_tbl", "der_shadow"]
HEADS_U = [[("decl", "ta", None)], [("decl", "tb", "a")], [("let", "ta", None)], [("lit", "tb", None)], [("sub", "ta", "s")], [("decl", "tc", None)]]


def unnamed_cases(maxlen=3, variants=1, sample3=1):
    """class 1: sequences that begin with `select` with un-aliased items (or another producer of un-named columns)"""
    out = []
    i = 0
    for n in range(1, maxlen + 1):
        for seq in itertools.product(*([["sel_u", "der_u", "agg_u", "grpagg_u", "win_u"]] + [FOLLOW_U] * (n - 1))):
            i += 1
            if n >= 3 and sample3 > 1 and zlib.crc32(repr(seq).encode()) % sample3:
                continue
            for v in range(variants):
                out.append(build(("u", v), HEADS_U[(i + v) % len(HEADS_U)], seq, "unnamed"))
    # the un-named column arrives from a producer placed AFTER named steps, and appends of every naming pattern on both sides
    for pre in ["sel_named", "der_named", "join", "filter", "sort", "take", "split", "grp_take"]:
        for p in PRODUCERS:
            for post in [None, "split", "app_bn", "app_mix", "sort"]:
                for v in range(variants):
                    out.append(build(("u2", v), HEADS_U[(len(out) + v) % len(HEADS_U)], (pre, p) + ((post,) if post else ()), "unnamed"))
    return [c for c in out if c is not None]


FORMS_Q = [("decl", None), ("decl", "a"), ("let", None), ("let", "a"), ("sub", "a"), ("letd", None), ("subd", "a"), ("lit", None), ("lit", "a")]
KINDS_Q = ["excl_twin", "excl_other", "excl_two", "excl_this", "excl", "grp_take_twin", "grp_sort_take", "grp_take_inner", "grp_take_two", "grpagg_q",
           "sel_q", "sel_twins", "der_named", "der_shadow", "der_u", "filter", "sort", "take", "split", "join3", "self_join", "star", "letb", "app_bn"]
EXPANSIONS_Q = ["excl_twin", "excl_other", "excl_two", "excl_this", "grp_take_twin", "grp_sort_take", "grp_take_inner", "grp_take_two", "grpagg_q", "star"]


def heads_q():
    hs = []
    for (lf, la) in FORMS_Q:
        for (rf, ra) in FORMS_Q:
            rb = None if ra is None else "b"
            hs.append([(lf, "ta", la), (rf, "tb", rb)])
    for la in ("a",):
        hs.append([("decl", "ta", la), ("decl", "ta", "b")])                 # self-join
        hs.append([("let", "tb", la), ("let", "tb", "b")])
        hs.append([("decl", "ta", "a"), ("decl", "tb", "b"), ("decl", "tc", "c")])
        hs.append([("sub", "ta", "a"), ("sub", "tb", "b"), ("sub", "tc", "c")])
        hs.append([("decl", "ta", None), ("decl", "tb", None), ("decl", "tc", None)])
    return hs


def qualified_cases(per_seq2=3, sample3=0):
    """class 2: frames holding same-named columns of different known-column relations x exclusion / grouping by qualified names"""
    H = heads_q()
    out = []
    for h in H:
        for k in KINDS_Q:
            out.append(build("q1", h, (k,), "qualified"))
    i = 0
    for seq in itertools.product(KINDS_Q, KINDS_Q):
        if seq[0] not in EXPANSIONS_Q and seq[1] not in EXPANSIONS_Q:
            continue
        for v in range(per_seq2):
            i += 1
            out.append(build(("q2", v), H[(i * 7 + v * 13) % len(H)], seq, "qualified"))
    if sample3:
        for seq in itertools.product(KINDS_Q, KINDS_Q, KINDS_Q):
            if not (set(seq) & set(EXPANSIONS_Q)) or zlib.crc32(repr(seq).encode()) % sample3:
                continue
            i += 1
            out.append(build("q3", H[(i * 7) % len(H)], seq, "qualified"))
    return [c for c in out if c is not None]


def rand_cases(rng, n):
    H = heads_q()
    out = []
    for _ in range(n):
        if rng.random() < 0.5:
            head = rng.choice(HEADS_U)
            seq = [rng.choice(["sel_u", "der_u", "agg_u", "grpagg_u", "win_u", "sel_named", "join"])] + \
                  [rng.choice(FOLLOW_U) for _ in range(rng.randint(0, 4))]
        else:
            head = rng.choice(H)
            seq = [rng.choice(KINDS_Q + EXPANSIONS_Q) for _ in range(rng.randint(1, 4))]
        c = build(rng.random(), head, tuple(seq), "random")
        if c is not None:
            out.append(c)
    return out


# ---- judging
def _match(observed, expect, allnames):
    """-> None (differs) | set of tolerated recorded deviations needed to call it equal"""
    if len(observed) != len(expect):
        return None
    need = set()
    for o, e in zip(observed, expect):
        if e is None or o == e:
            continue
        if e == "~expr":
            if o.startswith("_expr_"):
                continue
            return None
        if o.startswith("_expr_") and allnames.count(e) >= 2:
            need.add("same-name-column-renamed")         # recorded (C01/C05): a column sharing its name with another one comes back as _expr_N
            continue
        return None
    return need


def _same_columns_other_order(observed, expect, allnames):
    if len(observed) != len(expect):
        return False
    obs = list(observed)
    left = []
    for e in expect:
        if e is None:
            continue
        if e in obs:
            obs.remove(e)
        else:
            left.append(e)
    # what is left of the expectation must be names carried twice (their columns come back as _expr_N), the rest of the observation
    # stands for those and for the un-named columns
    if any(allnames.count(e) < 2 for e in left):
        return False
    return sum(1 for o in obs if o.startswith("_expr_")) >= len(left)


ORDER_CLASS = "wildcard-equal-order-choice"


def judge(c, observed):
    """-> None (the result columns are the final frame) | finding id | "" (unclassified failure)"""
    # SQLite's own renaming when it expands `*` over a sub-query with two columns of one name (`id`, `id:1`) is not the compiler's
    observed = [re.sub(r":[0-9]+$", "", o) if (":" in o and c.allnames.count(re.sub(r":[0-9]+$", "", o)) >= 2) else o for o in observed]
    m = _match(observed, c.expect, c.allnames)
    if m is not None:
        return sorted(m)[0] if m else None
    for fr, fid in c.alts:
        if _match(observed, fr, c.allnames) is not None or (fr == [] and observed == ["NULL"]):     # no column left: SELECT NULL
            return fid
    if c.expansion and c.mixed:
        # the same columns in another order after an expansion over columns of several inputs / plain columns (recorded, C11: the
        # expansion lists them by Decl.order with ties broken by HashMap order - varies from call to call)
        for fr in [c.expect] + [fr for fr, fid in c.alts]:
            if _same_columns_other_order(observed, [None if e == "~expr" else e for e in fr], c.allnames):
                return ORDER_CLASS
    return ""
