"""C08, context x value x spelling grid: a literal must denote the same value in EVERY expression context, not only as a bare select item.

A context is a small PRQL program with holes for one value written several times (possibly in different spellings).  Its expected result is computed
by a Python model of the context over the rows of table k (COALESCE(NULL, v) = v, REPLACE(s, v, 'Z') = s.replace(v, 'Z'), `s LIKE v || '%'` by a LIKE
matcher, `A == B` of two spellings of one value = true, ...), never from the emitted SQL.  Oracles:
  * SQLite (targets sql.sqlite and - where the context executes for a harmless value - sql.generic): the rows the emitted statement returns must be
    the rows of the model;
  * every dialect: the sqlparser token stream of the statement for value v must be the token stream of the statement for the placeholder value
    with the placeholder replaced by v inside the string tokens (no literal content changes the structure of the statement, no context changes the
    literal).
Used by props/c08.py (`suite_contexts`); `H` is that module (spellings, escaping, classification, batching)."""
import itertools, json, re, sqlite3, time
from collections import Counter

PH = "Qz9q"         # harmless placeholder value: mixed case, occurs in no other value and in no SQL text prqlc generates
OTHER = "!"         # W = v + OTHER is a different value (v is a proper prefix of W: v < W)

CORE = ["--", "a--b", "-- x", "---", "- -", "----", "x --", "/*", "*/", "/* x */", "/*--*/", ";", "'", "''", "'--", "--'", '"', "\\", "\\\\", "\\'", "\\--",
        "%", "_", "a%b_c", "%--%", "{", "}", "{}", "{{x}}", "{s}", "{l}", "{column:0}", "{0}", "$1", "$", "?", "?1", "@x", ":x", "\n", "a\nb", "--\n", "\r\n", "\t",
        "é", "\U0001D11E", "你好", "abc", "ABC", "C:\\temp", " ", "  a  ", "' OR 1=1 --", "'; DROP TABLE k; --", "NULL", "null", "true", "0", "1e3", "0x10",
        "(", ")", ",", "||", "==", "=>", "->", "#", "# c", "`", "[", "]", "CONCAT(", "%s", "s", "k.s", "-", "- ", " -", "–", "−−", "-\u200b-", "a" * 2000,
        "--" * 1000, "'" * 64, ""]
ALPHA2 = ["'", '"', "\\", "\n", "-", "/", "*", ";", "{", "}", "é", "%", "a"]


def rows_for(v):
    return [(1, None, 1, "2020-02-29"), (2, v, 2, "2019-12-31"), (3, "x" + v + "y", 10, "2020-03-01"), (4, "zz", 11, None), (5, v + v, 12, "2020-02-29")]


# ------------------------------------------------------------------------------------------------------------------------------
# SQLite's scalar semantics, written out (the models below are closed forms over these)
# ------------------------------------------------------------------------------------------------------------------------------

def _lo(x):
    return "".join(chr(ord(c) + 32) if "A" <= c <= "Z" else c for c in x)


def _up(x):
    return "".join(chr(ord(c) - 32) if "a" <= c <= "z" else c for c in x)


def _swap(x):
    return "".join(chr(ord(c) ^ 32) if "a" <= c <= "z" or "A" <= c <= "Z" else c for c in x)


def like(text, pat):
    """SQL LIKE as SQLite defines it: % = any run, _ = one character, ASCII letters compare case-insensitively, no escape character"""
    if text is None or pat is None:
        return None
    rx = "".join(".*" if c == "%" else "." if c == "_" else re.escape(c) for c in _lo(pat))
    return int(re.fullmatch(rx, _lo(text), re.S) is not None)


def b(x):
    return None if x is None else int(bool(x))


def eq(a, c):
    return None if a is None or c is None else int(a == c)


def lt(a, c):
    return None if a is None or c is None else int(a.encode("utf-8") < c.encode("utf-8"))


def coalesce(*xs):
    return next((x for x in xs if x is not None), None)


def replace(s, pat, rep):
    if s is None or pat is None or rep is None:
        return None
    return s if pat == "" else s.replace(pat, rep)


def cat(*xs):
    return None if any(x is None for x in xs) else "".join(xs)


# ------------------------------------------------------------------------------------------------------------------------------
# string contexts
# ------------------------------------------------------------------------------------------------------------------------------
# item context: (name, number of literal holes, lambda lits, W -> PRQL expression, lambda v, row -> value, allows f-string spellings)
# row = (id, s, n, d); W is the source text of the other value v + "!"

def _items():
    I = []
    add = lambda name, k, ex, mo, f=True: I.append((name, k, ex, mo, f))
    add("coalesce-right", 1, lambda L, W: f"s ?? {L[0]}", lambda v, r: coalesce(r[1], v))
    add("coalesce-left", 1, lambda L, W: f"{L[0]} ?? s", lambda v, r: v)
    add("coalesce-null", 1, lambda L, W: f"null ?? {L[0]}", lambda v, r: v)
    add("coalesce-nested", 2, lambda L, W: f"(s ?? {L[0]}) ?? {L[1]}", lambda v, r: coalesce(r[1], v))
    add("coalesce-of-coalesce", 2, lambda L, W: f"null ?? (null ?? {L[0]}) ?? {L[1]}", lambda v, r: v)
    add("eq-column", 1, lambda L, W: f"s == {L[0]}", lambda v, r: eq(r[1], v))
    add("ne-column", 1, lambda L, W: f"{L[0]} != s", lambda v, r: b(None if r[1] is None else r[1] != v))
    add("lt-column", 1, lambda L, W: f"s < {L[0]}", lambda v, r: lt(r[1], v))
    add("gte-column", 1, lambda L, W: f"{L[0]} >= s", lambda v, r: b(None if r[1] is None else not lt(v, r[1])))
    add("eq-literals", 2, lambda L, W: f"{L[0]} == {L[1]}", lambda v, r: 1)
    add("ne-literals", 2, lambda L, W: f"{L[0]} != {L[1]}", lambda v, r: 0)
    add("lt-literals", 2, lambda L, W: f"{L[0]} < {L[1]}", lambda v, r: 0)
    add("lte-literals", 2, lambda L, W: f"{L[0]} <= {L[1]}", lambda v, r: 1)
    add("eq-other-value", 1, lambda L, W: f"{L[0]} == {W}", lambda v, r: 0)
    add("ne-other-value", 1, lambda L, W: f"{W} != {L[0]}", lambda v, r: 1)
    add("lt-other-value", 1, lambda L, W: f"{L[0]} < {W}", lambda v, r: 1)
    add("not-ne-literals", 2, lambda L, W: f"!({L[0]} != {L[1]})", lambda v, r: 1)
    add("and-eq-literals", 2, lambda L, W: f"({L[0]} == {L[1]}) && (n > 0)", lambda v, r: 1)
    add("or-ne-literals", 2, lambda L, W: f"({L[0]} != {L[1]}) || (n < 0)", lambda v, r: 0)
    add("coalesce-of-eq", 2, lambda L, W: f"({L[0]} == {L[1]}) ?? false", lambda v, r: 1)
    add("case-branch", 2, lambda L, W: f'case [s == {L[0]} => "hit", true => {L[1]}]', lambda v, r: "hit" if r[1] == v else v)
    add("case-literal-condition", 3, lambda L, W: f'case [{L[0]} == {L[1]} => {L[2]}, true => "no"]', lambda v, r: v)
    add("case-literal-condition-ne", 3, lambda L, W: f'case [{L[0]} != {L[1]} => "no", s == {L[2]} => "hit", true => "other"]',
        lambda v, r: "hit" if r[1] == v else "other")
    add("case-no-default", 1, lambda L, W: f"case [n > 2 => {L[0]}]", lambda v, r: v if r[2] > 2 else None)
    add("replace-pattern", 1, lambda L, W: f'(s | text.replace {L[0]} "Z")', lambda v, r: replace(r[1], v, "Z"))
    add("replace-replacement", 1, lambda L, W: f'(s | text.replace "x" {L[0]})', lambda v, r: replace(r[1], "x", v))
    add("replace-subject", 1, lambda L, W: f'({L[0]} | text.replace "q" "q")', lambda v, r: v)
    add("replace-all-three", 3, lambda L, W: f"({L[0]} | text.replace {L[1]} {L[2]})", lambda v, r: v)
    add("starts-with-pattern", 1, lambda L, W: f"(s | text.starts_with {L[0]})", lambda v, r: like(r[1], v + "%"))
    add("contains-pattern", 1, lambda L, W: f"(s | text.contains {L[0]})", lambda v, r: like(r[1], "%" + v + "%"))
    add("ends-with-pattern", 1, lambda L, W: f"(s | text.ends_with {L[0]})", lambda v, r: like(r[1], "%" + v))
    add("starts-with-subject", 2, lambda L, W: f"({L[0]} | text.starts_with {L[1]})", lambda v, r: 1)
    add("contains-subject", 1, lambda L, W: f"({L[0]} | text.contains s)", lambda v, r: like(v, None if r[1] is None else "%" + r[1] + "%"))
    add("ends-with-subject", 2, lambda L, W: f"({L[0]} | text.ends_with {L[1]})", lambda v, r: 1)
    add("upper", 1, lambda L, W: f"({L[0]} | text.upper)", lambda v, r: _up(v))
    add("lower", 1, lambda L, W: f"({L[0]} | text.lower)", lambda v, r: _lo(v))
    add("length", 1, lambda L, W: f"({L[0]} | text.length)", lambda v, r: len(v))
    add("trim", 1, lambda L, W: f"({L[0]} | text.trim)", lambda v, r: v.strip(" "))
    add("ltrim", 1, lambda L, W: f"({L[0]} | text.ltrim)", lambda v, r: v.lstrip(" "))
    add("rtrim", 1, lambda L, W: f"({L[0]} | text.rtrim)", lambda v, r: v.rstrip(" "))
    add("extract", 1, lambda L, W: f"({L[0]} | text.extract 1 5000)", lambda v, r: v[:5000])
    add("upper-of-coalesce", 1, lambda L, W: f"(text.upper (s ?? {L[0]}))", lambda v, r: _up(coalesce(r[1], v)))
    add("length-eq", 2, lambda L, W: f"(({L[0]} | text.length) == ({L[1]} | text.length))", lambda v, r: 1)
    add("regex-pattern", 1, lambda L, W: f"s ~= {L[0]}", lambda v, r: eq(r[1], v))                  # REGEXP is registered as string equality
    add("regex-subject", 2, lambda L, W: f"{L[0]} ~= {L[1]}", lambda v, r: 1)
    add("in-list", 1, lambda L, W: f'(s | in [{L[0]}, "zz"])', lambda v, r: b(None if r[1] is None else r[1] in (v, "zz")))
    add("in-list-subject", 2, lambda L, W: f'({L[0]} | in ["q", {L[1]}])', lambda v, r: 1)
    add("not-in-list-other-value", 1, lambda L, W: f"({L[0]} | in [{W}])", lambda v, r: 0)
    add("cast-text", 1, lambda L, W: f"({L[0]} | as text)", lambda v, r: v)
    add("fstring-eq", 1, lambda L, W: f'f"{{s}}" == {L[0]}', lambda v, r: eq(r[1], v))
    add("arith-neighbour", 1, lambda L, W: f"(n - -1) ?? 0", lambda v, r: r[2] + 1, False)          # the guard m6 rewrote: `- -1` must stay arithmetic
    return I


ITEMS = _items()
ITEM_GROUPS = None


def item_groups():
    """item contexts packed into programs of <= 6 select items (regex on its own: several dialects have no translation for it)"""
    global ITEM_GROUPS
    if ITEM_GROUPS is None:
        rx = [i for i in ITEMS if i[0].startswith("regex")]
        rest = [i for i in ITEMS if not i[0].startswith("regex")]
        ITEM_GROUPS = [rest[i:i + 6] for i in range(0, len(rest), 6)] + [rx]
    return ITEM_GROUPS


def _json_lit(H, v):
    return '"' + H.esc(json.dumps([{"a": v, "b": 1}], ensure_ascii=False), '"', nl_escape=True) + '"'


def _srt(rows):
    return sorted(rows, key=repr)


def _group(rows, key):
    out = {}
    for r in rows:
        out.setdefault(key(r), []).append(r)
    return out


# program context: (name, holes, lambda L, W, v, H -> PRQL, lambda v, rows -> (column names, rows), ordered?, allows f-string spellings)
def _programs():
    P = []
    add = lambda name, k, pr, mo, ordered=False, f=True: P.append((name, k, pr, mo, ordered, f))
    add("filter-eq", 1, lambda L, W, v, H: f"from k | filter s == {L[0]} | select {{id}}", lambda v, R: (["id"], [[r[0]] for r in R if r[1] == v]))
    add("filter-literals-eq", 2, lambda L, W, v, H: f"from k | filter {L[0]} == {L[1]} | select {{id}}", lambda v, R: (["id"], [[r[0]] for r in R]))
    add("filter-literals-ne", 2, lambda L, W, v, H: f"from k | filter {L[0]} != {L[1]} | select {{id}}", lambda v, R: (["id"], []))
    add("filter-starts-with", 1, lambda L, W, v, H: f"from k | filter (s | text.starts_with {L[0]}) | select {{id}}",
        lambda v, R: (["id"], [[r[0]] for r in R if like(r[1], v + "%")]))
    add("filter-coalesce", 2, lambda L, W, v, H: f"from k | filter (s ?? {L[0]}) == {L[1]} | select {{id}}",
        lambda v, R: (["id"], [[r[0]] for r in R if coalesce(r[1], v) == v]))
    add("derive-then-filter", 2, lambda L, W, v, H: f"from k | derive {{x = {L[0]}}} | filter x == {L[1]} | select {{id, x}}",
        lambda v, R: (["id", "x"], [[r[0], v] for r in R]))
    add("sort-key", 1, lambda L, W, v, H: f"from k | sort {{(s ?? {L[0]}), id}} | select {{id}}",
        lambda v, R: (["id"], [[r[0]] for r in sorted(R, key=lambda r: (coalesce(r[1], v).encode("utf-8"), r[0]))]), True)
    add("group-key", 1, lambda L, W, v, H: f"from k | group {{g = s ?? {L[0]}}} (aggregate {{c = count this}})",
        lambda v, R: (["g", "c"], [[g, len(x)] for g, x in _group(R, lambda r: coalesce(r[1], v)).items()]))
    add("group-constant-key", 1, lambda L, W, v, H: f"from k | derive {{a = {L[0]}}} | group {{a}} (aggregate {{c = count this}})",
        lambda v, R: (["a", "c"], [[v, len(R)]]))
    add("group-having", 2, lambda L, W, v, H: f"from k | group {{g = s ?? {L[0]}}} (aggregate {{c = count this}}) | filter g == {L[1]}",
        lambda v, R: (["g", "c"], [[v, sum(1 for r in R if coalesce(r[1], v) == v)]]))
    add("aggregate-args", 3, lambda L, W, v, H: f"from k | aggregate {{a = max (s ?? {L[0]}), b = min {L[1]}, c = count_distinct (s ?? {L[2]})}}",
        lambda v, R: (["a", "b", "c"], [[max((coalesce(r[1], v) for r in R), key=lambda x: x.encode("utf-8")), v, len({coalesce(r[1], v) for r in R})]]))
    add("window-lag", 1, lambda L, W, v, H: f"from k | sort id | derive {{w = lag 1 (s ?? {L[0]})}} | select {{id, w}}",
        lambda v, R: (["id", "w"], [[r[0], None if i == 0 else coalesce(R[i - 1][1], v)] for i, r in enumerate(R)]), True)
    add("window-frame", 1, lambda L, W, v, H: f"from k | sort id | window rows:-1..0 (derive {{m = max (s ?? {L[0]})}}) | select {{id, m}}",
        lambda v, R: (["id", "m"], [[r[0], max((coalesce(x[1], v) for x in R[max(0, i - 1):i + 1]), key=lambda x: x.encode("utf-8"))] for i, r in enumerate(R)]), True)
    add("join-condition", 2, lambda L, W, v, H: f"from k | join side:inner (from [{{a = {L[0]}, b = 7}}]) (s == a && a == {L[1]}) | select {{id, b}}",
        lambda v, R: (["id", "b"], [[r[0], 7] for r in R if r[1] == v]), False, False)
    add("join-literal-condition", 2, lambda L, W, v, H: f"from k | join side:left (from [{{b = 7}}]) ({L[0]} == {L[1]}) | select {{id, b}}",
        lambda v, R: (["id", "b"], [[r[0], 7] for r in R]))
    add("relation-literal-filter", 2, lambda L, W, v, H: f'from [{{a = {L[0]}, b = 1}}, {{a = {W}, b = 2}}] | filter a == {L[1]} | select {{a, b}}',
        lambda v, R: (["a", "b"], [[v, 1]]), False, False)
    add("relation-literal-operands", 3, lambda L, W, v, H: f'from [{{a = {L[0]}}}] | select {{c = a ?? "z", r = (a | text.replace {L[1]} "Z"), e = a == {L[2]}}}',
        lambda v, R: (["c", "r", "e"], [[v, replace(v, v, "Z"), 1]]), False, False)
    add("from-text-json", 1, lambda L, W, v, H: f"from_text format:json {_json_lit(H, v)} | select {{a, e = a == {L[0]}}}",
        lambda v, R: (["a", "e"], [[v, 1]]))
    add("let-constant", 2, lambda L, W, v, H: f"let c = {L[0]}\nfrom k | select {{id, v = c, e = c == {L[1]}, n = c != {L[1]}, z = s ?? c}}",
        lambda v, R: (["id", "v", "e", "n", "z"], [[r[0], v, 1, 0, coalesce(r[1], v)] for r in R]))
    add("function-parameters", 3, lambda L, W, v, H: f"let same = a b -> a == b\nlet dflt = x -> x ?? {L[0]}\nfrom k | select {{id, e = same {L[1]} {L[2]}, d = dflt s}}",
        lambda v, R: (["id", "e", "d"], [[r[0], 1, coalesce(r[1], v)] for r in R]))
    add("function-default-parameter", 2, lambda L, W, v, H: f"let dflt = x d:{L[0]} -> x ?? d\nfrom k | select {{id, a = dflt s, b = dflt d:{L[1]} s, c = dflt d:{W} s}}",
        lambda v, R: (["id", "a", "b", "c"], [[r[0], coalesce(r[1], v), coalesce(r[1], v), coalesce(r[1], v + OTHER)] for r in R]))
    add("near-values", 3, lambda L, W, v, H: "from k | select {id, a = " + L[0] + " == " + H._dq(_swap(v)) + ", b = " + L[1] + " != " + H._dq(v + " ") + ", c = " + H._dq(" " + v) + " == " + L[2] +
        ", d = (" + L[0] + " | in [" + H._dq(v + v) + ", " + H._dq("x" + v) + "])}",
        lambda v, R: (["id", "a", "b", "c", "d"], [[r[0], int(_swap(v) == v), 1, 0, int(v == "")] for r in R]))
    add("s-string-operand", 1, lambda L, W, v, H: f'from k | derive {{c = {L[0]}}} | select {{id, v = s"COALESCE(NULL, {{c}})"}}',
        lambda v, R: (["id", "v"], [[r[0], v] for r in R]))
    add("f-string-operand", 1, lambda L, W, v, H: f'from k | derive {{x = {L[0]}}} | select {{id, v = f"<{{x}}>{{s}}"}}',
        lambda v, R: (["id", "v"], [[r[0], cat("<", v, ">", r[1])] for r in R]))
    add("f-string-fragment", 0, lambda L, W, v, H: 'from k | select {id, v = f"{s}' + H.esc(H.braces(v), '"', nl_escape=True) + '>", c = s ?? f"' + H.esc(H.braces(v), '"', nl_escape=True) + '"}',
        lambda v, R: (["id", "v", "c"], [[r[0], cat(r[1], v, ">"), coalesce(r[1], v)] for r in R]))
    add("append-constant", 1, lambda L, W, v, H: f"from k | select {{s}} | append (from k | select {{s = {L[0]}}})",
        lambda v, R: (["s"], [[r[1]] for r in R] + [[v] for r in R]))
    return P


PROGRAMS = _programs()
# contexts whose statement legitimately depends on the value (a comparison the compiler folds is true for some values and false for others)
NO_TOKEN_ORACLE = {"near-values"}


def string_contexts():
    """[(name, holes, build(L, W, v, H) -> PRQL, model(v, rows) -> (names, rows), ordered, allows f spellings, item names)]"""
    out = []
    for gi, g in enumerate(item_groups()):
        k = max(i[1] for i in g)

        def build(L, W, v, H, g=g):
            return "from k | select {id, " + ", ".join(f"c{j} = {i[2](L, W)}" for j, i in enumerate(g)) + "}"

        def model(v, R, g=g):
            return ["id"] + [f"c{j}" for j in range(len(g))], [[r[0]] + [i[3](v, r) for i in g] for r in R]
        out.append(("items:" + "+".join(i[0] for i in g), k, build, model, False, all(i[4] for i in g), [i[0] for i in g]))
    for (name, k, pr, mo, ordered, f) in PROGRAMS:
        out.append((name, k, pr, mo, ordered, f, None))
    return out


def single_item_context(item):
    name, k, ex, mo, f = item
    return (name, k, lambda L, W, v, H: f"from k | select {{id, c0 = {ex(L, W)}}}", lambda v, R: (["id", "c0"], [[r[0], mo(v, r)] for r in R]), False, f, [name])


# ------------------------------------------------------------------------------------------------------------------------------
# execution
# ------------------------------------------------------------------------------------------------------------------------------

def _concat(*a):
    return None if any(x is None for x in a) else "".join(str(x) for x in a)


class Db:
    """one in-memory database, table k refilled per value (bound parameters: the reference side never goes through SQL quoting)"""

    def __init__(self):
        self.con = sqlite3.connect(":memory:")
        self.con.execute("CREATE TABLE k (id INTEGER, s TEXT, n INTEGER, d TEXT)")
        # functions SQLite 3.40 lacks but other databases have, so that sql.generic statements can be executed where that is all they need
        self.con.create_function("CONCAT", -1, _concat, deterministic=True)
        self.con.create_function("CHAR_LENGTH", 1, lambda x: None if x is None else len(x), deterministic=True)
        self.con.create_function("REGEXP", 2, lambda p, t: None if p is None or t is None else int(p == t), deterministic=True)
        self.cur = None

    def fill(self, rows):
        key = repr(rows)
        if key != self.cur:
            self.con.execute("DELETE FROM k")
            self.con.executemany("INSERT INTO k VALUES (?, ?, ?, ?)", rows)
            self.cur = key

    def run(self, sql):
        try:
            c = self.con.execute(sql)
            return [d[0] for d in c.description] if c.description else [], [list(r) for r in c.fetchall()]
        except Exception as e:
            return "error", f"{type(e).__name__}: {e}"


def setup_sql(rows):
    q = lambda x: "NULL" if x is None else str(x) if isinstance(x, int) else "'" + x.replace("'", "''") + "'"
    return ["CREATE TABLE k (id INTEGER, s TEXT, n INTEGER, d TEXT)"] + ["INSERT INTO k VALUES (" + ", ".join(q(x) for x in r) + ")" for r in rows]


def same_result(got, want, ordered):
    if got[0] == "error" or got[0] != want[0]:
        return False
    a, w = got[1], want[1]
    if not ordered:
        a, w = _srt(a), _srt(w)
    if len(a) != len(w):
        return False
    for ra, rw in zip(a, w):
        for x, y in zip(ra, rw):
            if x != y or (type(x) is not type(y) and not (isinstance(x, int) and isinstance(y, int))):
                return False
    return True


def subst_tokens(toks, v):
    """token stream of the placeholder statement with the placeholder replaced inside string tokens"""
    out = []
    for t in toks:
        if isinstance(t, dict) and len(t) == 1:
            (kk, vv), = t.items()
            if "String" in kk and isinstance(vv, str) and PH in vv:
                t = {kk: vv.replace(PH, v)}
        out.append(t)
    return out


# ------------------------------------------------------------------------------------------------------------------------------
# numbers: every spelling of one number is one value in every context (also where both operands are literals and the compiler folds)
# ------------------------------------------------------------------------------------------------------------------------------

INTS = [0, 1, 2, 7, 10, 255, 256, 65535, 2 ** 31, 2 ** 32 - 1, 10 ** 12, 2 ** 48 - 1, 2 ** 62, 2 ** 63 - 1]
FLOATS = [1.5, 0.1, 0.5, 10.0, 1000.0, 0.0025, 123456.789, 1e22, 2.5e-7]


def int_spellings(m):
    ds = str(m)
    out = [ds]
    if len(ds) > 1:
        out.append(ds[0] + "_" + ds[1:])
    if len(ds) > 3:
        out.append(ds[:-3] + "_" + ds[-3:])
    hx, oc, bn = "%x" % m, "%o" % m, bin(m)[2:]
    if len(hx) <= 12:
        out += ["0x" + hx, "0x" + hx.upper(), "0x_" + hx]
    if len(oc) <= 12:
        out += ["0o" + oc, "0o_" + oc]
    if len(bn) <= 32:
        out += ["0b" + bn, "0b_" + bn]
    return list(dict.fromkeys(out))


def float_spellings(f):
    from decimal import Decimal
    sign, digits, e = Decimal(repr(f)).as_tuple()
    M = "".join(map(str, digits)).lstrip("0") or "0"
    r = repr(f)
    out = [] if "e" in r else [r, r + "0", r + "_0"]
    out += [f"{M}e{e}", f"{M}.0e{e}", f"{M}E{e:+d}", f"{M}0e{e - 1}", f"{M[0]}.{M[1:] or '0'}e{e + len(M) - 1}", f"0.{M}e{e + len(M)}", f"0.{M}0E{e + len(M)}"]
    if len(M) > 1:
        out.append(f"{M[0]}_{M[1:]}e{e}")
    return [s for s in dict.fromkeys(out) if float(s.replace("_", "")) == f]


def _num_items(is_int):
    I = []
    add = lambda name, k, ex, mo, ok=lambda m: True: I.append((name, k, ex, mo, ok))
    small = lambda m: m < 2 ** 40
    add("add", 1, lambda X: f"n + {X[0]}", lambda m, r: r[2] + m, small)
    add("mul", 1, lambda X: f"{X[0]} * n", lambda m, r: m * r[2], small)
    add("eq-column", 1, lambda X: f"n == {X[0]}", lambda m, r: int(r[2] == m))
    add("lt-column", 1, lambda X: f"n < {X[0]}", lambda m, r: int(r[2] < m))
    add("eq-literals", 2, lambda X: f"{X[0]} == {X[1]}", lambda m, r: 1)
    add("ne-literals", 2, lambda X: f"{X[0]} != {X[1]}", lambda m, r: 0)
    add("lt-literals", 2, lambda X: f"{X[0]} < {X[1]}", lambda m, r: 0)
    add("gte-literals", 2, lambda X: f"{X[0]} >= {X[1]}", lambda m, r: 1)
    add("not-ne-literals", 2, lambda X: f"!({X[0]} != {X[1]})", lambda m, r: 1)
    add("in-range-column", 2, lambda X: f"(n | in {X[0]}..{X[1]})", lambda m, r: int(r[2] == m))
    add("in-range-subject", 2, lambda X: f"({X[0]} | in 0..{X[1]})", lambda m, r: 1)
    add("abs", 1, lambda X: f"math.abs {X[0]}", lambda m, r: m)
    add("coalesce-left", 1, lambda X: f"{X[0]} ?? n", lambda m, r: m)
    add("coalesce-null", 1, lambda X: f"null ?? {X[0]}", lambda m, r: m)
    add("coalesce-right", 1, lambda X: f"n ?? {X[0]}", lambda m, r: r[2])
    add("case-literal-condition", 3, lambda X: f"case [{X[0]} == {X[1]} => {X[2]}, true => -1]", lambda m, r: m)
    add("case-literal-condition-ne", 3, lambda X: f'case [{X[0]} != {X[1]} => "no", n == {X[2]} => "hit", true => "other"]', lambda m, r: "hit" if r[2] == m else "other")
    add("neg", 1, lambda X: f"-{X[0]}", lambda m, r: -m)
    add("div", 1, lambda X: f"{X[0]} / 2", lambda m, r: float(m) / 2)
    if is_int:
        add("mod", 1, lambda X: f"{X[0]} % 7", lambda m, r: m % 7)
    return I


def number_contexts(is_int):
    """[(name, holes, build(X) -> PRQL, model(m, rows) -> (names, rows), ordered, applicable(m))]"""
    items = _num_items(is_int)
    out = []
    for gi in range(0, len(items), 7):
        g = items[gi:gi + 7]

        def build(X, m, g=g):
            return "from k | select {id, " + ", ".join(f"c{j} = {i[2](X)}" for j, i in enumerate(g) if i[4](m)) + "}"

        def model(m, R, g=g):
            gg = [(j, i) for j, i in enumerate(g) if i[4](m)]
            return ["id"] + [f"c{j}" for j, _ in gg], [[r[0]] + [i[3](m, r) for _, i in gg] for r in R]
        out.append(("num-items:" + "+".join(i[0] for i in g), max(i[1] for i in g), build, model, False, lambda m: True))
    add = lambda name, k, pr, mo, ordered=False, ok=lambda m: True: out.append((name, k, pr, mo, ordered, ok))
    add("filter-lt", 1, lambda X, m: f"from k | filter n < {X[0]} | select {{id}}", lambda m, R: (["id"], [[r[0]] for r in R if r[2] < m]))
    add("filter-literals-eq", 2, lambda X, m: f"from k | filter {X[0]} == {X[1]} | select {{id}}", lambda m, R: (["id"], [[r[0]] for r in R]))
    add("filter-literals-ne", 2, lambda X, m: f"from k | filter {X[0]} != {X[1]} | select {{id}}", lambda m, R: (["id"], []))
    add("relation-literal", 3, lambda X, m: f"from [{{a = {X[0]}, b = {X[1]}}}] | select {{a, e = a == b, f = a == {X[2]}}}", lambda m, R: (["a", "e", "f"], [[m, 1, 1]]))
    add("let-constant", 2, lambda X, m: f"let c = {X[0]}\nfrom k | select {{id, v = c, e = c == {X[1]}, g = c != {X[1]}}}",
        lambda m, R: (["id", "v", "e", "g"], [[r[0], m, 1, 0] for r in R]))
    add("function-parameters", 2, lambda X, m: f"let same = a b -> a == b\nfrom k | select {{id, e = same {X[0]} {X[1]}}}", lambda m, R: (["id", "e"], [[r[0], 1] for r in R]))
    add("join-literal-condition", 2, lambda X, m: f"from k | join side:left (from [{{b = 7}}]) ({X[0]} == {X[1]}) | select {{id, b}}", lambda m, R: (["id", "b"], [[r[0], 7] for r in R]))
    if is_int:
        add("group-key", 1, lambda X, m: f"from k | group {{g = n + {X[0]}}} (aggregate {{c = count this}})", lambda m, R: (["g", "c"], [[r[2] + m, 1] for r in R]), False, lambda m: m < 2 ** 40)
        add("take", 1, lambda X, m: f"from k | sort id | take {X[0]} | select {{id}}", lambda m, R: (["id"], [[r[0]] for r in R[:m]]), True, lambda m: 1 <= m <= 10)
        add("take-range", 2, lambda X, m: f"from k | sort id | take {X[0]}..{X[1]} | select {{id}}", lambda m, R: (["id"], [[r[0]] for r in R[m - 1:m]]), True, lambda m: 1 <= m <= 10)
        add("lag-offset", 1, lambda X, m: f"from k | sort id | derive {{w = lag {X[0]} n}} | select {{id, w}}",
            lambda m, R: (["id", "w"], [[r[0], R[i - m][2] if i >= m else None] for i, r in enumerate(R)]), True, lambda m: 1 <= m <= 10)
        add("text-extract", 2, lambda X, m: f'from k | select {{id, v = ("abcdefghijklmnop" | text.extract {X[0]} {X[1]})}}',
            lambda m, R: (["id", "v"], [[r[0], "abcdefghijklmnop"[m - 1:2 * m - 1]] for r in R]), False, lambda m: 1 <= m <= 10)
        add("round-digits", 1, lambda X, m: f"from k | select {{id, v = math.round {X[0]} 2.718281828}}", lambda m, R: (["id", "v"], [[r[0], round(2.718281828, m)] for r in R]), False, lambda m: m in (0, 1, 2, 7))
        add("pow", 2, lambda X, m: f"from k | select {{id, v = math.pow 2 {X[0]}, w = math.pow {X[1]} 2}}", lambda m, R: (["id", "v", "w"], [[r[0], float(m) ** 2, 2.0 ** m] for r in R]),
            False, lambda m: m <= 255)
        add("window-rows", 1, lambda X, m: f"from k | sort id | window rows:-{X[0]}..0 (derive {{w = sum n}}) | select {{id, w}}",
            lambda m, R: (["id", "w"], [[r[0], sum(x[2] for x in R[max(0, i - m):i + 1])] for i, r in enumerate(R)]), True, lambda m: 1 <= m <= 10)
        add("int-vs-float", 1, lambda X, m: f"from k | select {{id, e = {X[0]} == {m}.0, l = {X[0]} < {m}.5}}", lambda m, R: (["id", "e", "l"], [[r[0], 1, 1] for r in R]), False, lambda m: m < 2 ** 50)
    return out


# ------------------------------------------------------------------------------------------------------------------------------
# dates, times, timestamps
# ------------------------------------------------------------------------------------------------------------------------------

DATES = ["2020-02-29", "1999-12-31", "0001-01-01", "2019-12-31"]
# two written forms of one time of day / one instant with one offset
TEMPORAL_PAIRS = [("Time", "@10:00", "@10:00:00"), ("Time", "@23:59", "@23:59:00"), ("Timestamp", "@2020-01-01T10:00", "@2020-01-01T10:00:00"),
                  ("Timestamp", "@2020-01-01T10:00:00Z", "@2020-01-01T10:00:00+00:00"), ("Timestamp", "@2020-01-01T10:00:00+02:00", "@2020-01-01T10:00:00+0200"),
                  ("Timestamp", "@2020-06-15T23:59:59-03:30", "@2020-06-15T23:59:59-0330")]


def temporal_programs():
    """[(name, kind, A, B, PRQL, model(rows) -> (names, rows))]"""
    out = []
    for dt in DATES:
        D = "@" + dt
        out.append(("date-items", "Date", D, D,
                    f"from k | select {{id, a = d == {D}, b = {D} == {D}, c = {D} != {D}, e = {D} < @9999-12-31, f = null ?? {D}, g = case [{D} == {D} => {D}], "
                    f"h = (d | in {D}..@2020-12-31), i = {D} ?? d}}",
                    lambda R, dt=dt: (["id", "a", "b", "c", "e", "f", "g", "h", "i"],
                                      [[r[0], eq(r[3], dt), 1, 0, 1, dt, dt, None if r[3] is None else int(dt <= r[3] <= "2020-12-31"), dt] for r in R])))
        out.append(("date-filter", "Date", D, D, f"from k | filter d == {D} | select {{id}}", lambda R, dt=dt: (["id"], [[r[0]] for r in R if r[3] == dt])))
        out.append(("date-group-key", "Date", D, D, f"from k | group {{g = d ?? {D}}} (aggregate {{c = count this}})",
                    lambda R, dt=dt: (["g", "c"], [[g, len(x)] for g, x in _group(R, lambda r: coalesce(r[3], dt)).items()])))
    for kind, A0, B0 in TEMPORAL_PAIRS:
        for A, B in ((A0, B0), (B0, A0), (A0, A0), (B0, B0)):
            allr = lambda R: (["id", "c0"], [[r[0], 1] for r in R])
            none = lambda R: (["id", "c0"], [[r[0], 0] for r in R])
            out.append(("temporal-eq", kind, A, B, f"from k | select {{id, c0 = {A} == {B}}}", allr))
            out.append(("temporal-ne", kind, A, B, f"from k | select {{id, c0 = {A} != {B}}}", none))
            out.append(("temporal-lt", kind, A, B, f"from k | select {{id, c0 = {A} < {B}}}", none))
            out.append(("temporal-gte", kind, A, B, f"from k | select {{id, c0 = {A} >= {B}}}", allr))
            out.append(("temporal-eq-filter", kind, A, B, f"from k | filter {A} == {B} | select {{id}}", lambda R: (["id"], [[r[0]] for r in R])))
            out.append(("temporal-eq-case", kind, A, B, f"from k | select {{id, c0 = case [{A} == {B} => 1, true => 0]}}", allr))
    return out
