"""Systematic grids for C10 (tools/props/c10.py): seed-independent families of ill-scoped programs.

  context_cells(level)   an ill-scoped reference R placed in every syntactic position (POSITIONS) under every kind of expression
                         context (CONTEXTS: plain operators, interpolations, ranges, statically dead / live `case` branches, coalesce
                         and && / || operands next to constants, arguments of functions that ignore them, named-argument values, ...),
                         over BASES whose frame at the insertion point is fully known.  Every cell carries its well-scoped twin
                         (the same text with an in-scope column G instead of R): the twin tells whether the surrounding text is valid.
  call_cells()           malformed CALLS: surplus positional arguments, unknown / duplicated named arguments (also next to valid ones),
                         named or positional arguments given to something that is not a function; for std transforms, std scalar and
                         aggregate functions and user functions (with and without defaults), in full / piped / partially applied
                         form (the last two give calls that carry ONLY named arguments), at several syntactic positions.
Text conventions of the templates: `§` = the hole (the reference, or the expression built around it), `¤` = a good int column of the
frame, `¤2` = a second good column.  Everything here is deterministic; random use is in c10.edits via random_context()."""
import re

CD = "module default_db {\n let t0 <[{u0 = int, a0 = int, k = int}]>\n let t1 <[{u1 = int, a1 = int, k = int}]>\n}\n"
TABLES = {"t0": ["u0", "a0", "k"], "t1": ["u1", "a1", "k"]}

HELPERS = {  # user definitions the templates may use (emitted only when the text mentions them)
    "zc_f": "let zc_f = false", "zc_t": "let zc_t = true", "zc_n": "let zc_n = null",
    "zign9": "let zign9 = x -> 1", "zfst9": "let zfst9 = x y -> x", "znm9": "let znm9 = x n:0 -> x",
    "zf9": "let zf9 = x -> x + 1", "zg9": "let zg9 = x n:0 -> x + n", "zh9": "let zh9 = a b m:1 n:2 -> a + b + m + n",
    "ztop9": "let ztop9 = func n:3 tbl <relation> -> <relation> (tbl | take n)",
    "zkeep9": "let zkeep9 = func tbl <relation> -> <relation> (tbl | take 3)",
    "zsrt9": "let zsrt9 = func by tbl <relation> -> <relation> (tbl | sort by)",
    "zk9": "let zk9 = func n:1 -> n",
}


def helpers_for(text):
    return [n for n in HELPERS if re.search(rf"(?<![\w.]){n}\b", text)]


# ------------------------------------------------------------------------------------------------------------------------------
# expression contexts: (label, template, static?)     static = the position of § is statically decidable (dead or forced live)
# ------------------------------------------------------------------------------------------------------------------------------
SIMPLE = [
    ("id", "§"), ("paren", "((§))"), ("add-l", "(§ + 1)"), ("add-r", "(1 + §)"), ("neg", "(-§)"), ("mul", "(§ * ¤)"),
    ("eq-null", "(§ == null)"), ("gt", "(§ > 1)"), ("not", "(!(§ > 1))"),
    ("fstr", 'f"{§}x"'), ("fstr-2", 'f"{¤}-{§}"'), ("sstr", 's"abs({§})"'), ("sstr-2", 's"{¤} + {§}"'),
    ("abs", "(math.abs §)"), ("pipe-abs", "(§ | math.abs)"), ("round", "(math.round 1 §)"), ("pow", "(math.pow § 2)"),
    ("lag", "(lag 1 §)"), ("as", "(§ | as int)"), ("in", "(§ | in 1..3)"), ("range-lo", "(¤ | in §..3)"), ("range-hi", "(¤ | in 1..§)"),
    ("pipe-user", "(§ | zf9)"), ("user-piped-named", "(§ | zg9 n:1)"),
    # a reference that FOLLOWS a range / tuple argument in the same expression (the range desugars to {start = .., end = ..}; the field
    # names of such a tuple are not columns of the frame)
    ("after-range", "((¤ | in 1..3) && (§ > 1))"), ("after-range-or", "((¤ | in 2..¤) || (§ == null))"),
]
STATIC = [
    # statically dead case branches
    ("case-false", "(case [false => §, true => 1])"),
    ("case-after-true", "(case [true => 1, true => §])"),
    ("case-false-after-true", "(case [true => 1, false => §])"),
    ("case-cond-after-true", "(case [true => 1, § > 1 => 2])"),
    ("case-let-false", "(case [zc_f => §, true => 1])"),
    ("case-after-let-true", "(case [zc_t => 1, true => §])"),
    ("case-cmp-false", "(case [1 == 2 => §, true => 1])"),
    ("case-and-false", "(case [(false && ¤ > 1) => §, true => 1])"),
    ("case-coalesce-false", "(case [(null ?? false) => §, true => 1])"),
    ("case-not-true", "(case [(!true) => §, true => 1])"),
    ("case-null-cond", "(case [null => §, true => 1])"),
    ("case-last-false", "(case [¤ > 1 => 1, false => §])"),
    ("case-third-after-true", "(case [false => 1, true => 2, ¤ > 1 => §])"),
    ("case-nested-dead", "(case [false => (case [true => §]), true => 1])"),
    ("case-only-false", "(case [false => §])"),
    ("case-let-false-fstr", '(case [zc_f => f"{¤} ({§})", true => f"{¤}"])'),
    # live branches and conditions
    ("case-true", "(case [true => §])"),
    ("case-live", "(case [¤ > 1 => §, true => 1])"),
    ("case-cond", "(case [§ > 1 => 1, true => 2])"),
    ("case-default", "(case [¤ > 1 => 1, true => §])"),
    ("case-after-false", "(case [false => 1, true => §])"),
    ("case-cond-dead-and", "(case [(false && § > 1) => 1, true => 2])"),
    # coalesce
    ("coalesce-null", "(null ?? §)"), ("coalesce-lit", "(1 ?? §)"), ("coalesce-l", "(§ ?? 1)"), ("coalesce-col", "(¤ ?? §)"),
    ("coalesce-let-null", "(zc_n ?? §)"),
    # && / || next to a constant
    ("and-false-l", "(false && § > 1)"), ("and-false-r", "(§ > 1 && false)"), ("or-true-l", "(true || § > 1)"),
    ("or-true-r", "(§ > 1 || true)"), ("and-true", "(true && § > 1)"), ("or-false", "(false || § > 1)"),
    ("and-let-false", "(zc_f && § > 1)"), ("or-let-true", "(zc_t || § > 1)"), ("and-null", "(null && § > 1)"),
    # arguments that the callee ignores; values of named arguments
    ("ignored-arg", "(zign9 §)"), ("ignored-2nd", "(zfst9 1 §)"), ("ignored-2nd-col", "(zfst9 ¤ §)"),
    ("ignored-named", "(znm9 1 n:§)"), ("ignored-named-only", "(1 | znm9 n:§)"), ("ignored-named-partial", "((znm9 n:§) 1)"),
    ("named-value", "(zg9 ¤ n:§)"), ("named-only-value", "(¤ | zg9 n:§)"), ("named-partial-value", "((zg9 n:§) ¤)"),
    ("named-2-value", "(zh9 ¤ 1 n:§)"), ("named-2-only-value", "(zh9 m:§ n:1 ¤ 1)"),
]
LEAVES2 = [("fstr", 'f"{§}x"'), ("add", "(§ + 1)"), ("abs", "(math.abs §)"), ("coalesce", "(§ ?? 1)"), ("case-true", "(case [true => §])"),
           ("named-only", "(1 | zg9 n:§)")]
OUTSIDE_MODEL = [("after-tuple-arg", "((zign9 {zq8 = ¤, zq7 = 1}) + §)"), ("this-prefix", "this.§"), ("call-head", "(§ 1)"), ("call-head-piped", "(¤ | §)")]     # the last two have no well-scoped twin
NO_TWIN = ("call-head", "call-head-piped")
CONTEXTS = [(l, t, False) for l, t in SIMPLE] + [(l, t, True) for l, t in STATIC] + [(l, t, False) for l, t in OUTSIDE_MODEL]
MODEL_CONTEXTS = [(l, t, False) for l, t in SIMPLE] + [(l, t, True) for l, t in STATIC]
CONTEXTS2 = [(f"{sl}/{ll}", st.replace("§", lt), True) for sl, st in STATIC if '{§}' not in st for ll, lt in LEAVES2]


def fill(template, hole, g, g2, gk="k"):
    return template.replace("¤k", gk).replace("¤2", g2).replace("¤", g).replace("§", hole)


# ------------------------------------------------------------------------------------------------------------------------------
# positions: where the expression sits      kind: step | fn (definition + step) | unused-let | used-let
# ------------------------------------------------------------------------------------------------------------------------------
POSITIONS = [
    dict(label="derive", step="derive {zq = §}"),
    dict(label="select-alias", step="select {¤2, zq = §}"),
    dict(label="select-bare", step="select {§}"),
    dict(label="filter", step="filter ((§) == null)"),
    dict(label="sort", step="sort {¤2, §}"),
    dict(label="sort-desc", step="sort {-(§)}"),
    dict(label="sort-bare", step="sort (§)"),
    dict(label="select-exclude", step="select !{§}", only=("id",), model=False),
    dict(label="take-n", step="take §", only=("id",), twin_hole="2", model=False),
    dict(label="take-range-lo", step="take §..3", only=("id",), twin_hole="2", model=False),
    dict(label="take-range-hi", step="take 1..§", only=("id",), twin_hole="2", model=False),
    dict(label="group-take", step="group ¤k (take §)", only=("id",), twin_hole="2", model=False),
    dict(label="window-rows", step="window rows:§..0 (derive {zq = sum ¤})", only=("id", "neg"), twin_hole="1", model=False),
    dict(label="window-rolling", step="window rolling:§ (derive {zq = sum ¤})", only=("id",), twin_hole="2", model=False),
    dict(label="join-eq", step="join zt = t1 (==§)", only=("id",), twin_hole="k", declared_only=True, model=False),
    dict(label="join-side-value", step="join side:§ zt = t1 (true)", only=("id",), twin_hole="left", model=False),
    dict(label="join-inline-side", step="join zt = (from t1 | select {u1, a1} | derive {zq = §}) (true)", g="u1", g2="a1", unknown_only=True),
    dict(label="append-inline-side", step="append (from t1 | select {u1, k} | filter ((§) == null))", g="u1", g2="k", unknown_only=True,
         bases=("declared-select", "undeclared-select", "declared-group-aggregate", "undeclared-aggregate", "declared-let", "declared-select-empty")),
    dict(label="loop-filter", step="loop (filter ((§) == null))", model=False),
    dict(label="aggregate", step="aggregate {zq = count (§)}"),
    dict(label="group-key", step="group {kq = §} (take 1)"),
    dict(label="group-sort", step="group ¤k (sort {§} | take 1)"),
    dict(label="group-derive", step="group ¤k (derive {zq = §})"),
    dict(label="group-aggregate", step="group ¤k (aggregate {zq = count (§)})"),
    dict(label="window-derive", step="window rows:-1..0 (derive {zq = §})"),
    dict(label="join-condition", step="join zt = t1 ((§) == zt.u1)", declared_only=True),
    dict(label="named-arg", step="derive {zq = zg9 ¤ n:(§)}"),
    dict(label="named-only-arg", step="derive {zq = (¤ | zg9 n:(§))}"),
    dict(label="tuple-sole-named-only", step="derive {(¤ | zg9 n:(§))}"),
    dict(label="fn-body", pre="let fb9 = x -> (§)", step="derive {zq = fb9 ¤}", model=False),
    dict(label="fn-default-used", pre="let fd9 = x d:(§) -> d", step="derive {zq = fd9 ¤}", model=False),
    dict(label="relfn-body", pre="let rb9 = func tbl <relation> -> <relation> (tbl | derive {zq = §})", step="rb9", model=False),
    dict(label="relfn-named-only", pre="let rs9 = func by:¤ tbl <relation> -> <relation> (tbl | sort by)", step="rs9 by:(§)", model=False),
    dict(label="unused-let", kind="unused-let"),
    dict(label="used-let", kind="used-let"),
]
POS_QUICK2 = ("derive", "filter", "group-derive", "named-only-arg", "unused-let", "join-condition")

# ------------------------------------------------------------------------------------------------------------------------------
# bases: pipelines whose frame after the last line is fully known
# ------------------------------------------------------------------------------------------------------------------------------
BASES = [
    dict(label="declared-select", declared=True, lets=[], lines=["from t0", "select {u0, k}"], g="u0", g2="k",
         refs=[("unknown", "zz9", "unknown"), ("range-field", "start", "unknown"), ("range-field-end", "end", "unknown"), ("tuple-alias", "zq8", "unknown"), ("dropped", "a0", "unknown"), ("unknown-qualified", "t0.zz9", "unknown"),
               ("dropped-qualified", "t0.a0", "unknown"), ("unknown-relation", "zrel.u0", "unknown")]),
    dict(label="declared-select-empty", declared=True, lets=[], lines=["from t0", "select {u0, k}", "filter false"], g="u0", g2="k",
         refs=[("unknown", "zz9", "unknown"), ("dropped", "a0", "unknown")]),
    dict(label="undeclared-select", declared=False, lets=[], lines=["from t0", "select {u0, k}"], g="u0", g2="k",
         refs=[("unknown", "zz9", "unknown"), ("range-field", "start", "unknown"), ("range-field-end", "end", "unknown"), ("tuple-alias", "zq8", "unknown"), ("dropped", "a0", "unknown"), ("dropped-qualified", "t0.a0", "unknown")]),
    dict(label="declared-group-aggregate", declared=True, lets=[], lines=["from t0", "group k (aggregate {u0 = sum a0})"], g="u0", g2="k",
         refs=[("unknown", "zz9", "unknown"), ("range-field", "start", "unknown"), ("range-field-end", "end", "unknown"), ("tuple-alias", "zq8", "unknown"), ("dropped", "a0", "unknown")]),
    dict(label="undeclared-aggregate", declared=False, lets=[], lines=["from t0", "aggregate {u0 = sum a0, k = max k}"], g="u0", g2="k",
         refs=[("unknown", "zz9", "unknown"), ("dropped", "a0", "unknown")]),
    dict(label="declared-join", declared=True, lets=[], lines=["from t0", "join t1 (==k)"], g="u0", g2="a1", gk="a0",
         refs=[("unknown", "zz9", "unknown"), ("ambiguous", "k", "ambiguous")]),
    dict(label="declared-let", declared=True, lets=[("l0", "from t0 | select {u0, k}")], lines=["from l0"], g="u0", g2="k",
         refs=[("unknown", "zz9", "unknown"), ("range-field", "start", "unknown"), ("range-field-end", "end", "unknown"), ("tuple-alias", "zq8", "unknown"), ("dropped", "a0", "unknown"), ("dropped-qualified", "l0.a0", "unknown")]),
    dict(label="undeclared-let-derive", declared=False, lets=[("l0", "from t0 | select {u0, k}")], lines=["from l0", "derive {w = u0 + 1}"],
         g="w", g2="k", refs=[("unknown", "zz9", "unknown"), ("dropped", "a0", "unknown")]),
]


# quick tier: these bases get every static context but only a few plain ones, and their first two references
SECONDARY = ("declared-select-empty", "undeclared-aggregate", "undeclared-let-derive", "declared-group-aggregate")
SECONDARY_SIMPLE = ("id", "add-l", "fstr", "sstr", "abs", "range-hi", "this-prefix", "call-head")


def program_text(declared, lets, pre, lines):
    """-> (text, helper names)"""
    body = "\n".join(f"let {n} = ({t})" for n, t in lets) + ("\n" if lets else "") + (pre + "\n" if pre else "") + "\n".join(lines) + "\n"
    hs = helpers_for(body)
    return (CD if declared else "") + "".join(HELPERS[h] + "\n" for h in hs) + body, hs


def place(base, pos, expr):
    """-> (lets, pre, lines) of the program with `expr` at the position"""
    kind = pos.get("kind", "step")
    g, g2 = pos.get("g", base["g"]), pos.get("g2", base["g2"])
    if kind == "unused-let":
        return base["lets"] + [("lu9", " | ".join(base["lines"] + [f"derive {{zq = {expr}}}"]))], "", list(base["lines"])
    if kind == "used-let":
        return base["lets"] + [("lv9", " | ".join(base["lines"] + [f"derive {{zq = {expr}}}"]))], "", ["from lv9", "select {zq}"]
    gk = base.get("gk", "k")
    pre = fill(pos.get("pre", ""), expr, g, g2, gk)
    return list(base["lets"]), pre, base["lines"] + [fill(pos["step"], expr, g, g2, gk)]


def context_cells(level="quick"):
    """yield dict(id, text, twin, expect, name, model, no_twin, declared, lets, lines, tlets, tlines, helpers)"""
    for base in BASES:
        for pos in POSITIONS:
            if pos.get("declared_only") and not base["declared"]:
                continue
            if "bases" in pos and base["label"] not in pos["bases"]:
                continue
            g, g2 = pos.get("g", base["g"]), pos.get("g2", base["g2"])
            two = level != "quick" or (pos["label"] in POS_QUICK2 and base["label"] in ("declared-select", "undeclared-select"))
            ctxs = CONTEXTS + (CONTEXTS2 if two else [])
            if "only" in pos:
                ctxs = [c for c in CONTEXTS if c[0] in pos["only"]]
            elif level == "quick" and base["label"] in SECONDARY:
                ctxs = [c for c in ctxs if c[2] or c[0] in SECONDARY_SIMPLE]
            in_model = {c[0] for c in MODEL_CONTEXTS}
            for cl, ct, static in ctxs:
                tw = fill(ct, pos.get("twin_hole", g), g, g2)
                tlets, tpre, tlines = place(base, pos, tw)
                twin, _ = program_text(base["declared"], tlets, tpre, tlines)
                refs = base["refs"] if level != "quick" or ("/" not in cl and base["label"] not in SECONDARY) else base["refs"][:2]
                for rk, r, exp in refs:
                    if pos.get("unknown_only") and exp != "unknown":
                        continue
                    ex = fill(ct, r, g, g2)
                    lets, pre, lines = place(base, pos, ex)
                    text, hs = program_text(base["declared"], lets, pre, lines)
                    yield dict(id=(base["label"], pos["label"], cl, rk), text=text, twin=twin, expect=exp, name=r, static=static,
                               model=pos.get("model", True) and ("/" in cl or cl in in_model), no_twin=cl in NO_TWIN,
                               declared=base["declared"], lets=lets, lines=lines, tlets=tlets, tlines=tlines, helpers=hs)


def random_context(rng, r, g):
    """(expression around r, helper names) for c10.edits: one- or two-level context"""
    l, t, _ = rng.choice(MODEL_CONTEXTS + CONTEXTS2)
    e = fill(t, r, g, g)
    return l, e, helpers_for(e)


# ------------------------------------------------------------------------------------------------------------------------------
# calls
# ------------------------------------------------------------------------------------------------------------------------------
# scalar / aggregate callees: name, valid explicit positional arguments, valid named arguments, named parameters, host
#   host: the step template the call is put in (§ = the call)
SCALAR_CALLEES = [
    dict(fn="math.abs", pos=["u0"], named={}, params=[]),
    dict(fn="math.round", pos=["1", "u0"], named={}, params=[]),
    dict(fn="math.pow", pos=["2", "u0"], named={}, params=[]),
    dict(fn="lag", pos=["1", "u0"], named={}, params=[]),
    dict(fn="in", pos=["1..3", "u0"], named={}, params=[]),
    dict(fn="zf9", pos=["u0"], named={}, params=[]),
    dict(fn="zg9", pos=["u0"], named={"n": "7"}, params=["n"]),
    dict(fn="znm9", pos=["u0"], named={"n": "7"}, params=["n"]),
    dict(fn="zh9", pos=["u0", "a0"], named={"m": "7", "n": "8"}, params=["m", "n"]),
    dict(fn="zfst9", pos=["u0", "a0"], named={}, params=[]),
    dict(fn="std.math.abs", pos=["u0"], named={}, params=[]),
    dict(fn="zk9", pos=[], named={"n": "7"}, params=["n"]),
]
AGG_CALLEES = [
    dict(fn="sum", pos=["u0"], named={}, params=[]),
    dict(fn="count", pos=["u0"], named={}, params=[]),
    dict(fn="min", pos=["u0"], named={}, params=[]),
    dict(fn="std.sum", pos=["u0"], named={}, params=[]),
]
SCALAR_HOSTS = [("derive", "derive {zq = §}"), ("select-alias", "select {k, zq = §}"), ("tuple-sole", "select {§}"), ("derive-sole", "derive {§}"),
                ("filter", "filter ((§) == null)"), ("sort", "sort {§}"), ("group-derive", "group k (derive {zq = §})"),
                ("join-condition", "join zt = t1 ((§) == zt.u1)"), ("case-dead", "derive {zq = case [false => §, true => 1]}"),
                ("fn-body", "derive {zq = wb9 u0}")]
AGG_HOSTS = [("aggregate", "aggregate {zq = §}"), ("aggregate-sole", "aggregate {§}"), ("group-aggregate", "group k (aggregate {zq = §})"),
             ("window-derive", "window rows:-1..0 (derive {zq = §})")]
# transforms: name, valid explicit positional arguments (the relation comes from the pipeline), valid named, named parameters
TRANSFORM_CALLEES = [
    dict(fn="take", pos=["2"], named={}, params=[]),
    dict(fn="sort", pos=["u0"], named={}, params=[]),
    dict(fn="filter", pos=["(u0 > 1)"], named={}, params=[]),
    dict(fn="select", pos=["{u0}"], named={}, params=[]),
    dict(fn="derive", pos=["{zq = u0}"], named={}, params=[]),
    dict(fn="aggregate", pos=["{zq = sum u0}"], named={}, params=[]),
    dict(fn="group", pos=["k", "(take 1)"], named={}, params=[]),
    dict(fn="window", pos=["(derive {zq = sum u0})"], named={"rows": "-1..0"}, params=["rows", "range", "expanding", "rolling"]),
    dict(fn="join", pos=["t1", "(==k)"], named={"side": "left"}, params=["side"]),
    dict(fn="append", pos=["t1"], named={}, params=[]),
    dict(fn="ztop9", pos=[], named={"n": "5"}, params=["n"]),
    dict(fn="zkeep9", pos=[], named={}, params=[]),
    dict(fn="zsrt9", pos=["u0"], named={}, params=[]),
    dict(fn="std.take", pos=["2"], named={}, params=[]),
]
TRANSFORM_HOSTS = [("pipeline", None), ("group-pipeline", "group k (§)"), ("let-body", None), ("relfn-body", None), ("explicit-relation", None)]
IN_GROUP = ("take", "sort", "filter", "derive", "ztop9", "zkeep9", "zsrt9", "std.take")
UNK = "zq9"


# names of the positional parameters (std.prql / HELPERS), for `positional parameter used as a named argument`
PNAMES = {'aggregate': ['columns'],
 'count': ['column'],
 'derive': ['columns'],
 'filter': ['condition'],
 'group': ['by', 'pipeline'],
 'in': ['pattern', 'value'],
 'lag': ['offset', 'column'],
 'math.abs': ['column'],
 'math.pow': ['exponent', 'column'],
 'math.round': ['n_digits', 'column'],
 'min': ['column'],
 'select': ['columns'],
 'sort': ['by'],
 'std.math.abs': ['column'],
 'std.sum': ['column'],
 'std.take': ['expr'],
 'sum': ['column'],
 'take': ['expr'],
 'window': ['pipeline'],
 'zf9': ['x'],
 'zfst9': ['x', 'y'],
 'zg9': ['x'],
 'zh9': ['a', 'b'],
 'znm9': ['x'],
 'zsrt9': ['by']}


def named_txt(d):
    return [f"{k}:{v}" for k, v in d.items()]


def call_variants(c):
    """[(label, kind, positional, named, twin positional, twin named, offending name)] for one callee; kind in
    valid | surplus | unknown-named | duplicate-named.  Marks on named arguments: `^` = written before the positional arguments,
    `~` = given to an inner (partial) application, the rest to the outer one."""
    fn, pos, named = c["fn"], c["pos"], c["named"]
    nv = named_txt(named)
    first = nv[:1]
    out = []

    def add(label, kind, p, n, tn=(), bad=None):
        out.append((label, kind, list(p), list(n), list(pos), list(tn), bad))
    add("valid", "valid", pos, [])
    if nv:
        add("valid-named", "valid", pos, nv, nv)
        add("valid-named-first", "valid", pos, ["^" + x for x in nv], ["^" + x for x in nv])
        add("surplus-1-with-named", "surplus", pos + ["1"], nv, nv)
    add("surplus-1", "surplus", pos + ["1"], [])
    add("surplus-2", "surplus", pos + ["1", "u0"], [])
    add("unknown-named-last", "unknown-named", pos, [f"{UNK}:1"], bad=UNK)
    add("unknown-named-first", "unknown-named", pos, [f"^{UNK}:1"], bad=UNK)
    add("unknown-named-column-value", "unknown-named", pos, [f"{UNK}:u0"], bad=UNK)
    if nv:
        add("unknown-named-after-valid", "unknown-named", pos, nv + [f"{UNK}:1"], nv, bad=UNK)
        add("unknown-named-before-valid", "unknown-named", pos, [f"^{UNK}:1"] + ["^" + x for x in nv], ["^" + x for x in nv], bad=UNK)
        add("unknown-named-outer-valid-inner", "unknown-named", pos, ["~" + x for x in nv] + [f"{UNK}:1"], ["~" + x for x in nv], bad=UNK)
        near, val = first[0].split(":")
        add("duplicate-named", "duplicate-named", pos, first + [near + ":9"], first)
        add("unknown-named-near-longer", "unknown-named", pos, [near + "x:1"], bad=near + "x")
        add("unknown-named-near-instead", "unknown-named", pos, [near + "x:" + val], first, bad=near + "x")
        if len(near) > 1:
            add("unknown-named-near-prefix", "unknown-named", pos, [near[:-1] + ":1"], bad=near[:-1])
    pn = PNAMES.get(fn, [])
    if pn and pos:
        # the name of a positional parameter used as a named argument
        add("positional-parameter-named", "unknown-named", pos[1:], [f"^{pn[0]}:{pos[0]}"], bad=pn[0])
        add("positional-parameter-named-extra", "unknown-named", pos, [f"{pn[-1]}:1"], bad=pn[-1])
    return out


def unmark(x):
    return x.lstrip("^~")


def render_call(fn, p, n, form):
    """form: full | piped (last positional through the pipe) | partial (named arguments first, positionals applied afterwards)"""
    inner = [x[1:] for x in n if x.startswith("~")]
    n = [x for x in n if not x.startswith("~")]
    front = [x[1:] for x in n if x.startswith("^")]
    back = [x for x in n if not x.startswith("^")]
    if inner:
        fn = "(" + " ".join([fn] + inner) + ")"
    if form == "full":
        return "(" + " ".join([fn] + front + p + back) + ")"
    if form == "piped":
        return "(" + p[-1] + " | " + " ".join([fn] + front + p[:-1] + back) + ")"
    if form == "partial":
        return "((" + " ".join([fn] + front + back) + ") " + " ".join(p) + ")"
    raise ValueError(form)


def render_step(fn, p, n):
    inner = [x[1:] for x in n if x.startswith("~")]
    n = [x for x in n if not x.startswith("~")]
    front = [x[1:] for x in n if x.startswith("^")]
    back = [x for x in n if not x.startswith("^")]
    if inner:
        fn = "(" + " ".join([fn] + inner) + ")"
    return " ".join([fn] + front + p + back)


CALL_BASE = ["from t0", "select {u0, a0, k}"]


def call_cells():
    """yield dict(id, text, twin, kind, bad, sig=(npos, params, given npos, given named names))"""
    def emit(idt, lines, tlines, kind, sig, bad=None, pre="", tpre="", lets=(), tlets=()):
        text, _ = program_text(True, list(lets), pre, lines)
        twin, _ = program_text(True, list(tlets), tpre, tlines)
        return dict(id=idt, text=text, twin=twin, kind=kind, sig=sig, bad=bad)

    for callees, hosts in ((SCALAR_CALLEES, SCALAR_HOSTS), (AGG_CALLEES, AGG_HOSTS)):
        for c in callees:
            for label, kind, p, n, tp, tn, bad in call_variants(c):
                forms = ["full"] + (["piped"] if p and tp else []) + (["partial"] if n and p and tp else [])
                for form in forms:
                    call = render_call(c["fn"], p, n, form)
                    tcall = render_call(c["fn"], tp, tn, form if tn or form != "partial" else "full")
                    sig = (len(c["pos"]), c["params"], len(p), [unmark(x).split(":")[0] for x in n])
                    for hl, host in hosts:
                        if hl == "fn-body":
                            # the call sits in the body of a user function that is applied in the main pipeline
                            if "u0" not in call or "u0" not in tcall:
                                continue
                            yield emit((c["fn"], label, form, hl), CALL_BASE + [host], CALL_BASE + [host], kind, sig, bad,
                                       pre="let wb9 = x -> " + call.replace("u0", "x", 1), tpre="let wb9 = x -> " + tcall.replace("u0", "x", 1))
                            continue
                        yield emit((c["fn"], label, form, hl), CALL_BASE + [host.replace("§", call)], CALL_BASE + [host.replace("§", tcall)], kind, sig, bad)
    for c in TRANSFORM_CALLEES:
        for label, kind, p, n, tp, tn, bad in call_variants(c):
            step, tstep = render_step(c["fn"], p, n), render_step(c["fn"], tp, tn)
            sig = (len(c["pos"]) + 1, c["params"], len(p) + 1, [unmark(x).split(":")[0] for x in n])
            base = " | ".join(CALL_BASE)
            f = c["fn"]
            yield emit((f, label, "step", "pipeline"), CALL_BASE + [step], CALL_BASE + [tstep], kind, sig, bad)
            yield emit((f, label, "step", "pipeline-then-more"), CALL_BASE + [step, "take 5"], CALL_BASE + [tstep, "take 5"], kind, sig, bad)
            yield emit((f, label, "step", "parenthesised"), CALL_BASE + ["(" + step + ")"], CALL_BASE + ["(" + tstep + ")"], kind, sig, bad)
            if f in IN_GROUP:
                yield emit((f, label, "step", "group-pipeline-then-take"), CALL_BASE + [f"group k ({step} | take 1)"],
                           CALL_BASE + [f"group k ({tstep} | take 1)"], kind, sig, bad)
            if f in IN_GROUP and f not in ("sort", "zsrt9"):      # a group pipeline ending in sort: internal error 3870 of the unchanged tree
                yield emit((f, label, "step", "group-pipeline"), CALL_BASE + [f"group k ({step})"], CALL_BASE + [f"group k ({tstep})"], kind, sig, bad)
                yield emit((f, label, "step", "group-pipeline-2"), CALL_BASE + [f"group k (sort u0 | {step})"],
                           CALL_BASE + [f"group k (sort u0 | {tstep})"], kind, sig, bad)
            yield emit((f, label, "step", "let-body"), ["from lc9"], ["from lc9"], kind, sig, bad,
                       lets=[("lc9", base + " | " + step)], tlets=[("lc9", base + " | " + tstep)])
            yield emit((f, label, "step", "unused-let-body"), CALL_BASE, CALL_BASE, kind, sig, bad,
                       lets=[("lc9", base + " | " + step)], tlets=[("lc9", base + " | " + tstep)])
            yield emit((f, label, "step", "relfn-body"), CALL_BASE + ["rc9"], CALL_BASE + ["rc9"], kind, sig, bad,
                       pre=f"let rc9 = func tbl <relation> -> <relation> (tbl | {step})", tpre=f"let rc9 = func tbl <relation> -> <relation> (tbl | {tstep})")
            yield emit((f, label, "step", "explicit-relation"), [step + " (" + base + ")"], [tstep + " (" + base + ")"], kind, sig, bad)
            if n and p and not any(x.startswith("~") for x in n):
                # named arguments only, the positional ones applied afterwards
                part = "(" + render_step(f, [], n) + ") " + " ".join(p)
                tpart = "(" + render_step(f, [], tn) + ") " + " ".join(tp)
                yield emit((f, label, "partial", "pipeline"), CALL_BASE + [part], CALL_BASE + [tpart], kind, sig, bad)
    # `from` itself and things that are not functions
    NONFN = [
        ("from-unknown-named", ["from t0 zq9:1", "select {u0}"], ["from t0", "select {u0}"], "unknown-named", (1, [], 1, [UNK])),
        ("from-surplus", ["from t0 t1", "select {u0}"], ["from t0", "select {u0}"], "surplus", (1, [], 2, [])),
        ("table-named", ["from (t0 zq9:1)", "select {u0}"], ["from (t0)", "select {u0}"], "not-a-function", None),
        ("join-table-named", CALL_BASE + ["join (t1 zq9:1) (==k)"], CALL_BASE + ["join (t1) (==k)"], "not-a-function", None),
        ("append-table-named", CALL_BASE + ["append (t1 zq9:1)"], CALL_BASE + ["append (t1)"], "not-a-function", None),
        ("join-alias-table-named", CALL_BASE + ["join zt = (t1 zq9:1) (==k)"], CALL_BASE + ["join zt = (t1) (==k)"], "not-a-function", None),
    ]
    for label, lines, tlines, kind, sig in NONFN:
        yield emit(("-", label, "-", "-"), lines, tlines, kind, sig, UNK if kind == "unknown-named" else None)
    SCALARS = [("column", "u0"), ("qualified-column", "t0.u0"), ("integer", "5"), ("string", "'s'"), ("null", "null"), ("boolean", "true"),
               ("expression", "(u0 + 1)"), ("let-constant", "zc_f"), ("f-string", 'f"{u0}"'), ("s-string", 's"{u0}"'), ("tuple", "{u0}"),
               ("case", "(case [true => u0])"), ("applied-function", "(zf9 u0)"), ("range", "(1..3)")]
    for sl, s in SCALARS:
        for al, args in (("named", f"{UNK}:1"), ("positional", "1"), ("named-column", f"{UNK}:k"), ("two-named", f"{UNK}:1 zr9:2")):
            for hl, host in SCALAR_HOSTS[:6]:
                call = f"({s} {args})"
                yield emit(("not-a-function", sl, al, hl), CALL_BASE + [host.replace("§", call)], CALL_BASE + [host.replace("§", f"({s})")],
                           "not-a-function", None)
