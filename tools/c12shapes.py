"""C12: seed-independent catalogue of NESTING SHAPES and the depth-series machinery that judges time as a function of nesting depth
PER SHAPE (not per compiler stage).

A shape = one bracket-like construct nested in itself in one position (`pre` repeated d times, a leaf, `post` repeated d times), in six
variants: closed on one line (c), unclosed with / without the leaf (u / ub), over-closed (oc), closed / unclosed with a line break after
every opening and before every closing bracket (ml / mlu). Every (shape, variant, entry point) is run as ONE ascending depth series in one
process; the CPU time of each request is the difference of the process CPU clock between two answers; the process is killed once a
single request has burnt KILL seconds of CPU. The series ends at the first request above THR seconds.

The recorded baseline of the unchanged tree (field `nesting_shapes` of the findings `superpolynomial-time:*` in known_findings.json:
"<shape>/<variant>/<entry point>" -> first depth above THR) says which series blow up there; everything else that blows up is new.

  python3 tools/c12shapes.py record [maxdepth]     prints the baseline fragment for known_findings.json (unchanged tree only)
  python3 tools/c12shapes.py show <shape>/<variant> <depth>
"""
import json, os, re, selectors, subprocess, sys, threading, time

THR = 0.5          # CPU seconds of ONE request on an input nested <= ~32 deep (a few hundred bytes) that end a series
KILL = 1.0         # CPU seconds after which the process is killed
SLACK = 4          # a recorded series may cross THR up to this many levels earlier than recorded (machine / build differences)
FUNCS = "let inc = x -> x + 1\nlet add = x y -> x + y\n"
SEL = FUNCS + "from t | derive y = "
OPEN, CLOSE = "([{", ")]}"

# name -> (head, pre, leaf, post, tail)
PP = {
    # parentheses, pipelines in first / last / middle position
    "paren": (SEL, "(", "a", ")", ""),
    "paren-pipe-first": (SEL, "(", "a", " | inc)", ""),                  # ((a | inc) | inc)
    "paren-pipe-first-call": (SEL, "(", "a", " | add 1)", ""),
    "paren-pipe-last": (SEL, "(a | add ", "a", ")", ""),                 # (a | add (a | add a))
    "paren-pipe-middle": (SEL, "(a | add ", "a", " | inc)", ""),
    "paren-pipe-bare-last": (SEL, "(a | ", "inc", ")", ""),
    "paren-alias": (SEL, "(x = ", "a", ")", ""),
    "paren-toplevel": (FUNCS, "(", "from t", ")", ""),
    "paren-toplevel-pipe-first": (FUNCS, "(", "from t", " | take 5)", ""),
    # calls
    "call-arg-last": (SEL, "(add 1 ", "a", ")", ""),
    "call-arg-first": (SEL, "(add ", "a", " 1)", ""),
    "call-single-arg": (SEL, "(inc ", "a", ")", ""),
    "call-func-position": (SEL, "(", "add", " a)", ""),                  # ((add a) a)
    "call-named-arg": (SEL, "(math.round n_digits:", "a", " 2)", ""),
    "call-std-path": (SEL, "(std.math.abs ", "a", ")", ""),
    "call-no-paren-last": (SEL, "add 1 ", "a", "", ""),                  # add 1 add 1 add 1 a
    # tuples, arrays
    "tuple": ("from t | select ", "{", "a", "}", ""),
    "tuple-first": ("from t | select ", "{", "a", ", b}", ""),
    "tuple-last": ("from t | select ", "{b, ", "a", "}", ""),
    "tuple-alias": ("from t | select ", "{x = ", "a", "}", ""),
    "tuple-trailing-comma": ("from t | select ", "{", "a", ",}", ""),
    "array": ("let x = ", "[", "1", "]", "\nfrom t"),
    "array-first": ("let x = ", "[", "1", ", 2]", "\nfrom t"),
    "array-last": ("let x = ", "[2, ", "1", "]", "\nfrom t"),
    "array-in-expr": (SEL, "[", "a", "]", ""),
    "mixed-brackets": (SEL, "({[", "a", "]})", ""),
    "tuple-in-call": ("from t | select ", "(add 1 {", "a", "})", ""),
    # lambdas
    "lambda": ("let f = ", "x -> ", "x", "", "\nfrom t"),
    "lambda-paren": ("let f = ", "(x -> ", "x", ")", "\nfrom t"),
    "lambda-applied": (SEL, "((x -> x + 1) ", "a", ")", ""),
    "lambda-in-pipe": (SEL, "(", "a", " | (x -> x + 1))", ""),
    # case
    "case-value": (SEL, "case [true => ", "a", "]", ""),
    "case-value-second-arm": (SEL, "case [a == 1 => 0, true => ", "a", "]", ""),
    "case-condition": (SEL, "case [", "true", " => true]", ""),
    "case-paren": (SEL, "(case [true => ", "a", "])", ""),
    # interpolated strings (an interpolation holds an identifier; brackets inside it, doubled braces around it)
    "fstring-interp-parens": (SEL + 'f"{', "(", "a", ")", '}"'),
    "fstring-braces": (SEL + 'f"', "{", "a", "}", '"'),
    "sstring-interp-parens": (SEL + 's"{', "(", "a", ")", '}"'),
    "sstring-braces": (SEL + 's"', "{", "a", "}", '"'),
    "fstring-in-paren": (SEL, '(f"x{a}" + ', "a", ")", ""),
    "sstring-in-paren": (SEL, '(s"x{a}" + ', "a", ")", ""),
    "sstring-sql-parens": (SEL + 's"', "(", "{a}", ")", '"'),
    # sub-pipelines of transforms
    "group": ("from t | ", "group b (", "take 1", ")", ""),
    "group-tuple-key": ("from t | ", "group {b} (", "take 1", ")", ""),
    "window": ("from t | ", "window rows:-1..1 (", "derive z = sum a", ")", ""),
    "group-window": ("from t | ", "group b (window rows:-1..1 (", "derive z = sum a", "))", ""),
    "join": ("from t | ", "join (from t | ", "take 1", ") (==a)", ""),
    "join-first": ("", "from (", "from t", " | join u (==a))", ""),
    "loop": ("from t | ", "loop (", "filter a > 0", ")", ""),
    "append": ("from t | ", "append (from t | ", "take 1", ")", ""),
    "from-paren": ("", "from (", "from t", ")", ""),
    "from-paren-pipe-first": ("", "from (", "from t", " | take 5)", ""),
    "aggregate-tuple-call": ("from t | aggregate ", "{x = (sum ", "a", ")}", ""),
    "sort-tuple": ("from t | sort ", "{-", "a", "}", ""),
    # unary chains
    "unary-neg": (SEL, "-", "a", "", ""),
    "unary-neg-spaced": (SEL, "- ", "a", "", ""),
    "unary-not": ("from t | filter ", "!", "a", "", ""),
    "unary-neg-paren": (SEL, "-(", "a", ")", ""),
    "unary-not-paren": ("from t | filter ", "!(", "a", ")", ""),
    "unary-eq-join": ("from t | join u ", "(==", "a", ")", ""),
    # binary chains
    "binary-left-paren": (SEL, "(", "a", " + a)", ""),                    # ((a + a) + a)
    "binary-right-paren": (SEL, "(a + ", "a", ")", ""),                   # (a + (a + a))
    "binary-both-paren": (SEL, "(a + ", "a", " + a)", ""),
    "binary-left-flat": (SEL, "", "a", " + a", ""),
    "binary-right-flat-pow": (SEL, "a ** ", "a", "", ""),
    "binary-mixed-prec": (SEL, "a + a * ", "a", " * a + a", ""),
    "binary-coalesce-paren": (SEL, "(a ?? ", "a", ")", ""),
    "binary-and-paren": ("from t | filter ", "(a == 1 && ", "b == 2", ")", ""),
    "binary-compare-left-paren": ("from t | filter ", "(", "a", " == 1)", ""),
    # ranges
    "range-end-paren": (SEL, "(1..", "a", ")", ""),
    "range-start-paren": (SEL, "(", "a", "..9)", ""),
    "range-flat": (SEL, "1..", "a", "", ""),
    "take-range-paren": ("from t | take ", "(", "1..5", ")", ""),
    # types
    "type-array": ("let x <", "[", "int", "]", "> = 1\nfrom t"),
    "type-tuple": ("let x <", "{a = ", "int", "}", "> = 1\nfrom t"),
    "type-relation-decl": ("module default_db { let t <", "[{a = ", "int", "}]", "> }\nfrom t"),
    # modules
    "module": ("", "module m {", " let x = 1 ", "}", "\nfrom t"),
    "module-with-sibling": ("", "module m { let y = 2\n", "let x = 1", "\n}", "\nfrom t"),
    # annotations
    "annotation-tuple": ("@", "{a = ", "1", "}", "\nlet x = 1\nfrom t"),
    # quoted identifiers / indirection
    "ident-path-paren": (SEL, "(t.", "a", ")", ""),
}


def _ml(pre, post):
    """line break after every opening / before every closing bracket; a bracketless shape gets a wrapped line (`\\n\\ `)"""
    if any(c in OPEN for c in pre) or any(c in CLOSE for c in post):
        return re.sub(r"([(\[{])", "\\1\n", pre), re.sub(r"([)\]}])", "\n\\1", post)
    return (pre + "\n\\ " if pre else pre), ("\n\\ " + post if post else post)


def _let_chain(d):
    return "let t0 = (from t)\n" + "".join(f"let t{i + 1} = (from t{i} | derive y{i} = a)\n" for i in range(d)) + f"from t{d}"


def _let_func_chain(d):
    return "let f0 = x -> x + 1\n" + "".join(f"let f{i + 1} = x -> (f{i} x) + (f{i} x)\n" for i in range(d)) + f"from t | derive y = (f{min(d, 3)} a)"


def _let_value_chain(d):
    return "let v0 = 1\n" + "".join(f"let v{i + 1} = (v{i} + 1)\n" for i in range(d)) + f"from t | derive y = v{d}"


def _module_path(d):
    return "".join(f"module m{i} {{\n" for i in range(d)) + "let x = 1\n" + "}\n" * d + "from t | derive y = " + ".".join(f"m{i}" for i in range(d)) + ".x"


def _quote_alternation(d):
    """string quotes of growing length nested in each other: the only nesting the lexer itself knows"""
    s = "a"
    for i in range(d):
        q = ('"', "'")[i % 2] * (1 if i < 2 else 2 * (i // 2) + 1)
        s = q + s + q
    return "from t | derive y = " + s


def _fstring_alternation(d):
    s = "a"
    for i in range(d):
        q = ('"', "'")[i % 2] * (1 if i < 2 else 2 * (i // 2) + 1)
        s = "f" + q + "{" + s + "}" + q
    return "from t | derive y = " + s


def _comment_in_nesting(d):
    return SEL + "".join("( # c\n" for _ in range(d)) + "a" + "\n)" * d


CUSTOM = {"let-chain": _let_chain, "let-func-chain": _let_func_chain, "let-value-chain": _let_value_chain, "module-path": _module_path,
          "quote-alternation": _quote_alternation, "fstring-alternation": _fstring_alternation, "paren-with-comments": _comment_in_nesting}
VARIANTS = ("c", "u", "ub", "oc", "ml", "mlu")


def source(shape, variant, d):
    if shape in CUSTOM:
        return CUSTOM[shape](d) if variant == "c" else None
    head, pre, leaf, post, tail = PP[shape]
    if variant == "c":
        return head + pre * d + leaf + post * d + tail
    if variant == "u":
        return head + pre * d + leaf if post else None
    if variant == "ub":
        return head + pre * d if pre else None
    if variant == "oc":
        return head + leaf + post * d + tail if post else None
    mpre, mpost = _ml(pre, post)
    if variant == "ml":
        return head + mpre * d + leaf + mpost * d + tail
    if variant == "mlu":
        return head + mpre * d + leaf if post else None
    raise KeyError(variant)


def catalogue(variants=VARIANTS):
    """[(id "<shape>/<variant>", generator depth -> source)], duplicates (same text at depth 3) removed"""
    out, seen = [], set()
    for shape in list(PP) + list(CUSTOM):
        for v in variants:
            s = source(shape, v, 3)
            if s is None or s in seen:
                continue
            seen.add(s)
            out.append((f"{shape}/{v}", (lambda d, shape=shape, v=v: source(shape, v, d))))
    return out


COMPOSABLE = [k for k, v in PP.items() if v[0] in (SEL, "from t | select ", "from t | filter ") and v[4] == ""]


def composite(names, variant, d):
    """levels take the shapes `names` in rotation (outermost first): d levels in all; closed variants only"""
    pres, posts = [], []
    for i in range(d):
        _, pre, _, post, _ = PP[names[i % len(names)]]
        if variant == "ml":
            pre, post = _ml(pre, post)
        pres.append(pre); posts.append(post)
    return SEL + "".join(pres) + PP[names[d % len(names)]][2] + "".join(reversed(posts))


def gen(sid, d):
    shape, v = sid.rsplit("/", 1)
    if shape.startswith("mix("):
        return composite(shape[4:-1].split("+"), v, d)
    return source(shape, v, d)


# ---------------------------------------------------------------------------------------------
def _cpu(pid):
    try:
        f = open(f"/proc/{pid}/stat").read().rsplit(")", 1)[1].split()
        return (int(f[11]) + int(f[12])) / 100.0
    except Exception:
        return None


def run_series(vh, env, op, sources, thr=THR, kill=KILL, extra=None):
    """one process, the sources in ascending depth order; returns (times, status) where times[i] = CPU seconds of request i (answered
    requests only), status = None | ("panic", i, answer) | ("slow", i, cpu) first answered request above thr | ("killed", i, cpu burnt)
    | ("died", i, stderr tail). Requests are fed ONE AT A TIME so the series stops right after the first slow answer."""
    key = "src" if op in ("lex", "tokens") else "prql"
    p = subprocess.Popen([vh], stdin=subprocess.PIPE, stdout=subprocess.PIPE, stderr=subprocess.PIPE, env=env)
    sel = selectors.DefaultSelector()
    sel.register(p.stdout, selectors.EVENT_READ)
    times, status, buf = [], None, b""
    last_cpu = 0.0
    try:
        for i, src in enumerate(sources):
            r = {"op": op, key: src, "_time": True}
            if extra:
                r.update(extra)
            try:
                p.stdin.write((json.dumps(r) + "\n").encode("utf-8")); p.stdin.flush()
            except Exception:
                status = ("died", i, ""); break
            line, t0 = None, time.time()
            while line is None:
                if b"\n" in buf:
                    line, buf = buf.split(b"\n", 1)
                    break
                if sel.select(timeout=0.1):
                    chunk = os.read(p.stdout.fileno(), 1 << 16)
                    if not chunk:
                        break
                    buf += chunk
                    continue
                c = _cpu(p.pid)
                if p.poll() is not None:
                    break
                if (c is not None and c - last_cpu > kill) or time.time() - t0 > 20 * kill + 10:
                    status = ("killed", i, (c - last_cpu) if c is not None else 0.0); break
            if status:
                break
            if line is None:
                try:
                    err = p.stderr.read().decode("utf-8", "replace")[-300:]
                except Exception:
                    err = ""
                status = ("died", i, err); break
            m = re.search(rb'"_cpu_ms":(\d+)', line[-80:])
            c = int(m.group(1)) / 1000.0 if m else (_cpu(p.pid) or last_cpu)
            dt, last_cpu = c - last_cpu, c
            times.append(dt)
            if line.startswith(b'{"panic"'):
                try:
                    a = json.loads(line)
                except Exception:
                    a = {"panic": line[:200].decode("utf-8", "replace")}
                status = ("panic", i, a); break
            if dt > thr:
                status = ("slow", i, dt); break
    finally:
        try:
            p.kill()
        except Exception:
            pass
        for f in (p.stdin, p.stdout, p.stderr):
            try:
                f.close()
            except Exception:
                pass
        try:
            p.wait(timeout=10)
        except Exception:
            pass
    return times, status


def depths(maxdepth):
    return list(range(2, maxdepth + 1, 2))


def explore(vh, env, ncpu, maxdepth, ops2=("fmt", "rq", "compile", "staged"), variants=VARIANTS, thr=THR, kill=KILL):
    """phase 1: lex and pl on every shape; phase 2: the later entry points on the shapes the parser survives (an input the parser
    does not come back on never reaches them). -> {(sid, op): (depth list, times, status)}"""
    import concurrent.futures
    cat = catalogue(variants)
    ds = depths(maxdepth)
    res = {}

    def one(job):
        sid, g, op = job
        ts, st = run_series(vh, env, op, [g(d) for d in ds], thr, kill)
        return (sid, op), (ds, ts, st)
    with concurrent.futures.ThreadPoolExecutor(ncpu) as pool:
        for k, v in pool.map(one, [(sid, g, op) for sid, g in cat for op in ("lex", "pl")]):
            res[k] = v
        ok = [(sid, g) for sid, g in cat if not blown(res[(sid, "pl")]) and not blown(res[(sid, "lex")])]
        for k, v in pool.map(one, [(sid, g, op) for sid, g in ok for op in ops2]):
            res[k] = v
    return res


def blown(r):
    """first depth at which the series blows up (above THR / killed), else None"""
    ds, ts, st = r
    if st and st[0] in ("slow", "killed"):
        return ds[st[1]]
    return None


def growth(r):
    """CPU ratio per +2 levels over the last steps of the series (None when the times are too small to say)"""
    ds, ts, st = r
    if st and st[0] == "killed":
        ts = ts + [st[2]]
    ts = [max(t, 0.005) for t in ts]
    if len(ts) < 3 or ts[-1] < 0.05:
        return None
    k = min(3, len(ts) - 1)
    return (ts[-1] / ts[-1 - k]) ** (1.0 / k)


if __name__ == "__main__":
    sys.path.insert(0, os.path.dirname(os.path.abspath(__file__)))
    import vlib
    if sys.argv[1] == "show":
        print(gen(sys.argv[2], int(sys.argv[3])))
    elif sys.argv[1] == "record":
        md = int(sys.argv[2]) if len(sys.argv) > 2 else 36
        t0 = time.time()
        res = explore(vlib.VH, vlib.env, vlib.NCPU, md, ops2=("fmt", "rq", "compile", "staged"))
        base = {}
        for (sid, op), r in sorted(res.items()):
            b = blown(r)
            if b is not None:
                g = growth(r)
                base[f"{sid}/{op}"] = {"depth": b, "growth_per_2_levels": round(g, 2) if g else None, "last_cpu": [round(t, 2) for t in (r[1] + ([r[2][2]] if r[2][0] == "killed" else []))[-4:]]}
            elif r[2]:
                base[f"{sid}/{op}"] = {"status": r[2][0], "at": r[0][r[2][1]], "detail": str(r[2][2])[:200]}
        json.dump(base, sys.stdout, indent=0)
        print(f"\n# {len(res)} series, {len(base)} flagged, {time.time() - t0:.1f}s", file=sys.stderr)
