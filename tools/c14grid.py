"""Seed-independent source streams for C14 (formatting preserves the program):

 * written_literals(thorough): every literal-like token the formatter re-writes, as WRITTEN source forms over an adversarial alphabet
   (strings of all quote styles and delimiter lengths, raw strings, s-/f-strings with text fragments and interpolations, numbers, dates,
   value-and-unit, identifiers with backticks / keywords / this. that., ranges); each written form w is placed as `let v = w`, as a tuple
   item, as a call argument and - for s-/f-strings - in a pipeline that compiles.
 * paren_sources(thorough): every syntactic position in which the formatter decides about parentheses x every expression shape,
   one level (all positions x all shapes, bare and parenthesised) and two levels (outer context x inner position x core shapes).
   The programs are written with explicit parentheses, so that whatever tree they parse to has to survive formatting.
 * random_* : the same families drawn from an rng.

Nothing here knows the expected output: the oracle is parse(fmt p) = parse p (modulo spans), fmt (fmt p) = fmt p, same SQL.
"""
import itertools

# -------------------------------------------------------------------------------------------------
# (1) written literal forms
# -------------------------------------------------------------------------------------------------


def words(alphabet, maxlen):
    out = [""]
    for n in range(1, maxlen + 1):
        out += ["".join(p) for p in itertools.product(alphabet, repeat=n)]
    return out


# text pieces of a string body, as written in the source (escapes are WRITTEN forms: two characters backslash + n ...)
ESCAPES = ["\\\\", "\\n", "\\t", "\\r", "\\'", '\\"', "\\d", "\\s", "\\0", "\\x41", "\\u{e9}", "\\u{1F422}", "\\{", "\\}", "\\/", "\\b", "\\f"]
INTERP_ESC = ["{{", "}}", "{{}}", "}}{{"]
INTERPS = ["{a}", "{t.a}", "{`a b`}", "{a.`b c`}", "{a:>10}", "{a:.2f}", "{this.a}", "{_x}", "{é}", "{`a$b`}", "{`$a`}", "{$a}", "{`let`}", "{`a`}", "{`1a`}", "{`a.b`}", "{a: }", "{a:}", "{`*`}", "{t.*}", "{`a}b`}", "{a:{{}", "{a:\\d}"]


def string_bodies(q, prefix, thorough):
    """bodies (written text between the delimiters) for delimiter quote q; prefix in '', 'r', 's', 'f'"""
    o = '"' if q == "'" else "'"
    out = []
    if prefix == "r":
        alpha = [o, "\\", "n", "{", "}", " ", "\\\\", "\\n", "é"]
        out += words(alpha, 3 if thorough else 2)
        return [b for b in out if q not in b]
    esc = [e for e in ESCAPES if not (e[1] in "'\"" and False)]
    plain = ["n", " ", o, "é", "\t", "#", "`", "$", "@"]
    atoms = plain + esc + ["\\" + q]
    if prefix in ("s", "f"):
        atoms = atoms + INTERP_ESC + INTERPS[:4]
    else:
        atoms = atoms + ["{", "}", "{a}", "{{"]
    out += words(atoms, 2)
    # every escape between / next to every kind of neighbour (a lone backslash escape with no quote or brace around it included)
    nb = ["", "n", o, "\\\\", "\\" + q, "{{", "}}", " "] if prefix in ("s", "f") else ["", "n", o, "\\\\", "\\" + q, "{", "}", " "]
    for e in esc + ["\\" + q]:
        for pre in nb:
            for post in nb:
                out.append(pre + e + post)
    if prefix in ("s", "f"):
        # text fragments around interpolations: fragment-interp-fragment with each fragment kind
        frags = ["", "n", "\\\\", "\\d+", "\\n", "\\" + q, o, "{{", "}}", "{{n}}", "\\\\{{", "\\d}}", "\\u{e9}", "é", " ", "'\\s*$'" if q == '"' else '"\\s*$"']
        for itp in INTERPS:
            for pre in frags:
                for post in (frags if (thorough or itp in INTERPS[:3]) else ["", "\\d+", "}}"]):
                    out.append(pre + itp + post)
        for a in ("{a}", "{a + b}"):
            for mid in frags:
                out.append("x" + a + mid + "{b}" + "y")
    if thorough:
        out += words([o, "\\\\", "n", "\\" + q, "{{" if prefix in ("s", "f") else "{", "\\d"], 4)
    return list(dict.fromkeys(out))


def written_strings(thorough):
    """[(family, written form)]"""
    out = []
    for q in ("'", '"'):
        o = '"' if q == "'" else "'"
        for prefix in ("", "s", "f", "r"):
            for body in string_bodies(q, prefix, thorough):
                out.append((f"str{prefix or '-'}1", prefix + q + body + q))
            if prefix == "r":
                continue
            # longer delimiters: the delimiter's own quote may appear inside in shorter runs
            for n in (3, 5) if not thorough else (2, 3, 4, 5, 6, 7):
                inner = ["n", o, q, q * 2, q * (n - 1), "\\\\", "\\" + q, "\\n", "\\d", "\n", "{a}" if prefix else "{", "{{" if prefix else "}"]
                for b in words(inner, 2 if not thorough else 3):
                    out.append((f"str{prefix or '-'}{n}", prefix + q * n + b + q * n))
    seen = set()
    return [x for x in out if not (x[1] in seen or seen.add(x[1]))]


INTS = ["0", "1", "7", "42", "007", "1_000", "1__0", "0x1F", "0xff", "0XFF", "0b101", "0o17", "9223372036854775807", "9223372036854775808", "00", "1_", "0x", "0b2"]
FLOATS = ["1.5", "0.25", "2.0", "0.0", "1.50", "01.5", "1e3", "1E3", "1e-3", "1.5e-3", "1.5e+3", "1e0", "3.14159", "1_0.5", "1.0_0", "100000.0", "1e15", "1e16", "1e21", "1e22",
          "1e-5", "1e-7", "0.1", "0.30000000000000004", "123456789012345680.0", "1.7976931348623157e308", "5e-324", "1e400", ".5", "5.", "1.e3", "1.5e", "1e", "1_e3"]
DATES = ["@2020-01-31", "@2020-1-1", "@12:30:05", "@12:30", "@12:30:05.123", "@12:30:05.123456", "@12:30:05Z", "@12:30:05+01:00", "@2020-01-31T12:30:05", "@2020-01-31T12:30:05Z",
         "@2020-01-31T12:30:05+0100", "@2020-01-31T12:30:05-08:00", "@2020-01-31T12:30:05.5Z", "@2020-01-31T12", "@20200131", "@2020-01-31x", "@2020-13-45", "@1-1-1"]
UNITS = ["2days", "3hours", "10years", "1microseconds", "5milliseconds", "7seconds", "8minutes", "9weeks", "4months", "0days", "1_0days", "2 days", "2day", "2.5days", "0x2days"]
KEYWORD_LIKE = ["let", "into", "case", "prql", "type", "module", "internal", "func", "import", "enum", "true", "false", "null", "this", "that", "and", "or", "from", "select", "std"]
IDENT_FORMS = (["a", "_", "_a", "a_1", "A9", "$a", "a$b", "é", "aé", "a.b", "a.b.c", "t.*", "*", "this", "that", "this.a", "that.a", "this.a.b", "this.`a b`", "`this`.a", "a.`b`", "`a`.`b`",
                "`a b`", "`a.b`", "`a-b`", "`1a`", "`a\tb`", "`é`", "`a'b`", '`a"b`', "`a{b}`", "`a\\b`", "` `", "``", "`*`", "`a`.*", "`a b`.*", "`a b`.`c d`", "std.sum", "`std`.sum",
                "db.t", "default_db.t", "$1", "$a_b", "$1a", "$"]
               + ["`%s`" % k for k in KEYWORD_LIKE] + ["t.`%s`" % k for k in KEYWORD_LIKE[:13]] + ["`%s`.a" % k for k in KEYWORD_LIKE[:13]])
RANGES = ["1..5", "..5", "1..", "a..b", "-1..1", "1..-1", "(-1)..(-2)", "1.5..2.5", "1 .. 5", "1.. 5", "1 ..5", "'a'..'z'", "@2020-01-01..@2020-12-31", "2days..3days", "a.b..c.d",
          "`a b`..`c d`", "0x1..0x2", "1..5..9", "(1..5)..9", "1..(5..9)", "null..null", "true..false", "$1..$2", "1.0..2.0", "1e3..2e3", "1...5", "1. .5", "(a + 1)..(b - 1)", "f a..b"]


def written_literals(thorough):
    """[(kind, source)]: each written form as a let value, a tuple item with an alias, a call argument"""
    out = []
    for fam, w in written_strings(thorough):
        out.append(("lit-" + fam, f"let v = {w}"))
        if fam[3] in "sf":
            out.append(("lit-" + fam + "-stage", f"from t | derive {{v = {w}}}"))
    for fam, forms in (("int", INTS), ("float", FLOATS), ("date", DATES), ("unit", UNITS), ("range", RANGES)):
        for w in forms:
            out.append(("lit-" + fam, f"let v = {w}"))
            out.append(("lit-" + fam, f"from t | derive {{v = {w}, w = f {w} -{w}}} | filter (a | in {w})"))
            out.append(("lit-" + fam, f"let v = [{w}, -{w}, {w} + {w}, {w}..{w}]"))
    for w in IDENT_FORMS:
        last = w.split(".")[-1] if not w.startswith("`") or w.count("`") == 2 and w.endswith("`") and "." not in w.strip("`") else w
        out.append(("lit-ident", f"let v = {w}"))
        out.append(("lit-ident", f"from t | select {{{w}, k = {w} + 1, {last} = 2}}"))
        out.append(("lit-ident", f"let g = func {last} {last}x:{w} -> {w}"))
        out.append(("lit-ident", f"from {w} | join {w} (=={last}) | sort {{-{w}}} | group {w} (take 1)"))
        out.append(("lit-ident", f"let {last} = 1"))
        out.append(("lit-ident", f"module {last} {{ let {last} = 2 }}"))
        out.append(("lit-ident", f"from t | f {last}:{w} {w}"))
    seen = set()
    return [x for x in out if not (x[1] in seen or seen.add(x[1]))]


def random_literals(rng, count):
    out = []
    pool_common = ["\\\\", "\\", "\\n", "\\t", "\\d", "\\u{e9}", "\\x41", "n", " ", "é", "\n", "\t", "{", "}", "{{", "}}", "{a}", "{a + b}", "#", "\\\\\\\\"]
    for _ in range(count):
        q = rng.choice("'\"")
        o = '"' if q == "'" else "'"
        prefix = rng.choice(["", "s", "f", "s", "f", "r"])
        n = 1 if prefix == "r" else rng.choice([1, 1, 1, 3, 3, 5])
        pool = pool_common + [o, o, "\\" + q, "\\" + o] + ([q, q * 2] if n > 1 else [])
        body = "".join(rng.choice(pool) for _ in range(rng.randrange(0, 8)))
        w = prefix + q * n + body + q * n
        ctx = rng.choice(["let v = {w}", "from t | derive {{v = {w}}}", "from t | filter (f {w} x:{w})", "let v = [{w}, {w}]", "from t | select {{k = {w} ?? {w}}}"])
        out.append(("lit-random", ctx.format(w=w)))
    return out


# -------------------------------------------------------------------------------------------------
# (2) positions in which the formatter decides about parentheses  x  expression shapes
# -------------------------------------------------------------------------------------------------

# (name, text); every shape is inserted bare and parenthesised
SHAPES = [
    ("ident", "a"), ("ident-path", "t.a"), ("ident-this", "this.a"), ("ident-that", "that.b"), ("ident-bt", "`a b`"), ("ident-star", "t.*"),
    ("int", "1"), ("float", "1.5"), ("str", "'s'"), ("null", "null"), ("bool", "true"), ("date", "@2020-01-01"), ("unit", "2days"), ("param", "$1"),
    ("neg-lit", "-1"), ("neg", "-a"), ("pos", "+a"), ("not", "!a"), ("eqself", "==a"), ("neg-neg", "-(-a)"), ("not-call", "!(g a)"), ("neg-call", "-(g a)"), ("neg-pow", "-(a ** b)"),
    ("call1", "g a"), ("call2", "g a b"), ("call-named", "g n:1 a"), ("call-named-call", "g n:(h a) b"), ("call-named-lambda", "g n:(func x -> x) b"), ("call-named-neg", "g n:-1 b"),
    ("call-named-bin", "g n:(a + 1) b"), ("call-named-pipe", "g n:(a | h) b"), ("call-named-range", "g n:1..2 b"), ("call-named-only", "g n:(h a)"),
    ("call-nested", "g (h a)"), ("call-nested2", "g (h a) b"), ("call-neg-arg", "g (-a)"), ("call-neg-arg2", "g a (-b)"), ("call-lambda-arg", "g (func x -> x + 1) a"),
    ("call-of-call", "(g a) b"), ("call-path", "m.g a"), ("call-tuple", "g {a, b}"), ("call-alias", "g k = a"),
    ("pipe", "(a | g)"), ("pipe2", "(a | g b | h)"), ("pipe-call", "(g a | h)"), ("pipe-bin", "(a + b | g)"),
    ("lambda", "func x -> x"), ("lambda-bin", "func x -> x + 1"), ("lambda-call", "func x -> g x"), ("lambda-pipe", "func x -> (x | g)"), ("lambda-named", "func x n:1 -> x + n"),
    ("lambda-named-call", "func x n:(g 1) -> x"), ("lambda-lambda", "func x -> func y -> x + y"), ("lambda-typed", "func x <int> -> <int> x"), ("arrow", "x -> x + 1"),
    ("pow", "a ** b"), ("mul", "a * b"), ("div", "a / b"), ("divint", "a // b"), ("mod", "a % b"), ("add", "a + b"), ("sub", "a - b"), ("eq", "a == b"), ("ne", "a != b"), ("lt", "a < b"),
    ("gte", "a >= b"), ("regex", "a ~= b"), ("coalesce", "a ?? b"), ("and", "a && b"), ("or", "a || b"),
    ("range", "a..b"), ("range-open-l", "..b"), ("range-open-r", "a.."), ("range-lit", "1..5"), ("range-neg", "-1..1"), ("range-bin", "(a + 1)..(b * 2)"), ("range-call", "(g a)..(h b)"),
    ("tuple", "{a, b}"), ("tuple-alias", "{k = a}"), ("tuple-empty", "{}"), ("array", "[a, b]"), ("array-empty", "[]"), ("case", "case [a => b]"), ("case2", "case [a => b, true => c]"),
    ("sstr", 's"x{a}y"'), ("fstr", 'f"{a}-{b}"'), ("sstr-bs", "s\"'\\\\d+'{a}\""), ("alias", "k = a"), ("alias-bin", "k = a + b"), ("internal", "internal std.neg"), ("in", "(a | in 1..5)"),
]
CORE_SHAPES = ["ident", "int", "str", "neg-lit", "neg", "not", "eqself", "call1", "call-named", "call-named-call", "call-named-lambda", "call-nested", "pipe", "lambda-bin", "lambda-call",
               "pow", "mul", "add", "sub", "eq", "coalesce", "and", "or", "range", "range-open-r", "range-neg", "tuple", "array", "case", "sstr", "alias"]

BINOPS = ["**", "*", "/", "//", "%", "+", "-", "==", "!=", ">", "<", ">=", "<=", "~=", "??", "&&", "||"]
CORE_BINOPS = ["**", "*", "-", "==", "??", "&&", "||"]
UNOPS = ["-", "+", "!", "=="]

# (name, template with one hole `§`); expression-level positions, to be placed after `let x = ` or nested into each other
POSITIONS = (
    [("top", "§")]
    + [(f"bin-l{op}", f"§ {op} c") for op in BINOPS] + [(f"bin-r{op}", f"c {op} §") for op in BINOPS]
    + [(f"un{op}", f"{op}§") for op in UNOPS]
    + [("arg-only", "f §"), ("arg-first", "f § c"), ("arg-last", "f c §"), ("arg-mid", "f c § d"), ("arg-named", "f n:§ c"), ("arg-named-last", "f c n:§"), ("arg-named-only", "f n:§"),
       ("arg-after-named", "f n:1 §"), ("callee", "§ c"), ("callee-named", "§ n:1 c"), ("arg-neg-next", "f § -c"), ("arg-path", "m.f §"),
       ("pipe-first", "(§ | f)"), ("pipe-mid", "(c | § | f)"), ("pipe-last", "(c | §)"), ("paren", "(§)"), ("paren2", "((§))"),
       ("tuple-only", "{§}"), ("tuple-first", "{§, c}"), ("tuple-last", "{c, §}"), ("tuple-alias", "{k = §}"), ("tuple-alias2", "{c, k = §, d}"), ("array-only", "[§]"), ("array-last", "[c, §]"),
       ("case-cond", "case [§ => c]"), ("case-val", "case [c => §]"), ("case-cond2", "case [c => d, § => e]"), ("case-val2", "case [c => §, d => e]"),
       ("range-start", "§..c"), ("range-end", "c..§"), ("range-end-open", "..§"), ("range-start-open", "§.."), ("range-both", "§..§"),
       ("lambda-body", "func x -> §"), ("lambda-body-typed", "func x -> <int> §"), ("lambda-default", "func x n:§ -> x"), ("arrow-body", "x -> §"),
       ("sstr", 's"p{§}q"'), ("fstr", 'f"{§}"'), ("arg-alias", "f k = §"), ("arg-alias2", "f c k = § d"), ("in", "(c | in §)"), ("in-lhs", "(§ | in 1..5)")])
CORE_POSITIONS = ["top", "bin-l**", "bin-r**", "bin-l*", "bin-r*", "bin-l-", "bin-r-", "bin-l==", "bin-r==", "bin-l??", "bin-r??", "bin-l&&", "bin-r||", "un-", "un!", "un==",
                  "arg-only", "arg-first", "arg-last", "arg-named", "arg-named-last", "callee", "pipe-first", "pipe-last", "paren", "tuple-only", "tuple-alias", "array-last",
                  "case-cond", "case-val", "range-start", "range-end", "range-end-open", "lambda-body", "lambda-default", "arg-alias"]

# statement-level positions (hole = an expression)
STMT_POSITIONS = [
    ("let", "let x = §"), ("main", "from t | derive §"), ("main-tuple", "from t | derive {k = §}"), ("main-select", "from t | select {c, §}"), ("main-filter", "from t | filter §"),
    ("main-stage", "from t | §"), ("main-first", "§ | take 1"), ("main-only", "§"), ("sort", "from t | sort §"), ("sort-tuple", "from t | sort {c, §}"), ("sort-neg", "from t | sort {-§}"),
    ("sort-neg-bare", "from t | sort (-§)"), ("sort-pos", "from t | sort {+§}"), ("take", "from t | take §"), ("group", "from t | group § (take 1)"), ("group-pipe", "from t | group c (§)"),
    ("group-pipe2", "from t | group c (sort d | §)"), ("window", "from t | window rows:§ (derive {r = sum c})"), ("window-pipe", "from t | window rolling:3 (§)"),
    ("join-cond", "from t | join u (§)"), ("join-table", "from t | join § (==id)"), ("join-side", "from t | join side:§ u (==id)"), ("from", "from §"), ("append", "from t | append §"),
    ("loop", "from t | loop (§)"), ("aggregate", "from t | aggregate {m = max §}"), ("annotation", "@{k = §}\nlet x = 1"), ("into", "from t | derive § | into r"),
    ("let-typed", "let x <int> = §"), ("module-let", "module m { let x = § }"), ("let-func", "let f = a n:§ -> a\nfrom t | derive {k = f n:§ c}"), ("let-pipeline", "let r = (from t | derive §)"),
    ("long-tuple", "from t | select {first_long_column_name, second_long_column_name, third_long_name = §, fourth_long_column_name}"),
    ("long-call", "from t | derive {total_amount_with_everything = some_function_name first_long_column_name § second_long_column_name}"),
    ("long-named", "from t | derive {total_amount_with_everything = some_function_name first_long_argument:§ second_long_column_name}"),
    ("long-bin", "from t | filter first_long_column_name > 10 && second_long_column_name < 20 && §"),
    ("long-pipe", "let r = (first_long_column_name | some_function_name second_long_column_name | § | another_function_name)"),
]
CORE_STMT = ["let", "main", "main-stage", "sort-neg", "window", "long-named", "long-call", "annotation"]

LONG_NAMES = {"a": "first_long_column_name", "b": "second_long_column_name", "c": "third_long_column_name", "d": "fourth_long_column_name", "g": "some_function_name", "h": "another_function_name"}


def fill(tpl, text):
    return tpl.replace("§", text)


def lengthen(text):
    """the same expression over long names (forces the width-driven paths of the formatter)"""
    import re
    return re.sub(r"(?<![\w.`'\"$@\\{])([abcdgh])(?![\w`'\":(])", lambda m: LONG_NAMES[m.group(1)], text)


def bare_ok(tpl, shape):
    """may the shape be inserted without parentheses? Not when that would put two named arguments into ONE call: the formatter writes
    them in HashMap order (known finding of C11 / C14), so the text - and with long lines the wrapping - differs from run to run"""
    import re
    return not (re.search(r"\w:", tpl) and re.match(r"^[\w.]+ n:", shape))


def paren_sources(thorough):
    """[(kind, source)]"""
    out = []
    shapes = dict(SHAPES)
    pos = dict(POSITIONS)
    stm = dict(STMT_POSITIONS)
    variants = lambda s, tpl="": (s, "(" + s + ")") if bare_ok(tpl, s) else ("(" + s + ")",)
    # level 1: every expression position x every shape, after `let x =`; long-name variant of the parenthesised form
    for pn, pt in POSITIONS:
        for sn, st in SHAPES:
            for v in variants(st, pt):
                out.append((f"paren1:{pn}", "let x = " + fill(pt, v)))
            out.append((f"paren1-long:{pn}", "let x = " + lengthen(fill(pt, "(" + st + ")"))))
    # statement positions x every shape
    for pn, pt in STMT_POSITIONS:
        for sn, st in SHAPES:
            # a bare `func ...` after a call ends the statement (`from t | derive func x -> x` is TWO unnamed statements, which no
            # source layout other than this one can express): lambdas go into statement positions parenthesised only
            for v in variants(st, pt) if "->" not in st else ("(" + st + ")",):
                out.append((f"stmt:{pn}", fill(pt, v)))
    # level 2: outer position x inner position x core shapes (all x all in the thorough tier)
    outer = POSITIONS if thorough else [(n, pos[n]) for n in CORE_POSITIONS]
    inner = POSITIONS if thorough else [(n, pos[n]) for n in CORE_POSITIONS]
    shp = SHAPES if thorough else [(n, shapes[n]) for n in CORE_SHAPES]
    for on, ot in outer:
        if on == "top":
            continue
        for pn, pt in inner:
            if pn == "top":
                continue
            for sn, st in shp:
                out.append((f"paren2:{on}", "let x = " + fill(ot, "(" + fill(pt, "(" + st + ")") + ")")))
    # core statement positions x core positions x core shapes
    for on in CORE_STMT if not thorough else [n for n, _ in STMT_POSITIONS]:
        for pn in CORE_POSITIONS[1:]:
            for sn in CORE_SHAPES:
                out.append((f"stmt2:{on}", fill(stm[on], "(" + fill(pos[pn], "(" + shapes[sn] + ")") + ")")))
    seen = set()
    return [x for x in out if not (x[1] in seen or seen.add(x[1]))]


def random_paren_sources(rng, count, depth=3):
    """nested positions of random depth with random shapes, each level bare or parenthesised, sometimes over long names"""
    out = []
    for _ in range(count):
        def wrap(t):
            # lambdas always parenthesised (a bare `func` after a call starts a new statement, see paren_sources)
            import re
            return "(" + t + ")" if ("->" in t and not t.startswith("(")) or re.match(r"^[\w.]+ \w+:", t) or rng.random() < 0.7 else t
        text = rng.choice(SHAPES)[1]
        for _ in range(rng.randint(2, depth)):
            tpl = rng.choice(POSITIONS)[1]
            while "§" in tpl:
                tpl = tpl.replace("§", wrap(text if rng.random() < 0.7 else rng.choice(SHAPES)[1]), 1)
            text = tpl
        text = wrap(text)
        src = fill(rng.choice(STMT_POSITIONS)[1], text)
        if rng.random() < 0.3:
            src = lengthen(src)
        out.append(("paren-random", src))
    return out
