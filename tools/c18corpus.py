"""Program corpus for C18 (dialect choice = option, then header, then generic - and nothing else).

C18 is a non-interference statement: for every program P the output under (option A, header B) is the output under option A
alone, and the output under header A alone is the output under option A.  The header is readable in every stage (it sits in
`QueryDef.other`), the option only in the SQL backend, so any stage that starts consulting "the dialect" can break the rule on
exactly the programs whose translation is dialect dependent.  This module produces such programs:

 * `sstring_relations(tier)` - s-strings used as relations.  The lowering parses their text with sqlparser to extract column
   names; the text is a grid of dialect specific SQL syntax (identifier quoting styles, casts, TOP / LIMIT / FETCH, ILIKE,
   comments, table name styles, ...) x the position of the s-string in the pipeline.
 * `features()` - one program per construct whose SQL differs per dialect (every std function that a dialect module of
   std.sql.prql overrides, take / distinct / set operations / quoting / literals / from_text / loop / s- and f-strings).
 * `random_programs(rng, n)` - random compositions of both.

All streams but the last are seed independent.
"""
import re

# ---------------------------------------------------------------- s-string relations

# select-list items: (text, is it a plain column reference usable by the rest of the pipeline)
ITEMS = [
    "name", "[first name]", "`first name`", '"first name"', "e.name", "e.[first name]", "e.`first name`", 'e."first name"',
    "[first name] AS fn", "`first name` AS fn", '"first name" AS fn', "name AS [full name]", "name AS `full name`",
    'name AS "full name"', "name fn", "salary::int AS s", "salary::int", "CAST(salary AS int) AS s", "TRY_CAST(salary AS int) AS s",
    "SAFE_CAST(salary AS INT64) AS s", "CONVERT(int, salary) AS s", "name || 'x' AS nx", "$1 AS p", "@v AS v", "?  AS q", ":v AS v",
    "N'abc' AS n", "e'a\\\\nb' AS ee", "'a\\\\'b' AS bs", "X'ff' AS hx", "0xff AS hx", "1_000 AS u", "salary DIV 2 AS h", "salary // 2 AS h",
    "salary ^ 2 AS pw", "salary ** 2 AS pw", "salary <=> 1 AS ns", "arr[1] AS a1", "[1, 2] AS arr", "ARRAY[1, 2] AS arr",
    "STRUCT(1 AS a) AS st", "{{'a': 1}} AS m", "MAP {{'a': 1}} AS m", "name:field AS f", "name:field::string AS f",
    "j -> 'a' AS ja", "j ->> 'a' AS ja", "j @> k AS c", "j #> '{{a}}' AS ja", "name ILIKE 'a%' AS il", "name REGEXP 'a' AS rx",
    "name RLIKE 'a' AS rx", "name ~ 'a' AS rx", "name ~* 'a' AS rx", "name SIMILAR TO 'a' AS st", "name COLLATE \"C\" AS c",
    "EXTRACT(year FROM d) AS y", "INTERVAL '1' DAY AS i", "INTERVAL 1 DAY AS i", "DATE '2020-01-01' AS d", "d AT TIME ZONE 'UTC' AS z",
    "COUNT(*) FILTER (WHERE salary > 1) AS c", "LISTAGG(name, ',') WITHIN GROUP (ORDER BY name) AS l",
    "ROW_NUMBER() OVER (ORDER BY salary) AS rn", "FIRST_VALUE(name) IGNORE NULLS OVER (ORDER BY salary) AS fv",
    "list_transform(xs, x -> x + 1) AS lt", "IF(salary > 1, 1, 2) AS c", "IIF(salary > 1, 1, 2) AS c", "salary IS NOT DISTINCT FROM 1 AS e",
    "name NOT ILIKE 'x' AS ni", "TRIM(BOTH 'x' FROM name) AS t", "SUBSTRING(name FROM 1 FOR 2) AS sb", "name[1:2] AS sl",
    "POSITION('a' IN name) AS ps", "CEIL(salary TO DAY) AS cd", "U&'d\\\\0061t' AS un", "$$abc$$ AS dq", "b'01' AS bt", "r'a' AS raw",
    "\"\"\"x\"\"\" AS tq", "'it''s' AS qq", "\"a\"\"b\"", "`a``b`", "[a]]b]", "#c AS hc", "name # c\n, salary AS z", "name -- c\n, salary AS z",
    "name /* c */", "TOP", "*", "e.*", "* EXCLUDE (salary)", "* EXCEPT (salary)", "* REPLACE (salary + 1 AS salary)", "* ILIKE 'a%'",
    "COLUMNS('a.*')", "employees.name", "[employees].[name]", "`employees`.`name`", '"employees"."name"',
]
PREFIXES = ["", "DISTINCT ", "ALL ", "TOP 3 ", "TOP (3) ", "TOP 3 PERCENT ", "DISTINCT ON (name) ", "DISTINCT TOP 3 ", "AS STRUCT ", "AS VALUE ",
            "/*+ HINT */ ", "STRAIGHT_JOIN ", "SQL_CALC_FOUND_ROWS "]
TABLES = ["employees", "employees e", "employees AS e", "[employees]", "`employees`", '"employees"', "[my db].[employees]",
          "`proj.ds.employees`", '"My Db"."employees"', "db.schema.employees", "#temp", "@stage", "employees@v1", "@var",
          "employees e (a, b)", "(SELECT name, salary FROM employees) e", "employees e JOIN d ON e.[id] = d.[id]",
          "employees e JOIN d USING (id)", "employees e ASOF JOIN d ON e.id = d.id", "employees e, LATERAL FLATTEN(e.x) f",
          "employees e CROSS APPLY f(e.x) g", "UNNEST(xs) AS x", "UNNEST(xs) WITH OFFSET AS o", "TABLE(f(1))", "read_csv('a.csv')",
          "'a.csv'", "employees FINAL", "employees WITH (NOLOCK)", "employees e WITH (NOLOCK)", "employees SAMPLE (10)",
          "employees TABLESAMPLE BERNOULLI (10)", "employees TABLESAMPLE (10 ROWS)", "employees PARTITION (p0)",
          "employees FOR SYSTEM_TIME AS OF '2020-01-01'", "employees AT(TIMESTAMP => '2020-01-01')", "employees VERSION AS OF 1",
          "employees PIVOT(SUM(salary) FOR name IN ('a', 'b')) p", "employees UNPIVOT(v FOR k IN (a, b)) u",
          "employees MATCH_RECOGNIZE(PATTERN (a) DEFINE a AS true)", "ONLY employees", "employees *"]
TAILS = ["", " LIMIT 3", " LIMIT 3 OFFSET 1", " LIMIT 1, 2", " LIMIT ALL", " OFFSET 1 ROWS FETCH NEXT 3 ROWS ONLY", " FETCH FIRST 3 ROWS ONLY",
         " FETCH FIRST 3 ROWS WITH TIES", " LIMIT 3 BY name", " WHERE name ILIKE 'a%'", " WHERE [first name] = 'x'", " WHERE `first name` = 'x'",
         " WHERE \"first name\" = 'x'", " WHERE salary::int > 1", " WHERE name ~ 'a'", " WHERE name REGEXP 'a'", " WHERE salary <=> 1",
         " WHERE name = $1", " WHERE name = @v", " WHERE name = ?", " WHERE name = :v", " WHERE name IN UNNEST(xs)", " PREWHERE salary > 1",
         " # c", " -- c", " /* c */", " // c", " QUALIFY ROW_NUMBER() OVER (ORDER BY salary) = 1", " GROUP BY ALL", " GROUP BY name WITH ROLLUP",
         " GROUP BY ROLLUP (name)", " GROUP BY GROUPING SETS ((name), ())", " GROUP BY name WITH TOTALS", " ORDER BY salary NULLS FIRST",
         " ORDER BY ALL", " ORDER BY salary WITH FILL", " ORDER BY [first name]", " WINDOW w AS (ORDER BY salary)", " FOR UPDATE",
         " FOR UPDATE SKIP LOCKED", " FOR SHARE", " LOCK IN SHARE MODE", " FOR XML PATH('')", " FOR JSON AUTO", " FOR BROWSE", " FORMAT JSON",
         " SETTINGS max_threads = 1", " OPTION (MAXDOP 1)", " INTO OUTFILE 'x'", " CONNECT BY PRIOR id = parent", " START WITH id = 1 CONNECT BY PRIOR id = parent",
         " CLUSTER BY name", " DISTRIBUTE BY name", " SORT BY name", " LATERAL VIEW explode(xs) t AS x", " UNION ALL SELECT 1, 2", " UNION ALL BY NAME SELECT 1",
         " EXCEPT DISTINCT SELECT 1, 2", ";", "; SELECT 1", " GO"]
# statements that are not plain SELECTs
WHOLE = ["FROM employees SELECT name, salary", "FROM employees", "SELECT name, salary", "SELECT 1 AS [a b]", "SELECT 1 AS `a b`", 'SELECT 1 AS "a b"',
         "VALUES (1, 2)", "TABLE employees", "WITH c AS (SELECT 1 AS x) SELECT x FROM c", "WITH c AS MATERIALIZED (SELECT 1 AS x) SELECT x FROM c",
         "(SELECT name, salary FROM employees)", "SELECT name, salary INTO #t FROM employees", "SELECT name = [first name], salary FROM employees",
         "SELECT @v := 1 AS a, name FROM employees", "SELECT name, salary FROM employees WHERE EXISTS (SELECT 1)", "SHOW TABLES", "DESCRIBE employees",
         "EXPLAIN SELECT name FROM employees", "PRAGMA table_info('employees')", "EXEC sp_who", "CALL f(1)", "PIVOT employees ON name USING SUM(salary)",
         "SUMMARIZE employees", "SELECT name, salary FROM employees |> WHERE salary > 1", "", " ", "SELECT", "SELECT FROM employees", "SELECT name, FROM employees",
         "select NAME, Salary from employees", "SELECT \"name\", \"salary\" FROM employees", "SELECT `name`, `salary` FROM employees",
         "SELECT [name], [salary] FROM employees", "SELECT [name], `salary`, \"id\" FROM employees"]

# positions of the s-string relation in a program; {S} = the s-string literal
POSITIONS = [
    "from {S} | filter salary > 100",
    "from {S}",
    "from {S} | select {{salary}}",
    "from {S} | derive {{k = salary + 1}} | take 3",
    "from {S} | group name (aggregate {{n = count this}})",
    "from {S} | sort salary | select {{name, r = rank this}}",
    "let x = {S}\nfrom x | filter salary > 100",
    "from employees | select {{name, salary}} | append ({S})",
    "from employees | join side:left x = ({S}) (==name) | select {{employees.name, x.salary}}",
    "from x = {S} | join y = {S} (==name) | filter x.salary > y.salary",
    "from employees | filter salary > 100 | remove ({S})",
    "let f = r -> (from r | filter salary > 100)\nf ({S})",
    "from {S} | loop (filter salary > 100)",
]


def sstr(sql):
    """the PRQL literal s"..." for an SQL text written with {{ }} for literal braces"""
    if '"' not in sql:
        return 's"' + sql + '"'
    if "'" not in sql:
        return "s'" + sql + "'"
    if '"""' not in sql and not sql.endswith('"') and not sql.startswith('"'):
        return 's"""' + sql + '"""'
    if "'''" not in sql and not sql.endswith("'") and not sql.startswith("'"):
        return "s'''" + sql + "'''"
    return None


def select_texts(tier):
    """(tag, SQL text) - the grid: every item / prefix / table / tail once against plain neighbours, and every tail, prefix and table
    against each of the identifier quoting styles (that is where parsers of different dialects disagree most)"""
    out = []
    for i, it in enumerate(ITEMS):
        out.append((f"item{i}", f"SELECT {it}, salary FROM employees e"))
    quoted = ["name", "[first name]", "`first name`", '"first name"']
    for qi, q in enumerate(quoted):
        for i, x in enumerate(PREFIXES):
            out.append((f"prefix{i}q{qi}", f"SELECT {x}{q}, salary FROM employees"))
        for i, x in enumerate(TABLES):
            out.append((f"table{i}q{qi}", f"SELECT {q}, salary FROM {x}"))
        for i, x in enumerate(TAILS):
            out.append((f"tail{i}q{qi}", f"SELECT {q}, salary FROM employees{x}"))
    for i, w in enumerate(WHOLE):
        out.append((f"whole{i}", w))
    # interpolations split the text into several items (each is parsed on its own)
    for qi, q in enumerate(quoted):
        out.append((f"interp-t-q{qi}", f"SELECT {q}, salary FROM {{employees}}"))
        out.append((f"interp-c-q{qi}", f"SELECT {q}, {{1 + 2}} AS k FROM employees"))
    return out


def sstring_relations(tier):
    """[(tag, program)]; quick: every text in position 0, plus every item / whole-statement text and every fourth other text in a
    rotating other position; thorough: item / whole-statement texts in every position, the others in position 0 and three rotating ones"""
    out = []
    texts = select_texts(tier)
    for k, (tag, sql) in enumerate(texts):
        S = sstr(sql)
        if S is None:
            continue
        n = len(POSITIONS) - 1
        if tier == "thorough":
            poss = range(len(POSITIONS)) if tag.startswith("item") or tag.startswith("whole") else [0] + sorted({1 + (k + j * 4) % n for j in range(3)})
        elif tag.startswith("item") or tag.startswith("whole") or k % 4 == 0:
            poss = [0, 1 + k % (len(POSITIONS) - 1)]
        else:
            poss = [0]
        for pi in poss:
            out.append((f"srel:{tag}:pos{pi}", _fill(POSITIONS[pi], S)))
    return out


def _fill(pos, S):
    # POSITIONS use {{ }} for PRQL braces and {S} for the literal; S itself keeps its own {{ }} (s-string escapes)
    parts = pos.split("{S}")
    parts = [p.replace("{{", "{").replace("}}", "}") for p in parts]
    return S.join(parts)


# ---------------------------------------------------------------- dialect dependent constructs

def std_overrides(repo, dialects):
    """paths (below the dialect module) of the functions that some dialect module of std.sql.prql overrides"""
    import os
    src = open(os.path.join(repo, "prqlc/prqlc/src/sql/std.sql.prql")).read()
    names, stack = set(), []
    for line in src.splitlines():
        m = re.match(r"^\s*module\s+(\w+)\s*\{", line)
        if m:
            stack.append(m.group(1)); continue
        if re.match(r"^\s*\}\s*$", line) and stack:
            stack.pop(); continue
        m = re.match(r"^\s*let\s+(`?\w+`?)\s*=", line)
        if m and stack and stack[0] in dialects:
            names.add(".".join(stack[1:] + [m.group(1).strip("`")]))
    return names


# how to call each std function that has a per-dialect implementation (key = path below the dialect module)
CALLS = {
    "div_f": "a / b", "div_i": "a // b", "mod": "a % b", "regex_search": "s ~= 'x.*'", "all": None, "any": None, "concat_array": None,
    "math.degrees": "math.degrees a", "math.radians": "math.radians a", "math.ceil": "math.ceil a", "math.ln": "math.ln a",
    "math.pow": "math.pow 2 a", "math.round": "math.round 2 a", "text.length": "text.length s", "text.extract": "text.extract 1 2 s",
    "text.contains": "text.contains 'x' s", "text.starts_with": "text.starts_with 'x' s", "text.ends_with": "text.ends_with 'x' s",
    "date.to_text": "date.to_text '%Y-%m-%d %H:%M' d", "read_csv": None, "read_json": None, "read_parquet": None,
}
AGG_CALLS = {"all": "all (a > 1)", "any": "any (a > 1)", "concat_array": "concat_array s"}
SRC_CALLS = {"read_csv": "from (read_csv 'a.csv')", "read_json": "from (read_json 'a.json')", "read_parquet": "from (read_parquet 'a.parquet')"}

FEATURES = [
    # take: LIMIT / TOP / FETCH FIRST
    "from t | take 3", "from t | take 2..5", "from t | take 3.. | select {a}", "from t | sort a | take 3", "from t | take 3 | take 2",
    "from t | take 10 | filter a > 1 | take 2", "from t | group a (take 1)", "from t | group {a, b} (sort c | take 1)", "from t | group a (take 2)",
    "from t | group a (sort b | take 2..3)", "from t | select {a} | group a (take 1)", "from t | take 0", "from t | derive {n = row_number this} | take 3",
    # set operations
    "from t | select {a} | append (from u | select {a})", "from t | select {a} | remove (from u | select {a})",
    "from t | select {a} | intersect (from u | select {a})", "from t | select {a} | group a (take 1) | remove (from u | select {a})",
    "from t | select {a} | take 3 | append (from u | select {a} | take 2)",
    # identifiers
    "from t | select {`select`, `Mixed Case`, `a b`, `a\"b`, `from`, `Ünï`, `_x`, `$x`, `1x`}", "from `my db`.`my table` | select {`first name`}",
    "from `schema.table` | select {a}", "from t | select {x = a} | sort x | select {`order` = x}", "from t | derive {`limit` = a, `top` = b, `fetch` = a + b}",
    "from `UPPER` | select {`lower`, `Title`}", "from default_db.t | select {t.a}", "from a.b.c | select {d}",
    # literals
    "from t | derive {d = @2020-01-01, ts = @2020-01-01T10:00:00, tm = @10:00, tz = @2020-01-01T10:00:00+02:00}",
    "from t | derive {i = 2years, j = 3days, k = 10microseconds, l = d + 1months}", "from t | derive {x = true, y = false, z = null, w = a == null}",
    "from t | derive {s1 = 'it''s', s2 = \"q\\\"q\", s3 = 'back\\\\slash', s4 = 'new\\nline', s5 = 'tab\\there', s6 = '%_'}",
    "from t | derive {n = 1e10, m = 0.5, o = 0x1f, p = 1_000, q = -a, r = 9223372036854775807}",
    # strings
    "from t | derive {c = f\"{a}x{b}\"}", "from t | derive {c = f\"{a}\"}", "from t | derive {c = f\"pre {s} mid {a + 1} post\"}", "from t | filter f\"{a}{b}\" == 'q'",
    "from t | derive {c = s\"{a}::int\"}", "from t | derive {c = s\"CAST({a} AS text) || [b] || `c`\"}", "from t | derive {c = s'\"q\" + {a}'}", "from t | derive {c = s\"TOP\"}",
    "from t | filter s\"{s} ILIKE 'a%'\"", "from t | sort s\"{a} NULLS FIRST\"", "from t | aggregate {c = s\"LISTAGG({s}, ',')\"}",
    "from t | select {c = s ?? 'x', d = (a | as int), e = (a | as float), f = (a | as text), g = (d | as date), h = (a | as `my type`)}",
    "from t | filter (s | text.lower) == 'x' | derive {u = text.upper s, l = text.ltrim s, r = text.replace 'a' 'b' s}",
    # operators
    "from t | derive {x = a / b, y = a // b, z = a % b, w = a ** b, v = a / b / c, u = (a + b) / (c - 1), r = a // b // c, q = a % b % c}",
    "from t | derive {x = a == b, y = a != b, z = a && b || c, w = !a, v = a >= b, u = (a | in 1..5), r = (s | in ['a', 'b'])}",
    "from t | filter (a ~= 'x') | select a", "from t | filter !(s ~= '^a' || s ~= 'b$')", "from t | derive {m = s ~= f\"{s}x\"}",
    "from t | derive {x = case [a > 1 => 'x', a < 0 => s, true => null]}",
    # aggregates and windows
    "from t | aggregate {mn = min a, mx = max a, sm = sum a, av = average a, sd = stddev a, ct = count this, cd = count_distinct a}",
    "from t | group a (aggregate {al = all (b > 1), an = any (b > 1), ca = concat_array s})",
    "from t | sort {-a} | derive {r = row_number this, s2 = sum b, l = lag 1 b, ld = lead 1 b, f = first b, la = last b, rk = rank this, rd = rank_dense this}",
    "from t | group a (sort b | window rows:-2..0 (derive {m = average c}))", "from t | window range:-2..2 (sort a | derive {m = sum b})",
    "from t | sort a | window expanding:true (derive {m = sum b})", "from t | derive {m = a - (average a)}",
    # date functions
    "from t | derive {x = date.to_text '%Y-%m-%d' d}", "from t | derive {x = date.to_text '%d/%m/%y %H:%M:%S.%f %A %B %p %Z %j %%' d}",
    "from t | derive {x = date.to_text 'plain' d}", "from t | derive {x = (d | date.to_text '%b %-d')}", "from t | derive {x = date.to_text s d}",
    # sources
    "from_text format:csv \"\"\"a,b\n1,2\n3,4\"\"\"", "from_text format:json '[{\"a\": 1, \"b\": \"x\"}]'", "from [{a = 1, b = 'x'}, {a = 2, b = 'y'}]", "from [{a = 1}] | take 1",
    "from [] | select {a}", "from (read_csv 'a.csv') | take 3", "from (read_parquet 'a.parquet') | select {a}", "from (read_json 'a.json') | sort a",
    "from [{n = 1}] | loop (filter n < 4 | select {n = n + 1})", "from [{n = 1}] | loop (filter n < 4 | select {n = n + 1}) | take 2",
    # shapes that need sub-queries / CTEs
    "let x = (from t | take 5)\nfrom x | join y (==id) | select {x.a, y.b}", "from t | join side:full u (t.a == u.a && t.b != u.b) | select {t.a, u.b}",
    "from t | join side:left u (==a) | join side:right v (==b) | select {t.a, u.c, v.d}", "from t | filter a > 1 | aggregate {s2 = sum b} | filter s2 > 10",
    "from t | select {a, b} | sort a | take 10 | sort b | take 5", "from t | derive {x = a + 1} | filter x > 1 | derive {y = x * 2} | group y (aggregate {n = count this})",
    "from t | select !{a}", "from t | select {t.*}", "from t | join u (==a) | select {t.*, u.b}", "from t | select {a} | filter zz > 1", "from t | fiter a",
    "from t | derive {x = std.sql.foo a}", "from t | select {a, b} | take 3 | derive {c = a // b} | filter (s ~= 'x')",
    "from t | derive {a = a / 2} | take 2..3 | group a (take 1)", "from", "let main <[{a = int}]> = (from t | take 2)",
    "module m { let f = x -> x // 2 }\nfrom t | derive {y = m.f a} | take 1", "let d = f\"{1}x\"\nfrom t | derive {e = d}",
]


def features(repo, dialects):
    """([(tag, program)], overridden std functions this module has no call shape for)"""
    out = [(f"feat{i}", p) for i, p in enumerate(FEATURES)]
    missing = []
    for name in sorted(std_overrides(repo, dialects)):
        if name not in CALLS:
            missing.append(name); continue
        if name in AGG_CALLS:
            out.append((f"std:{name}", f"from t | group b (aggregate {{x = {AGG_CALLS[name]}}})"))
            out.append((f"std:{name}:w", f"from t | sort a | derive {{x = {AGG_CALLS[name]}}}"))
        elif name in SRC_CALLS:
            out.append((f"std:{name}", SRC_CALLS[name] + " | take 2"))
            out.append((f"std:{name}:j", "from t | join x = (" + SRC_CALLS[name][5:] + ") (==a)"))
        else:
            c = CALLS[name]
            out.append((f"std:{name}", f"from t | derive {{x = {c}}}"))
            out.append((f"std:{name}:f", f"from t | filter ({c}) != null | take 2"))
            out.append((f"std:{name}:n", f"from t | derive {{x = ({c}) + 1, y = -({c})}} | sort {{x}} | select {{y}}"))
    return out, missing


# ---------------------------------------------------------------- random compositions

EXPRS = ["a / b", "a // b", "a % b", "a ** 2", "s ~= 'x'", "f\"{s}-{a}\"", "s\"{a}::int\"", "s\"[{s}] + `q`\"", "math.round 2 a", "math.ceil a", "math.ln a",
         "math.pow 2 a", "math.degrees a", "text.length s", "text.contains 'x' s", "text.starts_with 'x' s", "text.ends_with s s", "text.extract 1 2 s",
         "date.to_text '%Y/%m' d", "(a | as text)", "(s | as int)", "@2021-03-04", "d + 2days", "a ?? b", "(a | in 1..3)", "case [a > b => a, true => b]",
         "`Mixed Col`", "`select`", "a + 1", "-a", "a == null", "true", "'q''q'"]
AGGS = ["sum a", "count this", "all (a > 1)", "any (b < 2)", "concat_array s", "stddev a", "count_distinct s", "min (a // b)", "average (a / b)"]
WINS = ["row_number this", "rank this", "lag 1 a", "sum b", "first s", "last (a / b)"]


def random_programs(rng, n):
    texts = [t for t in select_texts("thorough") if sstr(t[1]) is not None]
    out = []
    for k in range(n):
        kind = rng.random()
        if kind < 0.45:
            # random SQL text from the grid parts
            its = rng.sample(ITEMS, rng.randint(1, 3))
            sql = "SELECT " + rng.choice(PREFIXES) + ", ".join(its) + (", salary" if rng.random() < 0.7 else "") + " FROM " + rng.choice(TABLES) + rng.choice(TAILS)
            if rng.random() < 0.15:
                sql = rng.choice(WHOLE)
            if rng.random() < 0.1:
                sql = sql.replace("SELECT", rng.choice(["select", "Select", " SELECT", "SELECT\n"]), 1)
            S = sstr(sql)
            if S is None:
                S = sstr(rng.choice(texts)[1])
            src = _fill(rng.choice(POSITIONS), S)
            cols = ["name", "salary"]
        elif kind < 0.55:
            src = rng.choice(["from_text format:csv \"\"\"name,salary\nx,2\"\"\"", "from [{name = 'x', salary = 2}]", "from (read_csv 'e.csv')",
                              "from `my db`.`emp table`", "from (read_parquet 'e.parquet')"])
            cols = ["name", "salary"]
        else:
            src = rng.choice(["from t", "from t | join u (==a) | select {t.a, t.b, t.s, t.d, u.c}", "from t | select {a, b, s, d}"])
            cols = None
        steps = []
        for _ in range(rng.randint(0, 4)):
            r = rng.random()
            def ex():
                e = rng.choice(EXPRS)
                if cols:
                    e = re.sub(r"\ba\b", "salary", e); e = re.sub(r"\bb\b", "salary", e); e = re.sub(r"\bs\b(?!\")", "name", e); e = re.sub(r"\bd\b", "name", e)
                return e
            gk = "name" if cols else "a"
            sk = "salary" if cols else "b"
            if r < 0.2:
                steps.append(f"derive {{x{len(steps)} = {ex()}}}")
            elif r < 0.35:
                steps.append(f"filter ({ex()}) != null")
            elif r < 0.5:
                steps.append(rng.choice(["take 3", "take 2..4", "take 5.."]))
            elif r < 0.6:
                steps.append(f"sort {{{rng.choice(['', '-'])}{sk}}}")
            elif r < 0.7:
                a = rng.choice(AGGS)
                if cols:
                    a = re.sub(r"\ba\b", "salary", a); a = re.sub(r"\bb\b", "salary", a); a = re.sub(r"\bs\b", "name", a)
                steps.append(f"group {gk} (aggregate {{g{len(steps)} = {a}}})")
                break
            elif r < 0.8:
                steps.append(f"group {gk} (take 1)")
            elif r < 0.9:
                w = rng.choice(WINS)
                if cols:
                    w = re.sub(r"\ba\b", "salary", w); w = re.sub(r"\bb\b", "salary", w); w = re.sub(r"\bs\b", "name", w)
                steps.append(f"sort {sk} | derive {{w{len(steps)} = {w}}}")
            else:
                steps.append(f"select {{{gk}, y{len(steps)} = {ex()}}}")
                break
        out.append((f"rnd{k}", " | ".join([src] + steps)))
    return out
