"""PRQL sources shipped with /repo: integration queries and the ```prql blocks of the book (read at run time)."""
import glob, os, re
REPO = os.environ.get("VERIF_REPO", "/repo")


def integration_queries():
    out = []
    for f in sorted(glob.glob(os.path.join(REPO, "prqlc/prqlc/tests/integration/queries/*.prql"))):
        out.append((os.path.basename(f), open(f, encoding="utf-8").read()))
    return out


def book_examples():
    out = []
    for f in sorted(glob.glob(os.path.join(REPO, "web/book/src/**/*.md"), recursive=True)):
        text = open(f, encoding="utf-8").read()
        for i, m in enumerate(re.finditer(r"```prql([^\n]*)\n(.*?)```", text, re.S)):
            tags = m.group(1)
            if "error" in tags or "no-eval" in tags:
                continue
            out.append((f"{os.path.relpath(f, REPO)}#{i}", m.group(2)))
    return out
