"""Tie of Model.CteOrder (lean) to `compile_relation_instance` (sql/pq/gen_query.rs).

The cargo feature `verif` brackets every call of `compile_relation_instance` (which relation, was it already defined, the two flags the
decision reads) and records every push to the WITH list. The nesting of the recorded calls gives, for every compilation of a relation, the
references made while compiling it; these bodies, the set of relations that were defined from the start and the references of the main
relation are replayed through `compileMain`, and the log of the model (reference by name / sub-query / CTE pushed, in order) must be the
recorded one."""
from vlib import vh_batch, drv_batch


def requests(events):
    evs = [e for e in events if e.get("event") in ("instance_begin", "instance_end", "cte_pushed")]
    if not evs:
        return []
    bodies = {}            # body id -> list of refs
    real = []              # the real log in the model's notation
    stack = []             # (tid, kind, body id)
    main = []
    extern, seen_defined_first = [], set()
    marked = set()         # tids the compiler has defined so far (CTE under way or pushed)
    nbody = [0]
    for e in evs:
        if e["event"] == "instance_begin":
            tid = e["tid"]
            if e["defined"] and tid not in marked and tid not in extern:
                extern.append(tid)
            bid = 0
            if not e["defined"]:
                nbody[0] += 1
                bid = nbody[0]
                bodies[bid] = []
            ref = f"{tid}:{1 if e['prefer_cte'] else 0}:{1 if e['allow_ctes'] else 0}:{bid}"
            (bodies[stack[-1][2]] if stack else main).append(ref)
            if e["defined"]:
                real.append(f"r{tid}")
                stack.append((tid, "ref", 0))
            elif not (e["allow_ctes"] and e["prefer_cte"]):
                real.append(f"s{tid}")
                stack.append((tid, "sub", bid))
            else:
                real.append(f"b{tid}")
                marked.add(tid)
                stack.append((tid, "cte", bid))
        elif e["event"] == "cte_pushed":
            real.append(f"p{e['tid']}")
        else:
            tid, kind, _ = stack.pop()
            if kind == "sub":
                real.append(f"e{tid}")
            elif kind == "cte":
                real.append(f"r{tid}")
    if stack:
        return []          # a compilation that failed half way
    line = "actes\t" + ",".join(str(t) for t in extern) + "\t" + ";".join(f"{k}={','.join(v)}" for k, v in bodies.items()) + "\t" + ",".join(main)
    return [(line, " ".join(real))]


def run_suite(ctx, progs, label, targets=("sql.sqlite",)):
    reqs = [{"op": "hook_split_trace", "prql": p, "target": t} for p in progs for t in targets]
    meta = [(p, t) for p in progs for t in targets]
    ans = vh_batch(reqs)
    if ans and any(isinstance(a, dict) and a.get("no_hooks") for a in ans[:3]):
        return 0, 0, False
    items = []
    for (p, t), a in zip(meta, ans):
        if "sql" not in (a or {}):
            continue
        for it in requests(a.get("events") or []):
            items.append((p, t, it))
    res = drv_batch([it[0] for (_, _, it) in items])
    n = bad = 0
    for (p, t, (line, exp)), a in zip(items, res):
        n += 1
        ctx.case(("ctes", line))
        ctx.count(f"{label}:compilation" + (":with-ctes" if " p" in " " + exp else "") + (":with-sub-queries" if " s" in " " + exp else ""))
        if a != exp:
            bad += 1
            ctx.disagreement("cte-order", f"compile_relation_instance differs from Model.CteOrder.compileMain: real `{exp[:300]}` vs model `{a[:300]}`",
                             {"prql": p, "target": t, "request": line, "model": a, "real": exp})
    return n, bad, True
