"""dev aid: distribution of failure classes of the relational oracle over seeds/profiles"""
import sys, random, collections, json
sys.path.insert(0, '/verif/tools')
import relgen, relcheck
from props import c01
prof = {"safe": c01.SAFE, "full": c01.FULL, "undecl": c01.UNDECL}[sys.argv[1]]
target = sys.argv[2]; seeds = range(int(sys.argv[3]), int(sys.argv[4])); n = int(sys.argv[5])
showcls = sys.argv[6] if len(sys.argv) > 6 else "None"
cnt = collections.Counter(); shown = 0
for seed in seeds:
    rng = random.Random(seed)
    cases = [relgen.make_case(rng, **prof) for _ in range(n)]
    res = relcheck.run_cases(cases, target)
    for c, r in zip(cases, res):
        if r["status"] in ("ok", "compile-error"):
            cnt[r["status"]] += 1; continue
        fid = relcheck.classify(c, r, target)
        cnt[str(fid) + " <- " + r["status"]] += 1
        if str(fid) == showcls and shown < 3:
            shown += 1
            c2, r2 = relcheck.shrink(c, r, target)
            print("=====", r2["status"], r2["detail"]); print(c2.prql.split("}\n", 1)[-1]); print(r2.get("sql")); print("db", c2.db)
            print("sqlite", r2.get("rows"), r2.get("names")); print("model ", r2.get("model_rows"), c2.columns, r2.get("flags"))
for k, v in sorted(cnt.items()): print(v, k)
