"""dev aid: print the markdown of DESIGN.md 9.3 (seeded changes) and 9.4 (findings list) from seeded/*/meta.json and known_findings.json"""
import json, glob, os, collections, sys
root = os.path.join(os.path.dirname(os.path.abspath(__file__)), "..")
which = sys.argv[1] if len(sys.argv) > 1 else "both"
if which in ("seeded", "both"):
    print("| change | what was changed (site) | caught by |\n|---|---|---|")
    def key(d):
        n = os.path.basename(d.rstrip("/")); p, m = n.split("-")
        return (p, int(m[1:]))
    for d in sorted(glob.glob(os.path.join(root, "seeded", "*/")), key=key):
        m = json.load(open(os.path.join(d, "meta.json")))
        n = os.path.basename(d.rstrip("/"))
        s = " ".join(m["summary"].split())
        s = s if len(s) <= 260 else s[:257] + "..."
        c = (m.get("confirmed_by_me") or {}).get("caught_by", "?")
        print(f"| {n} | {s.replace('|', '/')} | {c.replace('|', '/')} |")
if which in ("findings", "both"):
    d = json.load(open(os.path.join(root, "known_findings.json")))["findings"]
    by = collections.defaultdict(list)
    for f in d:
        by[f["property"]].append(f)
    n_open = sum(1 for f in d if f.get("status", "open") == "open")
    print(f"\n`known_findings.json` lists {len(d)} findings ({n_open} open, {len(d) - n_open} fixed). Per property (primary; `:json` = reached only through a PL/RQ JSON document):\n")
    for p in sorted(by):
        items = ["`" + f["id"] + "`" + (f" (fixed {f.get('commit', '')})" if f.get("status") == "fixed" else "") for f in by[p]]
        print(f"* **{p}** ({len(by[p])}): " + ", ".join(items))
