"""dev helper: tools/dev_seed_meta.py <Cxx-mN> <caught_by text>  - writes seeded/<id>/meta.json from the agent's notes.json plus what was
confirmed here (demo exit codes are read from /tmp/demo_Cxx_mN.rc)"""
import json, os, sys
ID, caught = sys.argv[1], sys.argv[2]
P, M = ID.split("-")
dst = f"/verif/seeded/{ID}"
notes = json.load(open(os.path.join(dst, "notes.json")))
rcf = f"/tmp/demo_{P}_{M}.rc"
rc = open(rcf).read().split() if os.path.exists(rcf) else []
meta = {"property": P, "summary": notes.get("summary"), "files_changed": notes.get("files_changed"),
        "needs_to_manifest": notes.get("needs_to_manifest"), "tests_run": notes.get("tests_run"), "demo": notes.get("demo"),
        "confirmed_by_me": {"demo": "bash _deliver/%s/demo.sh in the agent's scratch worktree with / without the patch: %s" % (M, " ".join(rc)),
                            "suite": (("confirmed here: the unedited suite run in the scratch worktree with the patch applied: " + open(f"/tmp/suite_{P}_{M}.txt").read().strip())
                                      if os.path.exists(f"/tmp/suite_{P}_{M}.txt") else
                                      "agent reported 613/613 passing with the patch applied alone: " + str(notes.get("tests_run"))[:300]),
                            "checks_run": "tools/mutbench.sh seeded/%s/patch.diff <Cxx> (committed /verif against a patched worktree of /repo HEAD)" % ID,
                            "caught_by": caught}}
json.dump(meta, open(os.path.join(dst, "meta.json"), "w"), indent=1)
print(ID, "ok")
