"""dev helper: tools/dev_seed_meta.py <Cxx> <m> <caught_by text>  - archives /tmp/mut5_cxx/_deliver/<m> into seeded/Cxx-<m>/ and
writes meta.json from the agent's notes.json plus what was confirmed here (demo exit codes are read from /tmp/demo_Cxx_<m>.rc)"""
import json, os, shutil, sys
P, M, caught = sys.argv[1], sys.argv[2], sys.argv[3]
src = f"/tmp/mut5_{P.lower()}/_deliver/{M}"
dst = f"/verif/seeded/{P}-{M}"
if os.path.isdir(src):
    os.makedirs(dst, exist_ok=True)
    for f in os.listdir(src):
        if f.startswith("out_") or f == "target":
            continue
        s = os.path.join(src, f)
        (shutil.copytree(s, os.path.join(dst, f), dirs_exist_ok=True) if os.path.isdir(s) else shutil.copy(s, dst))
notes = json.load(open(os.path.join(dst, "notes.json")))
rc = open(f"/tmp/demo_{P}_{M}.rc").read().split() if os.path.exists(f"/tmp/demo_{P}_{M}.rc") else []
meta = {"property": P, "summary": notes.get("summary"), "files_changed": notes.get("files_changed"),
        "needs_to_manifest": notes.get("needs_to_manifest"), "tests_run": notes.get("tests_run"), "demo": notes.get("demo"),
        "confirmed_by_me": {"demo": "bash _deliver/%s/demo.sh in the agent's scratch worktree: %s" % (M, " ".join(rc)),
                            "suite": "agent reported 613/613 passing with the patch applied alone: " + str(notes.get("tests_run"))[:300],
                            "checks_run": "tools/mutbench.sh <patch> <Cxx> (committed /verif against a patched worktree of /repo HEAD)",
                            "caught_by": caught}}
json.dump(meta, open(os.path.join(dst, "meta.json"), "w"), indent=1)
print(dst, sorted(os.listdir(dst)))
