"""dev aid: run a property check in-process and tabulate the oracle failures not covered by known findings"""
import sys, json, collections, re, importlib
sys.path.insert(0, '/verif/tools')
import vlib
prop = sys.argv[1]; tier = sys.argv[2]; seed = int(sys.argv[3])
mod = importlib.import_module("props." + prop.lower())
class Ctx2(vlib.Ctx):
    def oracle_failure(self, fid, what, replay, det_key=None):
        n0 = len(self.violations)
        super().oracle_failure(fid, what, replay, det_key=det_key)
        unlisted = len(self.violations) > n0 or (len(self.violations) >= 20 and not (fid in self.known))
        self.all = getattr(self, 'all', []); self.all.append((fid if not unlisted else None, what, replay))
ctx = Ctx2(prop, tier, seed)
mod.run(ctx)
cnt = collections.Counter(); ex = {}
for fid, what, r in getattr(ctx, 'all', []):
    if fid in ctx.known: continue
    k = re.sub(r"[0-9]+", "#", what)[:150]
    cnt[k] += 1; ex.setdefault(k, r)
for k, n in cnt.most_common(12):
    print(n, k); r = ex[k]
    print("     ", str(r.get('prql') or r.get('rewritten'))[-260:].replace("\n", " | ")); print("     ", str(r.get('sql'))[:300])
