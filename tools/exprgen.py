"""Expression trees for C02 / C14: generators, s-expression encoding for drv, RQ-JSON canonicalisation, SQLite oracle.

A tree is a nested tuple:
  ("col", i) ("null",) ("int", n) ("bool", 0|1) ("float", m, e) ("str", s)
  ("un", Op, e) ("bin", Op, l, r) ("case", c, v, rest) ("caseend",) ("in", x, lo, hi) ("fn1", "abs", x) ("call2", Op, l, r)
"""
import itertools, json, sqlite3

BIN = ["Mul", "DivInt", "DivFloat", "Mod", "Pow", "Add", "Sub", "Eq", "Ne", "Gt", "Lt", "Gte", "Lte", "RegexSearch", "And", "Or", "Coalesce"]
UN = ["Neg", "Not", "Add"]
CMP = ["Eq", "Ne", "Gt", "Lt", "Gte", "Lte"]
BIN_TEXT = {"Mul": "*", "DivInt": "//", "DivFloat": "/", "Mod": "%", "Pow": "**", "Add": "+", "Sub": "-", "Eq": "==", "Ne": "!=",
            "Gt": ">", "Lt": "<", "Gte": ">=", "Lte": "<=", "RegexSearch": "~=", "And": "&&", "Or": "||", "Coalesce": "??"}
UN_TEXT = {"Neg": "-", "Not": "!", "Add": "+"}
DOMAIN = [None, -7, -1, 0, 1, 2, 7]
NCOLS = 3
HDR = "module default_db { let t <[{a = int, b = int, c = int}]> }\n"
PRELUDE = HDR + "".join(f"let f_{o.lower()} = x y -> x {BIN_TEXT[o]} y\n" for o in BIN)


def sexp(t):
    k = t[0]
    if k in ("col", "int", "bool"):
        return f"( {k} {t[1]} )"
    if k in ("null", "caseend"):
        return f"( {k} )"
    if k == "float":
        return f"( float {t[1]} {t[2]} )"
    if k == "str":
        return "( str s:" + ".".join(str(ord(c)) for c in t[1]) + " )"
    if k in ("un", "fn1"):
        return f"( {k} {t[1]} {sexp(t[2])} )"
    if k in ("bin", "call2"):
        return f"( {k} {t[1]} {sexp(t[2])} {sexp(t[3])} )"
    if k in ("case", "in"):
        return f"( {k} {sexp(t[1])} {sexp(t[2])} {sexp(t[3])} )"
    raise ValueError(t)


def children(t):
    k = t[0]
    if k in ("un", "fn1"):
        return [t[2]]
    if k in ("bin", "call2"):
        return [t[2], t[3]]
    if k in ("case", "in"):
        return [t[1], t[2], t[3]]
    return []


def size(t):
    return 1 + sum(size(c) for c in children(t))


def depth(t):
    return 1 + max([depth(c) for c in children(t)], default=0)


def nodes(t):
    yield t
    for c in children(t):
        yield from nodes(c)


def full_paren(t):
    """source text with every compound operand parenthesised (independent of the Lean printer)"""
    k = t[0]
    if k == "col":
        return "abcdefgh"[t[1]]
    if k == "null":
        return "null"
    if k == "int":
        return str(t[1])
    if k == "bool":
        return "true" if t[1] else "false"
    if k == "float":
        m, e = t[1], t[2]
        s = str(abs(m)).rjust(e + 1, "0")
        return ("-" if m < 0 else "") + s[:-e] + "." + s[-e:]
    if k == "str":
        return "'" + t[1] + "'"
    p = lambda x: full_paren(x) if x[0] in ("col", "null", "int", "bool", "float", "str") else "(" + full_paren(x) + ")"
    if k == "un":
        return UN_TEXT[t[1]] + p(t[2])
    if k == "bin":
        return p(t[2]) + " " + BIN_TEXT[t[1]] + " " + p(t[3])
    if k == "case":
        items, cur = [], t
        while cur[0] == "case":
            items.append(p(cur[1]) + " => " + p(cur[2]))
            cur = cur[3]
        return "case [" + ", ".join(items) + "]"
    if k == "caseend":
        return "case []"
    if k == "in":
        return "(" + p(t[1]) + " | in " + p(t[2]) + ".." + p(t[3]) + ")"
    if k == "fn1":
        return "(math.abs " + p(t[2]) + ")"
    if k == "call2":
        return f"(f_{t[1].lower()} " + p(t[2]) + " " + p(t[3]) + ")"
    raise ValueError(t)


# ------------------------------------------------------------------------------------------------
# generators
# ------------------------------------------------------------------------------------------------

def mk(op, *args):
    return ("un", op, args[0]) if op in UN and len(args) == 1 else ("bin", op, args[0], args[1])


def triples():
    """every (parent, child, side) with column leaves: binary parents x (binary | unary) children x side, unary parents"""
    a, b, c = ("col", 0), ("col", 1), ("col", 2)
    out = []
    for p in BIN:
        for ch in BIN:
            out.append((("bin", p, ("bin", ch, a, b), c), (p, ch, "L")))
            out.append((("bin", p, a, ("bin", ch, b, c)), (p, ch, "R")))
        for u in UN:
            out.append((("bin", p, ("un", u, a), b), (p, "u" + u, "L")))
            out.append((("bin", p, a, ("un", u, b)), (p, "u" + u, "R")))
    for u in UN:
        for ch in BIN:
            out.append((("un", u, ("bin", ch, a, b)), ("u" + u, ch, "R")))
        for u2 in UN:
            out.append((("un", u, ("un", u2, a)), ("u" + u, "u" + u2, "R")))
    return out


def contexts():
    """one more level: (name, function placing a tree under it)"""
    d = ("col", 2)
    ctxs = []
    for q in BIN:
        ctxs.append((q + ":L", lambda t, q=q: ("bin", q, t, d)))
        ctxs.append((q + ":R", lambda t, q=q: ("bin", q, d, t)))
    for u in UN:
        ctxs.append(("u" + u, lambda t, u=u: ("un", u, t)))
    return ctxs


LEAVES = [("col", 0), ("col", 1), ("col", 2), ("col", 0), ("col", 1), ("int", 0), ("int", 1), ("int", 2), ("int", 3), ("int", 7),
          ("null",), ("float", 25, 1), ("float", 5, 1)]


def random_tree(rng, d, bool_lits=True):
    if d <= 1 or rng.random() < 0.12:
        r = rng.random()
        if bool_lits and r < 0.06:
            return ("bool", rng.randint(0, 1))
        return rng.choice(LEAVES)
    r = rng.random()
    if r < 0.62:
        op = rng.choice(BIN)
        if op == "RegexSearch" and rng.random() < 0.8:
            op = rng.choice(BIN)
        return ("bin", op, random_tree(rng, d - 1), random_tree(rng, d - 1))
    if r < 0.78:
        return ("un", rng.choice(UN), random_tree(rng, d - 1))
    if r < 0.86:
        n = rng.randint(1, 3)
        cur = ("caseend",)
        if rng.random() < 0.4:
            cur = ("case", ("bool", 1), random_tree(rng, d - 1), cur)
        for _ in range(n):
            cur = ("case", random_tree(rng, d - 1), random_tree(rng, d - 1), cur)
        return cur
    if r < 0.91:
        return ("in", random_tree(rng, d - 1), random_tree(rng, d - 1), random_tree(rng, d - 1))
    if r < 0.95:
        return ("fn1", "abs", random_tree(rng, d - 1))
    op = rng.choice([o for o in BIN if o != "RegexSearch"])
    return ("call2", op, random_tree(rng, d - 1), random_tree(rng, d - 1))


def folding_cases():
    """literal sub-expressions static_eval.rs simplifies, alone and under an operator that reads the result"""
    lits = [("null",), ("int", 1), ("int", 2), ("bool", 1), ("bool", 0), ("float", 25, 1)]
    a = ("col", 0)
    out = []
    for o in ["Eq", "Ne", "And", "Or", "Coalesce", "Add", "Lt"]:
        for x in lits:
            for y in lits:
                out.append(("bin", o, x, y))
        for x in lits:
            out.append(("bin", o, x, a))
            out.append(("bin", o, a, x))
    for u in UN:
        for x in lits:
            out.append(("un", u, x))
            out.append(("un", u, ("un", u, x)))
    folded = [("bin", "Eq", ("int", 5), ("int", 2)), ("bin", "Eq", ("int", 2), ("int", 2)), ("bin", "Coalesce", ("null",), ("null",)),
              ("case", ("bin", "Eq", ("int", 5), ("int", 2)), a, ("caseend",)), ("un", "Add", ("null",)), ("un", "Not", ("bool", 0))]
    for f in folded:
        for o in ["Eq", "Ne", "And", "Coalesce", "Add"]:
            out.append(("bin", o, f, ("bin", "Sub", ("int", 3), a)))
            out.append(("bin", o, a, f))
        out.append(("case", f, a, ("case", ("bool", 1), ("col", 1), ("caseend",))))
        out.append(("case", ("bin", "Gt", a, ("int", 0)), ("col", 1), ("case", f, ("col", 2), ("caseend",))))
    out.append(("case", ("bool", 0), a, ("caseend",)))
    out.append(("case", ("bool", 1), a, ("caseend",)))
    out.append(("case", ("bool", 0), a, ("case", ("bool", 1), ("col", 1), ("case", ("col", 2), a, ("caseend",)))))
    for lo, hi in [(("int", 1), ("int", 5)), (("un", "Neg", ("int", 1)), ("col", 1)), (("bin", "Sub", ("col", 1), ("int", 1)), ("bin", "Add", ("col", 1), ("int", 1)))]:
        out.append(("in", a, lo, hi))
        out.append(("in", ("bin", "Add", a, ("col", 1)), lo, hi))
        out.append(("bin", "Eq", ("in", a, lo, hi), ("col", 2)))
        out.append(("bin", "Eq", ("col", 2), ("in", a, lo, hi)))
        out.append(("un", "Not", ("in", a, lo, hi)))
    return out


# ------------------------------------------------------------------------------------------------
# RQ JSON -> canonical text (the format of Drv.Expr.showP)
# ------------------------------------------------------------------------------------------------

def float_lit(x):
    s = repr(float(x))
    if "e" in s or "inf" in s or "nan" in s:
        return f"(floatrepr {s})"
    ip, fp = s.split(".")
    neg = ip.startswith("-")
    m = int(ip.lstrip("-") + fp)
    return f"(float {-m if neg else m} {len(fp)})"


def rq_expr(e):
    k = e["kind"]
    if k == "Literal" or (isinstance(k, dict) and "Literal" in k):
        l = k["Literal"]
        if l == "Null":
            return "(null)"
        (kind, v), = l.items()
        if kind == "Integer":
            return f"(int {v})"
        if kind == "Boolean":
            return f"(bool {1 if v else 0})"
        if kind == "Float":
            return float_lit(v)
        if kind == "String":
            return "(str s:" + ".".join(str(ord(c)) for c in v) + ")"
        return f"(lit {kind})"
    if "ColumnRef" in k:
        return f"(col {k['ColumnRef']})"
    if "Operator" in k:
        name, args = k["Operator"]["name"], k["Operator"]["args"]
        if name == "std.and" and len(args) == 2:
            ka, kb = args[0]["kind"], args[1]["kind"]
            if isinstance(ka, dict) and isinstance(kb, dict) and "Operator" in ka and "Operator" in kb \
                    and ka["Operator"]["name"] == "std.gte" and kb["Operator"]["name"] == "std.lte" \
                    and ka["Operator"]["args"][0] == kb["Operator"]["args"][0]:
                return f"(between {rq_expr(ka['Operator']['args'][0])} {rq_expr(ka['Operator']['args'][1])} {rq_expr(kb['Operator']['args'][1])})"
        return f"(op {name} " + " ".join(rq_expr(a) for a in args) + ")"
    if "Case" in k:
        cur = "(caseend)"
        for item in reversed(k["Case"]):
            cur = f"(case {rq_expr(item['condition'])} {rq_expr(item['value'])} {cur})"
        return cur
    return "(other " + json.dumps(k)[:60] + ")"


def rq_select_expr(rq):
    """canonical text of the expression computed for the single selected column"""
    pipe = rq["relation"]["kind"]["Pipeline"]
    computes = {t["Compute"]["id"]: t["Compute"]["expr"] for t in pipe if "Compute" in t}
    sel = [t["Select"] for t in pipe if "Select" in t][-1]
    cid = sel[0]
    if cid in computes:
        return rq_expr(computes[cid])
    return f"(col {cid})"


# ------------------------------------------------------------------------------------------------
# SQLite oracle
# ------------------------------------------------------------------------------------------------

class Oracle:
    def __init__(self):
        self.con = sqlite3.connect(":memory:")
        self.con.create_function("REGEXP", 2, lambda a, b: None)     # text matching is outside the value model
        self.con.execute("CREATE TABLE t (a INTEGER, b INTEGER, c INTEGER)")
        self.rows = list(itertools.product(DOMAIN, repeat=NCOLS))
        self.con.executemany("INSERT INTO t VALUES (?,?,?)", self.rows)

    def run(self, sql):
        """sql: the compiled statement `SELECT <e> AS v FROM t` -> (values, error)"""
        try:
            cur = self.con.execute(sql + " ORDER BY rowid")
            return [r[0] for r in cur.fetchall()], None
        except Exception as e:
            return None, f"{type(e).__name__}: {e}"


def parse_rat(s):
    if "/" in s:
        n, d = s.split("/")
        return int(n) / int(d), (int(n), int(d))
    return int(s), (int(s), 1)
