"""Tie of the Flattener mirror (lean/PrqlModel/Model/Flatten.lean) to semantic/resolver/flatten.rs.

The cargo feature `verif` records input and output of every call of `Flattener::fold` (op `hook_split_trace` of the harness).
The input - nested transform calls with `group` / `window` closures and `join` / `append` argument relations - is translated into
the nesting of the mirror, `drv` flattens it, and the result is compared with the chain of transform calls of the real output:
kind, kept sort key, partition, window frame and sort of every transform call, in order, arguments of join / append included."""
import json
from vlib import vh_batch, drv_batch

KEEP = ("span", "lineage", "ty", "id", "target_id", "alias", "needs_window", "flatten", "doc_comment")


class Shape(Exception):
    pass


def strip(x):
    if isinstance(x, dict):
        return {k: strip(v) for k, v in x.items() if k not in KEEP}
    if isinstance(x, list):
        return [strip(v) for v in x]
    return x


class Intern:
    def __init__(self):
        self.ids = {}

    def __call__(self, obj):
        k = json.dumps(strip(obj), sort_keys=True)
        if k not in self.ids:
            self.ids[k] = len(self.ids) + 10
        return self.ids[k]


def kind_of(e):
    k = e.get("kind", e)
    if isinstance(k, dict) and "TransformCall" in k:
        return k["TransformCall"]
    return None


def default_frame(kind, rng):
    return kind == "Rows" and rng.get("start") is None and rng.get("end") is None


def enc_in(e, it):
    """nested input expr -> list of transform s-expressions in pipeline order"""
    tc = kind_of(e)
    if tc is None:
        return []          # a table reference, the closure parameter, a literal relation ...
    pre = enc_in(tc["input"], it)
    kind = tc["kind"]
    (name, v), = kind.items() if isinstance(kind, dict) else ((kind, None),)
    if name == "Sort":
        return pre + [f"( sort {it(v['by']) if v['by'] else 0} )"]
    if name == "Group":
        by = v["by"]
        bk = by.get("kind", by)
        empty = isinstance(bk, dict) and "Tuple" in bk and len(bk["Tuple"]) == 0
        body = closure_body(v["pipeline"])
        return pre + [f"( group {1 if empty else 0} {it(by)} ( " + " ".join(enc_in(body, it)) + " ) )"]
    if name == "Window":
        fr = 0 if default_frame(v["kind"], v["range"]) else it({"kind": v["kind"], "range": v["range"]})
        body = closure_body(v["pipeline"])
        return pre + [f"( window {fr} ( " + " ".join(enc_in(body, it)) + " ) )"]
    if name == "Join":
        return pre + ["( join ( " + " ".join(enc_in(v["with"], it)) + " ) )"]
    if name == "Append":
        return pre + ["( append ( " + " ".join(enc_in(v, it)) + " ) )"]
    if name == "Loop":
        raise Shape("loop")
    return pre + [f"( other {it({'k': name})} )"]


def closure_body(p):
    k = p.get("kind", p)
    if not (isinstance(k, dict) and "Func" in k):
        raise Shape("group / window pipeline is not a closure")
    return k["Func"]["body"]


def enc_out(e, it):
    """flattened output expr -> list of items in the model's output notation"""
    tc = kind_of(e)
    if tc is None:
        return []
    pre = enc_out(tc["input"], it)
    kind = tc["kind"]
    (name, v), = kind.items() if isinstance(kind, dict) else ((kind, None),)
    part = it(tc["partition"]) if tc.get("partition") is not None else 0
    fr = tc.get("frame")
    frame = 0 if (fr is None or default_frame(fr["kind"], fr["range"])) else it({"kind": fr["kind"], "range": fr["range"]})
    srt = it(tc["sort"]) if tc.get("sort") else 0
    if name in ("Group", "Window"):
        raise Shape(f"{name} left in the flattened output")
    if name == "Sort":
        return pre + [f"1:{it(v['by']) if v['by'] else 0}:{part}:{frame}:{srt}"]
    if name == "Join":
        return pre + ["<"] + enc_out(v["with"], it) + [">", f"2:0:{part}:{frame}:{srt}"]
    if name == "Append":
        return pre + ["<"] + enc_out(v, it) + [">", f"3:0:{part}:{frame}:{srt}"]
    if name == "Loop":
        raise Shape("loop")
    return pre + [f"{it({'k': name})}:0:{part}:{frame}:{srt}"]


def requests(events):
    out = []
    for ev in events:
        if ev.get("event") != "flatten":
            continue
        try:
            it = Intern()
            ins = enc_in(ev["input"], it)
            if not ins:
                continue
            exp = " ".join(enc_out(ev["output"], it))
            out.append(("flatten", "aflatten\t( " + " ".join(ins) + " )", exp, None))
        except Shape as e:
            out.append(("skip", None, str(e), None))
        except (KeyError, TypeError, ValueError, AttributeError) as e:
            out.append(("shape", None, repr(e), ev))
    return out


def run_suite(ctx, progs, label):
    ans = vh_batch([{"op": "hook_split_trace", "prql": p, "target": "sql.sqlite"} for p in progs])
    if ans and any(isinstance(a, dict) and a.get("no_hooks") for a in ans[:3]):
        return 0, 0, False
    items = []
    for p, a in zip(progs, ans):
        for it in requests((a or {}).get("events") or []):
            items.append((p, it))
    lines = [it[1] for (_, it) in items if it[1] is not None]
    res = iter(drv_batch(lines))
    n = bad = 0
    for p, (kind, line, exp, ev) in items:
        if kind == "skip":
            ctx.count(f"{label}:skipped:{exp}")
            continue
        if kind == "shape":
            bad += 1
            ctx.disagreement("flatten-trace", f"trace event of an unrecognised shape: {exp}", {"prql": p})
            continue
        a = next(res)
        n += 1
        ctx.case(("flatten", line))
        ctx.count(f"{label}:call" + (":nested" if ("group" in line or "window" in line or "( join ( (" in line) else ""))
        if a != exp:
            bad += 1
            ctx.disagreement("flatten", f"Flattener::fold differs from Model.Flatten.flatten: real `{exp[:300]}` vs model `{a[:300]}`",
                             {"prql": p, "request": line, "model": a, "real": exp})
    return n, bad, True
