"""Translators: extract the tables the properties rest on from /repo's working tree
into lean/PrqlModel/Gen/*.lean.  An unrecognised source shape raises ShapeError
(a broken tie, reported by the check; never silently defaulted).
Each generator returns (lean_text, summary_for_evidence)."""
import os, re, json

REPO = os.environ.get("VERIF_REPO", "/repo")
GEN_DIR = os.path.join(os.path.dirname(os.path.abspath(__file__)), "..", "lean", "PrqlModel", "Gen")


class ShapeError(Exception):
    pass


def src(rel):
    with open(os.path.join(REPO, rel), encoding="utf-8") as f:
        return f.read()


def strip_comments(text):
    """remove // comments (not inside string literals; good enough for the tables we read)"""
    out = []
    for line in text.split("\n"):
        m = re.match(r'^((?:[^"/]|"(?:[^"\\]|\\.)*"|/(?!/))*)//.*$', line)
        out.append(m.group(1) if m else line)
    return "\n".join(out)


def balanced(text, start, open_ch="{", close_ch="}"):
    """return index just after the bracket matching text[start] == open_ch"""
    assert text[start] == open_ch, (text[start:start + 20], open_ch)
    depth = 0
    i = start
    in_str = None
    while i < len(text):
        c = text[i]
        if in_str:
            if c == "\\":
                i += 2
                continue
            if c == in_str:
                in_str = None
        elif c == '"':
            in_str = c
        elif c == "'" and re.match(r"'(\\.|[^\\'])'", text[i:i + 4]):
            m = re.match(r"'(\\.|[^\\'])'", text[i:i + 4])
            i += m.end()
            continue
        elif c == open_ch:
            depth += 1
        elif c == close_ch:
            depth -= 1
            if depth == 0:
                return i + 1
        i += 1
    raise ShapeError("unbalanced bracket")


def fn_body(text, signature_re):
    m = re.search(signature_re, text)
    if not m:
        raise ShapeError(f"function not found: {signature_re}")
    i = text.index("{", m.end() - 1)
    j = balanced(text, i)
    return text[i + 1:j - 1]


def lean_str(s):
    return '"' + s.replace("\\", "\\\\").replace('"', '\\"').replace("\n", "\\n").replace("\t", "\\t").replace("\r", "\\r") + '"'


def lean_chars(s):
    def one(c):
        if c == "'":
            return "'\\''"
        if c == "\\":
            return "'\\\\'"
        if c == "\n":
            return "'\\n'"
        if c == "\t":
            return "'\\t'"
        if c == "\r":
            return "'\\r'"
        if ord(c) < 32 or ord(c) > 126:
            return f"(Char.ofNat {ord(c)})"
        return f"'{c}'"
    return "[" + ", ".join(one(c) for c in s) + "]"


def lean_ident(s):
    s = re.sub(r"[^A-Za-z0-9_]", "_", s)
    if not re.match(r"[A-Za-z_]", s):
        s = "x" + s
    return s


# ---------------------------------------------------------------------------------------
# Gen/Dialects.lean  <-  sql/dialect.rs
# ---------------------------------------------------------------------------------------

DIALECT_FLAGS = ["use_fetch", "column_exclude", "set_ops_distinct", "except_all", "intersect_all",
                 "has_concat_function", "stars_in_group", "supports_distinct_on", "supports_zero_columns",
                 "prefers_subquery_parentheses_shorthand", "requires_order_by_in_window_function",
                 "ident_quote", "ident_quoting_style"]


def gen_dialects():
    t = strip_comments(src("prqlc/prqlc/src/sql/dialect.rs"))
    m = re.search(r'#\[strum\(serialize_all = "(\w+)"\)\]\s*pub enum Dialect \{', t)
    if not m:
        raise ShapeError("enum Dialect with strum serialize_all not found")
    if m.group(1) != "lowercase":
        raise ShapeError(f"serialize_all = {m.group(1)} is not modelled")
    i = t.index("{", m.end() - 1)
    body = t[i + 1:balanced(t, i) - 1]
    variants, default = [], None
    pending_default = False
    for tok in re.findall(r"#\[default\]|[A-Za-z_][A-Za-z0-9_]*", body):
        if tok == "#[default]":
            pending_default = True
            continue
        variants.append(tok)
        if pending_default:
            default = tok
            pending_default = False
    if not variants or default is None:
        raise ShapeError("Dialect variants / #[default] not recognised")
    # handler map
    hb = fn_body(t, r"fn handler\(&self\) -> Box<dyn DialectHandler> \{")
    handler = {}
    for arm in re.finditer(r"((?:Dialect::\w+\s*\|?\s*)+)=>\s*Box::new\((\w+)\)", hb):
        for v in re.findall(r"Dialect::(\w+)", arm.group(1)):
            handler[v] = arm.group(2)
    if set(handler) != set(variants):
        raise ShapeError(f"handler map does not cover the variants: {sorted(set(variants) ^ set(handler))}")
    # trait defaults
    tm = re.search(r"trait DialectHandler[^{]*\{", t)
    if not tm:
        raise ShapeError("trait DialectHandler not found")
    ti = t.index("{", tm.end() - 1)
    trait_body = t[ti + 1:balanced(t, ti) - 1]

    def flag_fns(body):
        res = {}
        for fm in re.finditer(r"fn (\w+)\(&self\) -> ([^{]+)\{", body):
            name = fm.group(1)
            bi = body.index("{", fm.end() - 1)
            fb = body[bi + 1:balanced(body, bi) - 1].strip()
            res[name] = fb
        return res

    defaults = flag_fns(trait_body)
    impls = {}
    for im in re.finditer(r"impl DialectHandler for (\w+) \{", t):
        ii = t.index("{", im.end() - 1)
        impls[im.group(1)] = flag_fns(t[ii + 1:balanced(t, ii) - 1])

    def norm(flag, expr, h):
        e = re.sub(r"\s+", " ", expr)
        if e in ("true", "false"):
            return e
        if e == "self.except_all()":
            return value(h, "except_all")
        if e == "None":
            return "none"
        mm = re.fullmatch(r"Some\(ColumnExclude::(\w+)\)", e)
        if mm:
            return f'(some "{mm.group(1).lower()}")'
        mm = re.fullmatch(r"'(.)'", e)
        if mm:
            return f"'{mm.group(1)}'"
        mm = re.fullmatch(r"IdentQuotingStyle::(\w+)", e)
        if mm:
            return "true" if mm.group(1) == "AlwaysQuoted" else "false"
        raise ShapeError(f"flag {flag} of {h}: unrecognised body `{e}`")

    def value(h, flag):
        if h in impls and flag in impls[h]:
            return norm(flag, impls[h][flag], h)
        if flag not in defaults:
            raise ShapeError(f"flag {flag} has no default in trait DialectHandler")
        return norm(flag, defaults[flag], h)

    low = [v.lower() for v in variants]
    L = ["-- GENERATED by tools/gen.py from prqlc/prqlc/src/sql/dialect.rs; do not edit", "namespace Gen", ""]
    L.append("inductive Dialect where")
    for v in low:
        L.append(f"  | {v}")
    L.append("  deriving DecidableEq, Repr")
    L.append("")
    L.append("def Dialect.all : List Dialect := [" + ", ".join("." + v for v in low) + "]")
    L.append("def Dialect.nameL : Dialect → List Char")
    for v in low:
        L.append(f"  | .{v} => {lean_chars(v)}")
    L.append("def Dialect.name (d : Dialect) : String := String.ofList d.nameL")
    L.append(f"def Dialect.default : Dialect := .{default.lower()}")
    flags = {}
    for flag in DIALECT_FLAGS:
        ty = {"column_exclude": "Option String", "ident_quote": "Char"}.get(flag, "Bool")
        name = {"ident_quoting_style": "always_quoted"}.get(flag, flag)
        L.append(f"def Dialect.{name} : Dialect → {ty}")
        flags[name] = {}
        for v, lv in zip(variants, low):
            val = value(handler[v], flag)
            flags[name][lv] = val
            L.append(f"  | .{lv} => {val}")
    L += ["", "end Gen", ""]
    return "\n".join(L), {"variants": low, "default": default.lower(), "handler": handler, "flags": flags}


GENERATORS = {"Dialects": gen_dialects}


def register(name):
    def deco(f):
        GENERATORS[name] = f
        return f
    return deco


def load_extensions():
    import glob, importlib, sys
    here = os.path.dirname(os.path.abspath(__file__))
    if here not in sys.path:
        sys.path.insert(0, here)
    for f in sorted(glob.glob(os.path.join(here, "gen_*.py"))):
        importlib.import_module(os.path.basename(f)[:-3])   # each calls gen.register(name)(fn)


def run(names=None):
    """regenerate; returns {name: {"changed": bool, "summary": ..}} ; raises ShapeError"""
    load_extensions()
    os.makedirs(GEN_DIR, exist_ok=True)
    res = {}
    for name, g in GENERATORS.items():
        if names and name not in names:
            continue
        text, summary = g()
        path = os.path.join(GEN_DIR, name + ".lean")
        old = open(path).read() if os.path.exists(path) else None
        if old != text:
            with open(path, "w") as f:
                f.write(text)
        res[name] = {"changed": old != text, "summary": summary}
    return res


if __name__ == "__main__":
    import sys
    sys.modules["gen"] = sys.modules["__main__"]
    r = run(sys.argv[1:] or None)
    print(json.dumps({k: v["changed"] for k, v in r.items()}))
