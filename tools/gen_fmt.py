"""Gen/Fmt.lean <- prqlc/src/codegen/ast.rs (binding_strength, associativity, can_bind_left, keywords(), valid_prql_ident,
the shape of needs_parenthesis / write_within / write_between) and prqlc-parser/src/parser/pr/ident.rs (display_ident_part,
which is what an identifier EXPRESSION is printed with) and lexer/lr.rs (shape of quote_string / escape_all_except_quotes)."""
import re
import gen
from gen import ShapeError, src, strip_comments, fn_body, lean_chars
from gen_split import top_level_arms
import gen_pratt

AST_RS = "prqlc/prqlc/src/codegen/ast.rs"
MOD_RS = "prqlc/prqlc/src/codegen/mod.rs"
IDENT_RS = "prqlc/prqlc-parser/src/parser/pr/ident.rs"
LR_RS = "prqlc/prqlc-parser/src/lexer/lr.rs"


def match_body(body, head):
    m = re.search(re.escape(head) + r"\s*\{", body)
    if not m:
        raise ShapeError(f"`{head}` not found")
    i = body.index("{", m.end() - 1)
    return body[i + 1:gen.balanced(body, i) - 1]


def char_class(cls):
    """regex class body like `a-zA-Z_$` -> list of (lo, hi)"""
    out, i = [], 0
    while i < len(cls):
        if i + 2 < len(cls) and cls[i + 1] == "-":
            out.append((cls[i], cls[i + 2]))
            i += 3
        else:
            if cls[i] == "\\":
                raise ShapeError("escape in identifier character class")
            out.append((cls[i], cls[i]))
            i += 1
    return out


def ranges_lean(rs):
    return "[" + ", ".join(f"({lean_chars(a)[1:-1]}, {lean_chars(b)[1:-1]})" for a, b in rs) + "]"


@gen.register("Fmt")
def gen_fmt():
    binops, unops, *_ = gen_pratt.pratt_tables()
    t = strip_comments(src(AST_RS))
    # ---- binding_strength
    bs = fn_body(t, r"fn binding_strength\(expr: &pr::ExprKind\) -> u8 \{")
    arms = top_level_arms(match_body(bs, "match expr"))
    kinds, binary = {}, None
    for pat, val in arms:
        pat = re.sub(r"\s+", "", pat)
        val = val.strip().rstrip(",")
        if pat.startswith("pr::ExprKind::Binary("):
            binary = val
        elif pat == "_":
            kinds["_"] = val
        else:
            m = re.fullmatch(r"pr::ExprKind::(\w+)\((?:_|\.\.)\)", pat)
            if not m:
                raise ShapeError(f"binding_strength: unrecognised pattern {pat}")
            kinds[m.group(1)] = val
    for k in ("Ident", "Unary", "Range", "FuncCall", "Func", "_"):
        if k not in kinds or not re.fullmatch(r"\d+", kinds[k]):
            raise ShapeError(f"binding_strength: no numeric arm for {k}")
    if set(kinds) != {"Ident", "Unary", "Range", "FuncCall", "Func", "_"} or binary is None:
        raise ShapeError(f"binding_strength: unexpected arms {sorted(kinds)}")
    bstr = {}
    for pat, val in top_level_arms(match_body(binary, "match op")):
        val = val.strip().rstrip(",")
        if not re.fullmatch(r"\d+", val):
            raise ShapeError(f"binding_strength: binary arm {pat} => {val}")
        for alt in pat.split("|"):
            m = re.fullmatch(r"pr::BinOp::(\w+)", alt.strip())
            if not m:
                raise ShapeError(f"binding_strength: binary pattern {alt}")
            bstr[m.group(1)] = int(val)
    if sorted(bstr) != sorted(v for v, _ in binops):
        raise ShapeError("binding_strength does not cover exactly the BinOp variants")
    # ---- associativity
    ab = fn_body(t, r"fn associativity\(expr: &pr::ExprKind\) -> super::Position \{")
    outer = top_level_arms(match_body(ab, "match expr"))
    if len(outer) != 2 or re.sub(r"\s+", "", outer[1][0]) != "_" or "Position::Unspecified" not in outer[1][1]:
        raise ShapeError("associativity: expected a Binary arm and `_ => Unspecified`")
    assoc, adef = {}, None
    for pat, val in top_level_arms(match_body(outer[0][1], "match op")):
        val = val.strip().rstrip(",").split("::")[-1]
        if val not in ("Left", "Right", "Unspecified"):
            raise ShapeError(f"associativity: value {val}")
        if pat.strip() == "_":
            adef = val
            continue
        for alt in pat.split("|"):
            m = re.fullmatch(r"pr::BinOp::(\w+)", alt.strip())
            if not m:
                raise ShapeError(f"associativity: pattern {alt}")
            assoc[m.group(1)] = val
    if adef is None:
        raise ShapeError("associativity: no default arm")
    # ---- can_bind_left
    cb = re.sub(r"\s+", "", fn_body(t, r"fn can_bind_left\(expr: &pr::ExprKind\) -> bool \{"))
    m = re.fullmatch(r"matches!\(expr,pr::ExprKind::Unary\(pr::UnaryExpr\{op:([\w:|]+),\.\.\}\)\)", cb)
    if not m:
        raise ShapeError("can_bind_left: unrecognised shape")
    cbl = [x.split("::")[-1] for x in m.group(1).split("|")]
    for u in cbl:
        if u not in dict(unops):
            raise ShapeError(f"can_bind_left: {u} is not a UnOp")
    # ---- needs_parenthesis / write_within / write_between shapes
    np_ = re.sub(r"\s+", "", fn_body(t, r"fn needs_parenthesis\(this: &pr::Expr, opt: &WriteOpt\) -> bool \{"))
    expect = ("ifopt.unbound_expr&&can_bind_left(&this.kind){returntrue;}letbinding_strength=binding_strength(&this.kind);"
              "ifopt.context_strength>binding_strength{returntrue;}ifopt.context_strength<binding_strength{returnfalse;}"
              "letassoc_matches=matchopt.binary_position{super::Position::Left=>associativity(&this.kind)==super::Position::Left,"
              "super::Position::Right=>associativity(&this.kind)==super::Position::Right,super::Position::Unspecified=>false,};!assoc_matches")
    if np_ != expect:
        raise ShapeError("needs_parenthesis: body differs from the modelled rules")
    ww = re.sub(r"\s+", "", fn_body(t, r"fn write_within<T: WriteSource>\("))
    if "opt.context_strength=opt.context_strength.max(parent_strength);" not in ww:
        raise ShapeError("write_within changed")
    mod = re.sub(r"\s+", "", strip_comments(src(MOD_RS)))
    if "r+=opt.consume(&prefix.to_string())?;opt.context_strength=0;opt.unbound_expr=false;" not in mod:
        raise ShapeError("write_between no longer resets context_strength / unbound_expr")
    flat = re.sub(r"\s+", "", t)
    for need in ["opt_left.binary_position=super::Position::Left;", "opt_right.binary_position=super::Position::Right;",
                 "r+=opt.consume(&op.to_string())?;r+=&write_within(expr.as_ref(),self,opt)?;",
                 "Ident(ident)=>Some(ident.to_string()),", "Literal(literal)=>opt.consume(literal.to_string()),"]:
        if need not in flat:
            raise ShapeError(f"ExprKind::write: expected fragment {need}")
    # ---- keywords(), valid_prql_ident, write_ident_part
    kb = fn_body(t, r"fn keywords\(\) -> &'static HashSet<&'static str> \{")
    m = re.search(r"HashSet::from_iter\(\[(.*?)\]\)", kb, re.S)
    if not m:
        raise ShapeError("keywords(): list not found")
    kws = re.findall(r'"(\w+)"', m.group(1))
    if re.sub(r'"\w+"|[\s,]', "", m.group(1)):
        raise ShapeError("keywords(): unrecognised entries")
    vb = fn_body(src(AST_RS), r"fn valid_prql_ident\(\) -> &'static Regex \{")
    m = re.search(r'Regex::new\(r"([^"]*)"\)', vb)
    if not m:
        raise ShapeError("valid_prql_ident: regex not found")
    rx = m.group(1)
    m2 = re.fullmatch(r"\^\(\?:\\\*\|\[([^\]]+)\]\[([^\]]+)\]\*\)\$", rx)
    if not m2:
        raise ShapeError(f"valid_prql_ident: regex {rx} is not of the shape ^(?:\\*|[start][cont]*)$")
    start, cont = char_class(m2.group(1)), char_class(m2.group(2))
    wp = re.sub(r"\s+", "", fn_body(t, r"pub fn write_ident_part\(s: &str\) -> Cow<'_, str> \{"))
    if wp != "ifvalid_prql_ident().is_match(s)&&!keywords().contains(s){s.into()}else{format!(\"`{s}`\").into()}":
        raise ShapeError("write_ident_part changed")
    # ---- display_ident_part (parser crate): printing of identifier expressions
    it = strip_comments(src(IDENT_RS))
    db = re.sub(r"\s+", "", fn_body(it, r"pub fn display_ident_part\(f: &mut std::fmt::Formatter, s: &str\)[^{]*\{"))
    expect_d = ("fnforbidden_start(c:char)->bool{!(c.is_ascii_alphabetic()||matches!(c,'_'|'$'))}"
                "fnforbidden_subsequent(c:char)->bool{!(c.is_ascii_alphabetic()||c.is_ascii_digit()||c=='_')}"
                "letneeds_escape=s.is_empty()||s.starts_with(forbidden_start)||(s.len()>1&&s.chars().skip(1).any(forbidden_subsequent));"
                "ifneeds_escape{write!(f,\"`{s}`\")}else{write!(f,\"{s}\")}")
    if db != expect_d:
        raise ShapeError("display_ident_part: body differs from the modelled one")
    # ---- literal display shapes
    lr = strip_comments(src(LR_RS))
    qs = re.sub(r"\s+", "", fn_body(lr, r"fn quote_string\(s: &str\) -> String \{"))
    for need in ["if!s.contains('\"'){returnformat!(r#\"\"{s}\"\"#);}", "if!s.contains('\\''){returnformat!(\"'{s}'\");}",
                 "letquote=ifs.starts_with('\"')||s.ends_with('\"'){'\\''}else{'\"'};",
                 "letnext_odd=max_consecutive.div_ceil(2)*2+1;", "format!(\"{delim}{s}{delim}\")"]:
        if need not in qs:
            raise ShapeError(f"quote_string: expected fragment {need}")
    eb = re.sub(r"\s+", "", fn_body(lr, r"fn escape_all_except_quotes\(s: &str\) -> String \{"))
    if "ifch=='\"'||ch=='\\''{result.push(ch);}else{result.extend(ch.escape_default());}" not in eb:
        raise ShapeError("escape_all_except_quotes changed")
    disp = re.sub(r"\s+", "", lr)
    for need in ['Literal::Null=>write!(f,"null")?', 'Literal::Integer(i)=>write!(f,"{i}")?', 'Literal::Float(i)=>write!(f,"{i}")?',
                 'write!(f,"{}",quote_string(escape_all_except_quotes(s).as_str()))?', 'write!(f,"r{}",quote_string(s))?',
                 'f.write_str(if*b{"true"}else{"false"})?']:
        if need not in disp:
            raise ShapeError(f"Literal Display: expected fragment {need}")

    L = [f"-- GENERATED by tools/gen_fmt.py from {AST_RS}, {MOD_RS}, {IDENT_RS}, {LR_RS}; do not edit",
         "import PrqlModel.Gen.Pratt", "namespace Gen.Fmt", "open Gen.Pratt", "",
         "/-- `binding_strength` of a `Binary` node, per operator -/", "def binStrength : BinOp → Nat"]
    L += [f"  | .{v} => {bstr[v]}" for v, _ in binops]
    L += [f"def identStrength : Nat := {kinds['Ident']}", f"def unaryStrength : Nat := {kinds['Unary']}",
          f"def rangeStrength : Nat := {kinds['Range']}", f"def funcCallStrength : Nat := {kinds['FuncCall']}",
          f"def funcStrength : Nat := {kinds['Func']}", f"def otherStrength : Nat := {kinds['_']}   -- literals, tuples, case, pipelines, …",
          "", "inductive Pos where", "  | Unspecified | Left | Right", "  deriving DecidableEq, Repr",
          "/-- `associativity` of a `Binary` node (every other node: Unspecified) -/", "def binAssoc : BinOp → Pos"]
    L += [f"  | .{v} => .{assoc.get(v, adef)}" for v, _ in binops]
    L.append("/-- `can_bind_left`: unary operators that could bind to an expression on their left -/")
    L.append("def canBindLeft : UnOp → Bool")
    L += [f"  | .{v} => {'true' if v in cbl else 'false'}" for v, _ in unops]
    L.append("/-- `keywords()` of the formatter (used by `write_ident_part`: aliases, parameters, import aliases) -/")
    L.append("def keywords : List (List Char) := [" + ", ".join(lean_chars(k) for k in kws) + "]")
    L.append(f"/-- `valid_prql_ident`: `{rx}` as character ranges; `*` alone is valid too -/")
    L.append("def identStart : List (Char × Char) := " + ranges_lean(start))
    L.append("def identCont : List (Char × Char) := " + ranges_lean(cont))
    L.append("/-- `display_ident_part` (parser crate; what an identifier EXPRESSION is printed with): allowed first / later characters; no keyword check -/")
    L.append("def displayStart : List (Char × Char) := " + ranges_lean([("a", "z"), ("A", "Z"), ("_", "_"), ("$", "$")]))
    L.append("def displayCont : List (Char × Char) := " + ranges_lean([("a", "z"), ("A", "Z"), ("0", "9"), ("_", "_")]))
    L.append("def displayChecksKeywords : Bool := false")
    L += ["", "end Gen.Fmt", ""]
    summary = {"binary": bstr, "kinds": kinds, "assoc": {v: assoc.get(v, adef) for v, _ in binops}, "can_bind_left": cbl,
               "keywords": kws, "ident_regex": rx}
    return "\n".join(L), summary
