"""Gen/HashSites.lean + evidence inventory  <-  every iteration over a HashMap / HashSet in the compiler.

C11 (compilation is a pure function of sources and options) can only fail through the hash seed where the
code ENUMERATES a hash container (lookups, inserts, len, contains are seed independent).  This translator

  1. finds every binding whose type annotation / constructor mentions HashMap or HashSet (struct fields,
     fn parameters, locals, fns returning a hash container and the locals bound to their results),
  2. lists every enumeration of such a binding (`.iter() .values() .keys() .into_iter() .drain() .retain()
     .into_values() .into_keys() .iter_mut() .values_mut()`, `for .. in x`, `extend(x)`, `from_iter(x)`,
     `#[derive(Serialize)]`/`Debug` of a hash field) - by NAME, so it over-approximates,
  3. requires every site to be in the table CLASSES below, keyed by (file, function, normalised snippet)
     - never by line number - and checks the syntactic EVIDENCE the classification rests on
     (e.g. that `.sorted` still follows).  A site that is not in the table, a table row without a site,
     or evidence that no longer matches raises ShapeError: the tie is broken and C11 fails.

Classes
  sorted      sorted-before-use: the enumeration is sorted / collected into another hash container or BTree /
              reduced by a commutative-associative-idempotent operation (min, max, any, all, sum, set union,
              membership) before anything order-sensitive sees it           -> Props.C11.sort_perm & co.
  thm:<name>  order-independent by the theorem <name> of Props/C11.lean (the site's model is the theorem's subject)
  leak:<id>   the result DOES depend on the enumeration order; <id> is a known finding; Props/C11.lean has the
              `<..>_order_dependent_counterexample`
  nothash     the name is shared with a hash binding but this binding is a Vec / slice / ordered map / iterator
              (false positive of the by-name over-approximation); evidence = the declaration that shows it
  debug       only reachable through prqlc::debug (log rendering) or Debug formatting that no compile output reads
"""
import os, re, json
import gen
from gen import ShapeError, REPO

SCOPE_DIRS = ["prqlc/prqlc/src/semantic", "prqlc/prqlc/src/sql", "prqlc/prqlc/src/codegen", "prqlc/prqlc/src/utils",
              "prqlc/prqlc/src/debug", "prqlc/prqlc/src/ir", "prqlc/prqlc-parser/src"]
SCOPE_FILES = ["prqlc/prqlc/src/parser.rs", "prqlc/prqlc/src/lib.rs", "prqlc/prqlc/src/error_message.rs",
               "prqlc/prqlc/src/json.rs"]
ITER_METHODS = ["iter", "iter_mut", "values", "values_mut", "keys", "into_iter", "into_values", "into_keys", "drain", "retain",
                "extract_if", "union", "intersection", "difference", "symmetric_difference", "into_par_iter", "par_iter",
                "sorted", "sorted_by", "sorted_by_key", "collect", "collect_vec"]
HASH_RE = r"\b(?:Hash(?:Map|Set)|Excluded|JsonFormat1Row)\b"     # the two type aliases of hash containers in scope are checked below


def verif_gated(paths):
    """module files that exist only under the cargo feature `verif` (declared `#[cfg(feature = "verif")] [pub] mod x;` by their
    parent): verification hooks, not part of the shipped compiler, hence outside the inventory"""
    gated = set()
    for f in paths:
        if os.path.basename(f) not in ("mod.rs", "lib.rs"):
            continue
        try:
            t = open(os.path.join(REPO, f), encoding="utf-8").read()
        except OSError:
            continue
        for m in re.finditer(r'#\[cfg\(feature\s*=\s*"verif"\)\]\s*(?:pub(?:\([a-z]+\))?\s+)?mod\s+([a-z_0-9]+)\s*;', t):
            d = os.path.dirname(f)
            gated.add(os.path.join(d, m.group(1) + ".rs"))
            gated.add(os.path.join(d, m.group(1), "mod.rs"))
    return gated


def files():
    out = []
    for d in SCOPE_DIRS:
        for root, _, fs in os.walk(os.path.join(REPO, d)):
            for f in fs:
                if f.endswith(".rs"):
                    out.append(os.path.relpath(os.path.join(root, f), REPO))
    for f in SCOPE_FILES:
        if os.path.exists(os.path.join(REPO, f)):
            out.append(f)
    out = set(out)
    return sorted(out - verif_gated(out))


def blank_comments_and_strings(t):
    """same length text with comments and string/char literal CONTENTS replaced by spaces (so brace matching and
    regexes see code only)"""
    out = list(t)
    i, n = 0, len(t)
    while i < n:
        c = t[i]
        if t.startswith("//", i):
            j = t.find("\n", i)
            j = n if j < 0 else j
            for k in range(i, j):
                out[k] = " "
            i = j
        elif t.startswith("/*", i):
            j = t.find("*/", i + 2)
            j = n if j < 0 else j + 2
            for k in range(i, j):
                if out[k] != "\n":
                    out[k] = " "
            i = j
        elif c == '"' or (c == "r" and re.match(r'r#*"', t[i:i + 6]) and not (i and (t[i - 1].isalnum() or t[i - 1] == "_"))):
            if c == "r":
                m = re.match(r'r(#*)"', t[i:])
                close = '"' + m.group(1)
                s = i + m.end()
                j = t.find(close, s)
                j = n if j < 0 else j
                for k in range(s, j):
                    if out[k] != "\n":
                        out[k] = " "
                i = j + len(close)
            else:
                j = i + 1
                while j < n and t[j] != '"':
                    j += 2 if t[j] == "\\" else 1
                for k in range(i + 1, min(j, n)):
                    if out[k] != "\n":
                        out[k] = " "
                i = j + 1
        elif c == "'":
            m = re.match(r"'(\\.[^']*|[^\\'])'", t[i:i + 12])
            if m:
                for k in range(i + 1, i + m.end() - 1):
                    out[k] = " "
                i += m.end()
            else:
                i += 1      # lifetime
        else:
            i += 1
    return "".join(out)


def match_brace(t, i):
    depth = 0
    for j in range(i, len(t)):
        if t[j] == "{":
            depth += 1
        elif t[j] == "}":
            depth -= 1
            if depth == 0:
                return j + 1
    raise ShapeError("unbalanced braces")


def cut_test_modules(t):
    """blank `#[cfg(test)] mod x { .. }` (same length)"""
    for m in list(re.finditer(r"#\[cfg\(test\)\]\s*(?:pub(?:\([a-z]+\))?\s+)?mod\s+\w+\s*\{", t)):
        e = match_brace(t, m.end() - 1)
        t = t[:m.start()] + re.sub(r"[^\n]", " ", t[m.start():e]) + t[e:]
    return t


def functions(t):
    """[(start, end, qualified name, header_start)] of every fn with a body; name = ImplType::fn when inside an impl"""
    impls = []
    for m in re.finditer(r"\bimpl\b(?:<[^{;]*?>)?\s+([^{;]+?)\s*\{", t):
        head = re.sub(r"\s+", " ", m.group(1))
        ty = head.split(" for ")[-1]
        ty = re.sub(r"\bwhere\b.*", "", ty).strip()
        ty = re.sub(r"<.*", "", ty).strip().split("::")[-1]
        impls.append((m.end() - 1, match_brace(t, m.end() - 1), ty))
    res = []
    for m in re.finditer(r"\bfn\s+([A-Za-z_][A-Za-z0-9_]*)", t):
        # body = first `{` at paren/angle depth 0 before a `;`
        j, depth = m.end(), 0
        while j < len(t):
            c = t[j]
            if c in "([":
                depth += 1
            elif c in ")]":
                depth -= 1
            elif c == ";" and depth == 0:
                j = -1
                break
            elif c == "{" and depth == 0:
                break
            j += 1
        if j < 0 or j >= len(t):
            continue
        e = match_brace(t, j)
        owner = [ty for (s, en, ty) in impls if s < m.start() < en]
        name = (owner[-1] + "::" if owner else "") + m.group(1)
        res.append((j, e, name, m.start()))
    return res


def enclosing(funcs, pos):
    best = None
    for (s, e, name, h) in funcs:
        if h <= pos < e and (best is None or s > best[0]):
            best = (s, e, name, h)
    return best


def norm(s):
    s = re.sub(r"\s+", " ", s).strip()
    return re.sub(r"\s*([().,:;&{}\[\]<>|=!?+\-*/])\s*", r"\1", s)


def statement_window(t, start, limit=700):
    """text from `start` to the end of the enclosing statement (`;` or an unmatched closing bracket), capped"""
    depth, j = 0, start
    while j < len(t) and j - start < limit:
        c = t[j]
        if c in "({[":
            depth += 1
        elif c in ")}]":
            depth -= 1
            if depth < 0:
                break
        elif c == ";" and depth == 0:
            break
        j += 1
    return t[start:j]


def scan():
    """-> (sites, hash_fields, per file hash locals)"""
    texts = {}
    for f in files():
        raw = open(os.path.join(REPO, f), encoding="utf-8").read()
        texts[f] = cut_test_modules(blank_comments_and_strings(raw))
    # type aliases of hash containers: only the ones named in HASH_RE may exist
    for f, t in texts.items():
        for m in re.finditer(r"\btype\s+(\w+)(?:<[^=]*>)?\s*=\s*[^;]*\bHash(?:Map|Set)\b", t):
            if not re.fullmatch(HASH_RE[2:-2].replace("(?:", "(").replace("\\b", ""), m.group(1)) and m.group(1) not in ("Excluded", "JsonFormat1Row"):
                raise ShapeError(f"{f}: new type alias of a hash container `{m.group(1)}` (add it to HASH_RE)")
    # 1a. global: struct / enum-variant fields (inside struct / enum bodies only) and fns returning hash containers
    fields, hash_fns = {}, {}
    for f, t in texts.items():
        for m in re.finditer(r"\b(?:struct|enum)\s+\w+(?:<[^{;]*?>)?\s*(?:where[^{;]*)?\{", t):
            body = t[m.end():match_brace(t, m.end() - 1)]
            for fm in re.finditer(r"\b([a-z_][a-z0-9_]*)\s*:\s*[^,;{}]*?" + HASH_RE, body):
                fields.setdefault(fm.group(1), set()).add(f)
        for m in re.finditer(r"\bfn\s+([A-Za-z_][A-Za-z0-9_]*)\s*(?:<[^>]*>)?\s*\(([^{;]*?)\)\s*->\s*([^{;]*?)\s*(?:where[^{;]*)?[{;]", t, re.S):
            if re.search(HASH_RE, m.group(3)):
                hash_fns.setdefault(m.group(1), set()).add(f)
    # tuple-variant payloads like `Input(HashMap<..>)`
    tuple_variants = set()
    for f, t in texts.items():
        for m in re.finditer(r"\b([A-Z][A-Za-z0-9]*)\s*\(\s*" + HASH_RE, t):
            tuple_variants.add(m.group(1))
    FIELD_ALT = "|".join(sorted(map(re.escape, fields)))
    FN_ALT = "|".join(sorted(map(re.escape, hash_fns)))
    WRAP = r"(?:\s*\??\s*\.\s*(?:clone|as_ref|as_mut|unwrap|borrow|borrow_mut|to_owned|expect|unwrap_or_default)\([^()]*\))*"
    sites = []
    for f, t in texts.items():
        funcs = functions(t)
        # 1b. per function: parameters and locals
        local = {}      # fn span -> set(names)
        for (s, e, name, h) in funcs:
            names = set()
            header = t[h:s]
            for m in re.finditer(r"\b([a-z_][a-z0-9_]*)\s*:\s*([^,()]*(?:\([^()]*\))?[^,()]*)", header):
                if re.search(HASH_RE, m.group(2)):
                    names.add(m.group(1))
            body = t[s:e]
            for m in re.finditer(r"\b(?:let|if\s+let|while\s+let)\s+(?:Some\(|Ok\()?\s*(?:mut\s+)?(\(?[a-z_][a-z0-9_, ]*\)?)\)?\s*(?::\s*([^=;]+?))?\s*=\s*", body):
                ann = m.group(2) or ""
                init = norm(statement_window(body, m.end(), 1500))
                ishash = bool(re.search(HASH_RE, ann))
                if not ishash and not ann:
                    # constructor / collect::<Hash..> / call of a fn returning a hash container / a hash field moved or borrowed out
                    if re.search(HASH_RE, init):
                        ishash = True
                    elif re.search(r"\b(" + FN_ALT + r")\(", init) and not re.search(r"\.(len|is_empty|contains\w*|get|iter|into_iter)\(", init):
                        ishash = True
                    elif re.search(r"\.(" + FIELD_ALT + r")(\.clone\(\)|\.as_ref\(\))?\)*$", init) or re.search(r"(take|replace)\(&mut [\w.]*\b(" + FIELD_ALT + r")\b", init):
                        ishash = True
                if ishash:
                    for nm in re.findall(r"[a-z_][a-z0-9_]*", m.group(1)):
                        if nm != "mut":
                            names.add(nm)
            for v in tuple_variants:
                for m in re.finditer(r"\b" + v + r"\(\s*(?:ref\s+|mut\s+)*([a-z_][a-z0-9_]*)\s*\)", body):
                    names.add(m.group(1))
            # a hash FIELD bound to another name by a pattern (`All { except: e_e, .. }`) or filled from a variable
            # (`All { except: rest }`): that name is a hash container too (by name: over-approximation)
            for m in re.finditer(r"\b(" + FIELD_ALT + r")\s*:\s*(?:ref\s+|mut\s+|&\s*)*([a-z_][a-z0-9_]*)\s*(?=[,}])", body):
                if m.group(2) not in ("true", "false", "none"):
                    names.add(m.group(2))
            # the result of a set operator on hash containers (`let rest = a - &b;`)
            changed = True
            while changed:
                changed = False
                for m in re.finditer(r"\blet\s+(?:mut\s+)?([a-z_][a-z0-9_]*)\s*=\s*&?\s*([a-z_][a-z0-9_]*)\s*[-|&^]\s*&?\s*([a-z_][a-z0-9_]*)\s*;", body):
                    if (m.group(2) in names or m.group(3) in names) and m.group(1) not in names:
                        names.add(m.group(1))
                        changed = True
            local[(s, e)] = names
        # 2. enumeration sites: every identifier occurrence followed by an enumerating use
        meth = "|".join(ITER_METHODS)
        cand = []
        for m in re.finditer(r"(\.\s*)?\b([a-z_][a-z0-9_]*)\b(\s*\([^()]*\))?" + WRAP + r"\s*\??\s*\.\s*(" + meth + r")\s*(?:::<[^>]*>)?\s*\(", t):
            cand.append((m.start(2), m.group(2), bool(m.group(1)), "." + m.group(4) + "(", m.group(0).lstrip(". \n"), bool(m.group(3))))
        for m in re.finditer(r"\bfor\s+([^;{}]+?)\s+in\s+([^{;]+?)\s*\{", t):
            expr = m.group(2)
            mm = re.fullmatch(r"[&\s]*(?:mut\s+)?\(?((?:[A-Za-z_][A-Za-z0-9_]*(?:\[[^\]]*\])?\s*\.\s*)*)([a-z_][a-z0-9_]*)((?:\([^()]*\))?)" + WRAP + r"\)?", expr.strip())
            if mm:
                cand.append((m.start(), mm.group(2), bool(mm.group(1)), "for-in", m.group(0)[:-1], bool(mm.group(3))))
        for m in re.finditer(r"\b(extend|from_iter|zip|chain|Vec::from|Vec::from_iter|interleave|join|izip!|concat)\s*\(\s*[&\s]*(?:mut\s+)?((?:[A-Za-z_][A-Za-z0-9_]*\s*\.\s*)*)([a-z_][a-z0-9_]*)((?:\([^()]*\))?)" + WRAP + r"\s*\)", t):
            cand.append((m.start(), m.group(3), bool(m.group(2)), m.group(1) + "(..)", m.group(0), bool(m.group(4))))
        for (pos, nm, dotted, how, st, is_call) in cand:
            fn = enclosing(funcs, pos)
            if fn is None:
                continue
            why = None
            if is_call:
                if nm in hash_fns:
                    why = "fn-returning-hash"
            elif dotted and nm in fields:
                why = "field"
            elif not dotted and nm in local.get((fn[0], fn[1]), set()):
                why = "local"
            elif not dotted and nm in fields and re.search(r"\b" + nm + r"\b", t[fn[3]:pos]):
                why = "bare-field-name"      # `Struct { names, .. }` / `All { except, .. }` patterns, closure parameters, shadowing locals
            if why is None:
                continue
            win = statement_window(t, pos)
            sites.append(dict(file=f.replace("prqlc/prqlc/src/", "prqlc:").replace("prqlc/prqlc-parser/src/", "parser:"),
                              fn=fn[2], how=how, name=nm, why=why, key=norm(st)[:120], window=norm(win)[:600],
                              line=t.count("\n", 0, pos) + 1))
    # serde / Debug derives over hash fields (serialisation enumerates the map)
    for f, t in texts.items():
        for m in re.finditer(r"#\[derive\(([^)]*)\)\]\s*(?:#\[[^\]]*\]\s*)*pub\s+(?:struct|enum)\s+(\w+)[^{;]*\{", t):
            e = match_brace(t, m.end() - 1)
            body = t[m.end():e]
            hf = re.findall(r"\b([a-z_][a-z0-9_]*)\s*:\s*[^,;{}()]*?" + HASH_RE, body)
            if hf and "Serialize" in m.group(1):
                sites.append(dict(file=f.replace("prqlc/prqlc/src/", "prqlc:").replace("prqlc/prqlc-parser/src/", "parser:"),
                                  fn="derive(Serialize)", how="serde", name=",".join(hf), why="field", key=f"{m.group(2)}{{{','.join(hf)}}}",
                                  window=norm(m.group(1)), line=t.count("\n", 0, m.start()) + 1))
    # dedupe identical keys inside one function by ordinal
    seen = {}
    for s in sorted(sites, key=lambda s: (s["file"], s["line"])):
        k = (s["file"], s["fn"], s["key"])
        seen[k] = seen.get(k, 0) + 1
        if seen[k] > 1:
            s["key"] += f" #{seen[k]}"
    sites.sort(key=lambda s: (s["file"], s["line"]))
    return sites, fields, hash_fns



# ---------------------------------------------------------------------------------------------------------------
# THE CLASSIFICATION TABLE.  One row per site:  (file, function, key)  ->  (class, evidence, note)
#   evidence: regex that must match the normalised statement starting at the site ("fn:<re>" = anywhere in the normalised body
#   of the enclosing function, "@<file>:<re>" = anywhere in another file): the syntactic fact the classification rests on.
#   Whitespace is removed around punctuation in the normalised text; string literal contents are blanked.
# ---------------------------------------------------------------------------------------------------------------
S, T, L, N, D = "sorted", "thm:", "leak:", "nothash", "debug"
CLASSES = {
    # ---- prqlc-parser ------------------------------------------------------------------------------------------
    ("parser:parser/pr/expr.rs", "derive(Serialize)", "FuncCall{named_args}"):
        (L + "pl-json-named-args-order", r"Serialize", "prqlc::json::from_pl prints the named arguments of a call in map order"),
    ("parser:parser/pr/stmt.rs", "derive(Serialize)", "QueryDef{other}"):
        (T + "singleton_enum_order_indep", r"@parser:parser/stmt.rs:map_or_else\(HashMap::new,\|x\|\{HashMap::from_iter\(vec!\[\(\" *\"\.to_string\(\),x\)\]\)\}\)", "`other` has 0 or 1 entries by construction"),
    ("parser:parser/stmt.rs", "query_def", "args.into_iter("):
        (N, r"fn:\.validate\(\|args,extra,emit\|\{.*let mut args:HashMap<_,_>=args\.into_iter\(\)\.collect\(\)", "`args` is the parsed Vec here; it is collected INTO the map"),
    ("parser:parser/stmt.rs", "query_def", "args.keys("):
        (L + "query-def-unknown-args-order", r"args\.keys\(\)\.map\(.*\)\.join\(", "error text lists the unknown `prql` header arguments in map order"),
    # ---- formatter ---------------------------------------------------------------------------------------------
    ("prqlc:codegen/ast.rs", "ExprKind::write", "for(name,arg)in&func_call.named_args"):
        (L + "fmt-named-args-order", r"for\(name,arg\)in&func_call\.named_args\{r\+=", "formatter writes named arguments in map order"),
    ("prqlc:codegen/ast.rs", "Stmt::write", "for(key,value)in&query.other"):
        (T + "singleton_enum_order_indep", r"@parser:parser/stmt.rs:map_or_else\(HashMap::new,", "0 or 1 entries (see QueryDef.other)"),
    # ---- debug log rendering (prqlc::debug, never read by a compile) ---------------------------------------------
    ("prqlc:debug/render_html.rs", "write_repr_prql", "source_ids.iter("): (D, r"\.collect\(\)", "reverse id map for the HTML log"),
    ("prqlc:debug/render_html.rs", "write_repr_prql", "for(path,source)in&source_tree.sources"): (D, r"writeln!", "HTML log lists the files in map order"),
    ("prqlc:debug/render_html.rs", "write_repr_decl", "names.iter("): (S, r"\.sorted_by_key\(\|x\|x\.0\.as_str\(\)\)", "sorted by name (map keys: distinct)"),
    ("prqlc:debug/render_html.rs", "write_decl", "names.iter("): (S, r"\.sorted_by_key\(\|x\|x\.0\.as_str\(\)\)", "sorted by name"),
    # ---- serde of IR types (debug log / `prqlc debug` / lineage JSON; RQ has no hash container) ------------------------
    ("prqlc:ir/decl.rs", "derive(Serialize)", "RootModule{span_map}"): (D, r"Serialize", "only serialised into the debug log (ReprDecl)"),
    ("prqlc:ir/decl.rs", "derive(Serialize)", "Module{names}"): (D, r"Serialize", "only serialised into the debug log (ReprDecl)"),
    ("prqlc:ir/pl/expr.rs", "derive(Serialize)", "FuncCall{named_args}"): (D, r"Serialize", "resolved PL is only serialised into the debug log / lineage; same shape as pl-json-named-args-order"),
    ("prqlc:ir/pl/expr.rs", "derive(Serialize)", "Func{env}"): (D, r"Serialize", "only serialised into the debug log"),
    ("prqlc:ir/pl/lineage.rs", "derive(Serialize)", "LineageColumn{except}"):
        (S, r"@prqlc:ir/pl/lineage.rs:#\[serde\(serialize_with=\" *\"\)\]except:HashSet<String>", "serialize_with = sorted_set"),
    ("prqlc:ir/pl/lineage.rs", "sorted_set", "value.iter("): (S, r"value\.iter\(\)\.sorted\(\)", "whole elements sorted"),
    ("prqlc:lib.rs", "derive(Serialize)", "SourceTree{sources,source_ids}"): (D, r"Serialize", "only serialised into the debug log (ReprPrql)"),
    # ---- source tree ---------------------------------------------------------------------------------------------
    ("prqlc:lib.rs", "SourceTree::insert", "source_ids.keys("): (S, r"\.keys\(\)\.max\(\)", "max: reduce_order_indep"),
    ("prqlc:parser.rs", "parse", "source_ids.iter("):
        (T + "collect_distinct_keys_order_indep", r"\.map\(\|\(a,b\)\|\(b\.as_path\(\),a\)\)\.collect\(\)", "reverse id map; keys distinct when the caller's file list has no repeated path"),
    ("prqlc:parser.rs", "linearize_tree", "sources.keys("):
        (T + "singleton_enum_order_indep", r"fn:if tree\.sources\.len\(\)==1\{root_path=tree\.sources\.keys\(\)\.next\(\)\.unwrap\(\);\}", "guarded by len() == 1"),
    ("prqlc:parser.rs", "linearize_tree", "sources.keys( #2"):
        (L + "root-file-choice", r"\.keys\(\)\.find\(path_starts_with_uppercase\)", "two files starting with an upper-case letter: an arbitrary one becomes the root module"),
    ("prqlc:parser.rs", "linearize_tree", "sources.keys( #3"): (S, r"\.sorted\(\)\.join\(", "file names sorted in the error text"),
    ("prqlc:parser.rs", "linearize_tree", "for(path,source)in&tree.sources"):
        (L + "equal-module-path-order", r"fn:sources\.sort_by\(\|a,b\|a\.module_path\.cmp\(&b\.module_path\)\)", "sorted by module path (linearize_tree_sorted) - but `a.prql` and `a.sql` have EQUAL module paths and a stable sort keeps map order"),
    # ---- semantic --------------------------------------------------------------------------------------------------
    ("prqlc:ir/pl/fold.rs", "fold_func_call", "named_args.into_iter("):
        (L + "named-args-first-error-choice", r"\.map\(\|\(name,expr\)\|fold\.fold_expr\(expr\)\.map\(\|e\|\(name,e\)\)\)\.try_collect\(\)", "first error in map order (and fold side effects in map order)"),
    ("prqlc:semantic/ast_expand.rs", "expand_expr", "named_args.into_iter("):
        (L + "named-args-first-error-choice", r"\.map\(\|\(k,v\)\|->Result<_>\{Ok\(\(k,expand_expr\(v\)\?\)\)\}\)\.try_collect\(\)", "first error in map order"),
    ("prqlc:semantic/ast_expand.rs", "restrict_expr_kind", "named_args.into_iter("):
        (T + "collect_distinct_keys_order_indep", r"\.map\(\|\(k,v\)\|\(k,restrict_expr\(v\)\)\)\.collect\(\)", "pure per-entry map, collected into a map again"),
    ("prqlc:semantic/ast_expand.rs", "restrict_module", "names.into_iter("): (S, r"\.sorted_by_key\(\|x\|x\.0\.clone\(\)\)", "sorted by name (map keys: distinct)"),
    ("prqlc:semantic/lowering.rs", "lower_to_ir", "names.keys("):
        (S, r"fn:\.keys\(\)\.filter\(.*\)\.collect\(\);let error=if user_declared_names\.is_empty\(\)", "only is_empty() of the filtered keys is read: reduce_order_indep"),
    ("prqlc:semantic/lowering.rs", "Lowerer::redirect_mappings", "node_mapping.values_mut("):
        (T + "pointwise_update_order_indep", r"fn:^\{for target in self\.node_mapping\.values_mut\(\)\{match target\{", "pure per-value update"),
    ("prqlc:semantic/lowering.rs", "Lowerer::redirect_mappings", "mapping.values_mut("):
        (T + "pointwise_update_order_indep", r"values_mut\(\)\{if let Some\(new\)=redirects\.get\(cid\)\{\*cid=\*new;\}\}", "pure per-value update"),
    ("prqlc:semantic/lowering.rs", "Lowerer::push_select", "input_cols.iter("):
        (S, r"fn:\.collect_vec\(\);input_cols\.sort_by_key\(\|e\|e\.1\.1\)", "sorted by column position (distinct by construction in create_a_table_instance)"),
    ("prqlc:semantic/lowering.rs", "Lowerer::push_select", "for(col,(cid,_))in input_cols"):
        (N, r"fn:let mut input_cols=input_cols\.iter\(\).*\.collect_vec\(\);input_cols\.sort_by_key", "the sorted Vec shadows the map"),
    ("prqlc:semantic/lowering.rs", "Lowerer::find_selected_all", "selected.retain("):
        (N, r"fn:let mut selected=self\.declare_as_columns\(within,false\)\?", "`selected` is a Vec<CId>; the set is only asked `contains`"),
    ("prqlc:semantic/lowering.rs", "try_extract_sql_columns", "sql_columns.into_iter("):
        (N, r"fn:\.collect::<Result<Vec<Vec<String>>,_>>\(\)", "Vec<String> from the SQL parser"),
    ("prqlc:semantic/lowering.rs", "TableExtractor::extract_from_module", "for(name,entry)in&namespace.names"):
        (T + "toposort_stable", r"@prqlc:semantic/lowering.rs:let tables:HashMap<_,_,RandomState>=HashMap::from_iter\(tables\)", "the table list in map order is collected into a map again by toposort_tables"),
    ("prqlc:semantic/lowering.rs", "toposort_tables", "from_iter(tables)"):
        (N, r"fn:^\{let tables:HashMap<_,_,RandomState>=HashMap::from_iter\(tables\);", "argument is the Vec parameter"),
    ("prqlc:semantic/lowering.rs", "toposort_tables", "for(ident,table)in&tables"):
        (T + "toposort_stable", r"fn:dependencies\.sort_by\(\|a,b\|a\.0\.cmp\(&b\.0\)\);let sort=toposort\(&dependencies,Some\(main_table\)\)", "dependency list sorted by identifier before the DFS"),
    ("prqlc:semantic/module.rs", "Module::lookup_in", "redirected.into_iter("):
        (T + "lookup_set_semantics", r"\.map\(\|i\|Ident::from_name\(&prefix\)\+i\)\.collect\(\)", "element-wise map, collected into a set"),
    ("prqlc:semantic/module.rs", "Module::lookup", "extend(r)"): (T + "lookup_set_semantics", r"extend\(r\)", "set union"),
    ("prqlc:semantic/module.rs", "Module::into_exprs", "names.into_iter("):
        (T + "collect_distinct_keys_order_indep", r"\.map\(\|\(k,v\)\|\(k,\*v\.kind\.into_expr\(\)\.unwrap\(\)\)\)\.collect\(\)", "per-entry map, collected into a map"),
    ("prqlc:semantic/module.rs", "Module::from_exprs", "exprs.into_iter("):
        (T + "collect_distinct_keys_order_indep", r"\.map\(\|\(key,expr\)\|\{.*\(key,decl\)\}\)\.collect\(\)", "per-entry map, collected into a map"),
    ("prqlc:semantic/module.rs", "Module::as_decls", "for(name,decl)in&self.names"):
        (L + "error-hint-available-columns-order", r"@prqlc:semantic/resolver/names.rs:this\.as_decls\(\)\.into_iter\(\)\.sorted_by_key\(\|x\|x\.1\.order\)", "the only consumer sorts by Decl.order (stable): columns added by insert_frame_col all have order 0, so the `available columns` hint lists them in map order"),
    ("prqlc:semantic/reporting.rs", "Labeler::label_module", "names.iter("):
        (D, r"@prqlc:lib.rs:pub mod internal\{", "label_references: `prqlc debug annotate` only"),
    ("prqlc:semantic/resolver/expr.rs", "Resolver::construct_tuple_from_module", "names.iter("):
        (L + "wildcard-equal-order-choice", r"\.sorted_by_key\(\|\(_,d\)\|d\.order\)", "sorted by Decl.order (stable), but a sub-namespace of input #n has order n and a column at position n-1 has order n too: `select {k = 1, t.b, u.c} | select {this.*}` emits k and u.* in map order"),
    ("prqlc:semantic/resolver/functions.rs", "Resolver::apply_args_to_closure", "named_args.into_iter("):
        (L + "unknown-named-arg-choice", r"named_args\.into_iter\(\)\.next\(\)\{return Err\(", "an arbitrary one of the unknown named arguments is reported"),
    ("prqlc:semantic/resolver/functions.rs", "Resolver::resolve_function_args", "for(index,(param,mut arg))in other"):
        (N, r"fn:let\(relations,other\):\(Vec<_>,Vec<_>\)=", "`other` is a Vec (name shared with QueryDef.other)"),
    ("prqlc:semantic/resolver/names.rs", "Resolver::resolve_ident_core", "decls.into_iter("):
        (T + "singleton_enum_order_indep", r"fn:match decls\.len\(\)\{0=>\{\}1=>return Ok\(decls\.into_iter\(\)\.next\(\)\.unwrap\(\)\),", "guarded by len() == 1"),
    ("prqlc:semantic/resolver/names.rs", "Resolver::resolve_ident_core", "decls.into_iter( #2"):
        (T + "singleton_enum_order_indep", r"fn:match decls\.len\(\)\{0=>ident,1=>return Ok\(decls\.into_iter\(\)\.next\(\)\.unwrap\(\)\),", "guarded by len() == 1"),
    ("prqlc:semantic/resolver/names.rs", "Resolver::resolve_ident_fallback", "decls.into_iter("):
        (T + "singleton_enum_order_indep", r"fn:match decls\.len\(\)\{1=>\{let infer_ident=decls\.into_iter\(\)\.next\(\)\.unwrap\(\);", "guarded by len() == 1"),
    ("prqlc:semantic/resolver/names.rs", "Resolver::resolve_ident_wildcard", "res.into_iter("):
        (T + "singleton_enum_order_indep", r"fn:if res\.len\(\)!=1\{return Err\(.*\);\}let module_fq_self=res\.into_iter\(\)\.next\(\)\.unwrap\(\);", "guarded by len() == 1"),
    ("prqlc:semantic/resolver/names.rs", "ambiguous_error", "idents.iter("): (S, r"idents\.iter\(\)\.all\(", "all(): reduce_order_indep"),
    ("prqlc:semantic/resolver/names.rs", "ambiguous_error", "for mut ident in idents"):
        (S, r"fn:chunks\.push\(ident\.to_string\(\)\);\}chunks\.sort\(\);", "the strings are sorted before they are joined"),
    ("prqlc:semantic/resolver/transforms.rs", "append", "extend(except_b)"):
        (S, r"fn:let mut except=except_t;except\.extend\(except_b\);", "one hash set extended by another one (set union): reduce_order_indep"),
    ("prqlc:semantic/resolver/transforms.rs", "Lineage::apply_assign", "e_e.difference("):
        (S, r"e_e\.difference\(&except\)\.sorted\(\)", "the surviving names of a nested exclusion are sorted before they become columns"),
    ("prqlc:semantic/resolver/transforms.rs", "parse_json1", "data.into_iter("):
        (N, r"fn:let data:Vec<JsonFormat1Row>=", "`data` is a Vec of rows; the column names of the first row are sorted (`columns.sort()`)"),
    # ---- sql backend -----------------------------------------------------------------------------------------------
    ("prqlc:sql/gen_projection.rs", "try_into_exprs", "for cid in cids"):
        (N, r"fn:let\(cids,excluded\)=translate_wildcards\(&ctx\.anchor,cids\);", "first component (Vec<CId>) of the pair"),
    ("prqlc:sql/gen_projection.rs", "translate_exclude", "excluded.into_iter("):
        (N, r"fn:let excluded=as_col_names\(&excluded,&ctx\.anchor\);", "shadowed by the sorted Vec<&str> of as_col_names"),
    ("prqlc:sql/gen_projection.rs", "as_col_names", "cids.iter("): (S, r"cids\.iter\(\)\.sorted_by_key\(\|c\|c\.get\(\)\)", "sorted by column id (set elements: distinct)"),
    ("prqlc:sql/pq/gen_query.rs", "compile_relation_instance", "cid_redirects.iter("):
        (T + "find_unique_order_indep", r"\.find_map\(\|\(k,v\)\|if v==original_cid\{Some\(k\)\}else\{None\}\)", "key of a given redirect target; targets are fresh cids, hence injective (ASSUMED invariant of anchor_split / fold_sql_query)"),
    ("prqlc:sql/pq/postprocess.rs", "SortingInference::alias_last_sorting", "relation_instances.iter("):
        (T + "collect_distinct_keys_order_indep", r"\.map\(\|\(riid,rel_inst\)\|\(riid,&rel_inst\.cid_redirects\)\)\.collect::<HashMap<_,_>>\(\)", "keys are the keys of the source map"),
    ("prqlc:sql/pq/postprocess.rs", "SortingInference::alias_last_sorting", "column_decls.values("):
        (L + "orderby-alias-choice", r"Some\(\(referenced_id,compute\.id\)\).*\.collect::<HashMap<_,_>>\(\)", "column -> alias map: two aliases of one column are two entries with one key, the last enumerated wins"),
    ("prqlc:sql/pq/postprocess.rs", "SortingInference::alias_last_sorting", "cid_redirects.iter("):
        (T + "find_unique_order_indep", r"cid_redirects\.iter\(\)\{if target==cid\{.*break;\}\}", "first redirect with a given target; targets injective (ASSUMED, as above)"),
    ("prqlc:sql/pq/postprocess.rs", "SortingInference::fold_sql_query", "relation_instances.iter_mut("):
        (L + "cte-instance-choice", r"\.iter_mut\(\)\.find\(\|\(_riid,rel_inst\)\|rel_inst\.table_ref\.source==cte\.tid\)\.unwrap\(\)", "a CTE referenced twice has two instances; the sort-column redirect is added to an arbitrary one"),
    ("prqlc:sql/pq/postprocess.rs", "SortingInference::fold_sql_transforms", "result.iter_mut("):
        (N, r"fn:let mut result=Vec::with_capacity\(", "Vec of transforms"),
    ("prqlc:sql/pq/postprocess.rs", "assign_names", "table_decls.values_mut("):
        (S, r"fn:let decls=ctx\.anchor\.table_decls\.values_mut\(\);let mut names=HashSet::new\(\);for decl in decls\.sorted_by_key\(\|d\|d\.id\.get\(\)\)", "sorted by table id (map keys: distinct)"),
    ("prqlc:sql/pq/preprocess.rs", "vecs_contain_same_elements", "a.iter("): (N, r"fn:let a:HashSet<&T,RandomState>=a\.iter\(\)\.collect\(\);.*a==b", "slice parameter collected into a set; sets compared with =="),
    ("prqlc:sql/pq/preprocess.rs", "vecs_contain_same_elements", "b.iter("): (N, r"fn:let b:HashSet<&T,RandomState>=b\.iter\(\)\.collect\(\);a==b", "slice parameter collected into a set"),
    ("prqlc:sql/pq/preprocess.rs", "except", "from_iter(output)"): (N, r"fn:let output=ctx\.anchor\.determine_select_columns\(&pipeline\);let output:HashSet<CId,RandomState>=HashSet::from_iter\(output\);", "argument is the Vec; the set is only asked `contains`"),
    ("prqlc:sql/pq/preprocess.rs", "intersect", "from_iter(output)"): (N, r"fn:let output=ctx\.anchor\.determine_select_columns\(&pipeline\);let output:HashSet<CId,RandomState>=HashSet::from_iter\(output\);", "argument is the Vec"),
}

# debug/log.rs shapes the log state machine of Model/Order.lean rests on
LOG_SHAPES = {
    "logStartAssertsUnderWriteLock": r"pub fn log_start\(\)\{let mut lock=CURRENT_LOG\.write\(\)\.unwrap\(\);assert!\(lock\.is_none\(\)\);",
    "logUnsuppressSubtractsUnderWriteLock": r"impl Drop for LogSuppressLock\{fn drop\(&mut self\)\{let mut lock=CURRENT_LOG\.write\(\)\.unwrap\(\);if let Some\(log\)=lock\.as_mut\(\)\{log\.suppress_count-=1;\}\}\}",
}
LOG_REQUIRED = [
    r"static CURRENT_LOG:RwLock<Option<DebugLog>>=RwLock::new\(None\);",
    r"pub fn log_finish\(\)->Option<DebugLog>\{let mut lock=CURRENT_LOG\.write\(\)\.unwrap\(\);lock\.take\(\)\}",
    r"pub fn log_entry\(entry:impl FnOnce\(\)->DebugEntryKind\)\{let mut lock:[^=]*=CURRENT_LOG\.write\(\)\.unwrap\(\);if let Some\(log\)=lock\.as_mut\(\)\{if log\.suppress_count>0\{return;\}log\.entries\.push\(DebugEntry\{kind:entry\(\)\}\);\}\}",
    r"pub fn log_stage\(stage:Stage\)\{log_entry\(\|\|DebugEntryKind::NewStage\(stage\)\);\}",
    r"fn new\(\)->Option<Self>\{let mut lock=CURRENT_LOG\.write\(\)\.unwrap\(\);if let Some\(log\)=lock\.as_mut\(\)\{log\.suppress_count\+=1;Some\(LogSuppressLock\(PhantomData\)\)\}else\{None\}\}",
    r"pub fn log_is_enabled\(\)->bool\{let lock:[^=]*=CURRENT_LOG\.read\(\)\.unwrap\(\);if let Some\(log\)=lock\.as_ref\(\)\{log\.suppress_count==0\}else\{false\}\}",
]
# the log is the only `static` with interior mutability besides OnceLock caches: any other one is a new channel between calls
STATIC_ALLOWED = r"^(CURRENT_LOG:RwLock<Option<DebugLog>>|[A-Z_]+:OnceLock<[^;]*>|[A-Z_]+:&(?:'static )?(?:str|\[[^\]]*\])|[A-Z_]+:(?:usize|u8|u16|u32|u64|i32|i64|bool|char))$"

THEOREMS_OF_CLASS = {"sorted": ["sort_perm", "reduce_order_indep"]}


def norm_all(t):
    return norm(t)


@gen.register("HashSites")
def gen_hashsites():
    sites, fields, hash_fns = scan()
    texts = {}

    def file_norm(tag):
        if tag not in texts:
            rel = tag.replace("prqlc:", "prqlc/prqlc/src/").replace("parser:", "prqlc/prqlc-parser/src/")
            texts[tag] = norm(cut_test_modules(blank_comments_and_strings(gen.src(rel))))
        return texts[tag]

    def fn_norm(site):
        rel = site["file"].replace("prqlc:", "prqlc/prqlc/src/").replace("parser:", "prqlc/prqlc-parser/src/")
        t = cut_test_modules(blank_comments_and_strings(gen.src(rel)))
        pos = sum(len(l) + 1 for l in t.split("\n")[:site["line"] - 1])
        fn = enclosing(functions(t), pos)
        return norm(t[fn[0]:fn[1]]) if fn else ""

    seen, rows, problems = set(), [], []
    for s in sites:
        k = (s["file"], s["fn"], s["key"])
        seen.add(k)
        if k not in CLASSES:
            problems.append(f"UNCLASSIFIED hash enumeration {s['file']} fn {s['fn']}: `{s['key']}`   ({s['window'][:160]})")
            continue
        cls, ev, note = CLASSES[k]
        if ev.startswith("fn:"):
            hay, rx = fn_norm(s), ev[3:]
        elif ev.startswith("@"):
            tag, rx = ev[1:].split(":", 2)[0] + ":" + ev[1:].split(":", 2)[1], ev[1:].split(":", 2)[2]
            hay = file_norm(tag)
        else:
            hay, rx = s["window"], ev
        if not re.search(rx, hay, re.S):
            problems.append(f"evidence for class `{cls}` no longer matches at {s['file']} fn {s['fn']}: `{s['key']}`  (expected /{rx[:120]}/)")
        rows.append(dict(file=s["file"], fn=s["fn"], key=s["key"], cls=cls, note=note, line=s["line"]))
    for k in CLASSES:
        if k not in seen:
            problems.append(f"classified site disappeared (update the table): {k[0]} fn {k[1]}: `{k[2]}`")
    # debug/log.rs
    logt = norm(cut_test_modules(blank_comments_and_strings(gen.src("prqlc/prqlc/src/debug/log.rs"))))
    flags = {}
    for name, rx in LOG_SHAPES.items():
        flags[name] = bool(re.search(rx, logt))
        if not flags[name]:
            problems.append(f"debug/log.rs: shape `{name}` not found (the log state machine of Model/Order.lean must be re-read against the source)")
    for rx in LOG_REQUIRED:
        if not re.search(rx, logt):
            problems.append(f"debug/log.rs: expected shape not found: /{rx[:100]}/")
    # statics
    statics = []
    for f in files():
        t = cut_test_modules(blank_comments_and_strings(gen.src(f)))
        for m in re.finditer(r"\bstatic\s+(?:mut\s+)?([A-Z_][A-Z0-9_]*\s*:[^=;]+?)\s*(?:=|;)", t):
            d = norm(m.group(1))
            statics.append(f.split("/src/")[-1] + ": " + d)
            if not re.match(STATIC_ALLOWED, d):
                problems.append(f"{f}: new mutable/global static `{d}` (a channel between calls that the model does not know)")
        if re.search(r"\bthread_local!|\blazy_static!|\bstatic\s+mut\b", t):
            problems.append(f"{f}: thread_local!/lazy_static!/static mut (a channel between calls that the model does not know)")
    if problems:
        raise ShapeError("; ".join(problems[:8]) + (f" … (+{len(problems) - 8} more)" if len(problems) > 8 else ""))
    counts = {}
    for r in rows:
        c = r["cls"].split(":")[0]
        counts[c] = counts.get(c, 0) + 1
    theorems = sorted({r["cls"][4:] for r in rows if r["cls"].startswith("thm:")})
    leaks = sorted({r["cls"][5:] for r in rows if r["cls"].startswith("leak:")})
    L = ["-- GENERATED by tools/gen_hashsites.py from the hash-container enumerations of prqlc / prqlc-parser and debug/log.rs; do not edit",
         "namespace Gen.HashSites", "",
         "/-- `log_start` asserts `lock.is_none()` while holding the write guard of CURRENT_LOG -/",
         f"def logStartAssertsUnderWriteLock : Bool := {'true' if flags['logStartAssertsUnderWriteLock'] else 'false'}",
         "/-- the Drop of a LogSuppressLock does `suppress_count -= 1` while holding the write guard -/",
         f"def logUnsuppressSubtractsUnderWriteLock : Bool := {'true' if flags['logUnsuppressSubtractsUnderWriteLock'] else 'false'}", "",
         "structure Site where", "  file : String", "  fn : String", "  key : String", "  cls : String", "  deriving Repr", "",
         "def sites : List Site := ["]
    L += [f"  ⟨{gen.lean_str(r['file'])}, {gen.lean_str(r['fn'])}, {gen.lean_str(r['key'])}, {gen.lean_str(r['cls'])}⟩" + ("," if i + 1 < len(rows) else "")
          for i, r in enumerate(rows)]
    L += ["]", "", "/-- theorems of Props/C11.lean that order-independent sites rest on -/",
          "def theoremsUsed : List String := [" + ", ".join(gen.lean_str(t) for t in theorems + THEOREMS_OF_CLASS["sorted"]) + "]",
          "/-- known findings: sites whose result depends on the enumeration order -/",
          "def leaks : List String := [" + ", ".join(gen.lean_str(t) for t in leaks) + "]", "", "end Gen.HashSites", ""]
    summary = {"sites": len(rows), "per_class": counts, "theorems": theorems + THEOREMS_OF_CLASS["sorted"], "leaks": leaks,
               "hash_fields": sorted(fields), "fns_returning_hash": sorted(hash_fns), "statics": statics,
               "inventory": [f"{r['file']}|{r['fn']}|{r['key']}|{r['cls']}" for r in rows]}
    # the inventory as JSON next to the Lean table (same content, for readers and for other tools)
    os.makedirs(gen.GEN_DIR, exist_ok=True)
    inv = {"generated_by": "tools/gen_hashsites.py", "per_class": counts, "log_shapes": flags, "statics": statics,
           "sites": [{k: r[k] for k in ("file", "fn", "key", "cls", "note")} for r in rows]}
    text = json.dumps(inv, indent=1, ensure_ascii=False) + "\n"
    jp = os.path.join(gen.GEN_DIR, "HashSites.json")
    if not os.path.exists(jp) or open(jp, encoding="utf-8").read() != text:
        with open(jp, "w", encoding="utf-8") as f:
            f.write(text)
    return "\n".join(L), summary


if __name__ == "__main__":
    import sys
    sites, fields, hash_fns = scan()
    print("fields:", sorted(fields))
    print("hash fns:", sorted(hash_fns))
    for s in sites:
        print(f'{s["file"]}|{s["fn"]}|{s["key"]}   [{s["why"]} L{s["line"]}]')
        if "-v" in sys.argv:
            print("      ", s["window"][:300])
    print(len(sites))
