"""Gen/HashSites.lean + evidence inventory  <-  every iteration over a HashMap / HashSet in the compiler.

C11 (compilation is a pure function of sources and options) can only fail through the hash seed where the
code ENUMERATES a hash container (lookups, inserts, len, contains are seed independent).  This translator

  1. finds every binding whose type annotation / constructor mentions HashMap or HashSet (struct fields,
     fn parameters, locals, fns returning a hash container and the locals bound to their results),
  2. lists every enumeration of such a binding (`.iter() .values() .keys() .into_iter() .drain() .retain()
     .into_values() .into_keys() .iter_mut() .values_mut()`, `for .. in x`, `extend(x)`, `from_iter(x)`,
     `#[derive(Serialize)]`/`Debug` of a hash field) - by NAME, so it over-approximates,
  3. requires every site to be in the table CLASSES below, keyed by (file, function, normalised snippet)
     - never by line number - and checks the syntactic EVIDENCE the classification rests on
     (e.g. that `.sorted` still follows).  A site that is not in the table, a table row without a site,
     or evidence that no longer matches raises ShapeError: the tie is broken and C11 fails.

Classes
  sorted      sorted-before-use: the enumeration is sorted / collected into another hash container or BTree /
              reduced by a commutative-associative-idempotent operation (min, max, any, all, sum, set union,
              membership) before anything order-sensitive sees it           -> Props.C11.sort_perm & co.
  thm:<name>  order-independent by the theorem <name> of Props/C11.lean (the site's model is the theorem's subject)
  leak:<id>   the result DOES depend on the enumeration order; <id> is a known finding; Props/C11.lean has the
              `<..>_order_dependent_counterexample`
  nothash     the name is shared with a hash binding but this binding is a Vec / slice / ordered map / iterator
              (false positive of the by-name over-approximation); evidence = the declaration that shows it
  debug       only reachable through prqlc::debug (log rendering) or Debug formatting that no compile output reads
"""
import os, re, json
import gen
from gen import ShapeError, REPO

SCOPE_DIRS = ["prqlc/prqlc/src/semantic", "prqlc/prqlc/src/sql", "prqlc/prqlc/src/codegen", "prqlc/prqlc/src/utils",
              "prqlc/prqlc/src/debug", "prqlc/prqlc/src/ir", "prqlc/prqlc-parser/src"]
SCOPE_FILES = ["prqlc/prqlc/src/parser.rs", "prqlc/prqlc/src/lib.rs", "prqlc/prqlc/src/error_message.rs",
               "prqlc/prqlc/src/json.rs", "prqlc/prqlc/src/cli/mod.rs"]
ITER_METHODS = ["iter", "iter_mut", "values", "values_mut", "keys", "into_iter", "into_values", "into_keys", "drain", "retain",
                "extract_if", "union", "intersection", "difference", "symmetric_difference", "into_par_iter", "par_iter",
                "sorted", "sorted_by", "sorted_by_key", "collect", "collect_vec"]
HASH_RE = r"\b(?:Hash(?:Map|Set)|Excluded|JsonFormat1Row)\b"     # the two type aliases of hash containers in scope are checked below


def files():
    out = []
    for d in SCOPE_DIRS:
        for root, _, fs in os.walk(os.path.join(REPO, d)):
            for f in fs:
                if f.endswith(".rs"):
                    out.append(os.path.relpath(os.path.join(root, f), REPO))
    for f in SCOPE_FILES:
        if os.path.exists(os.path.join(REPO, f)):
            out.append(f)
    return sorted(set(out))


def blank_comments_and_strings(t):
    """same length text with comments and string/char literal CONTENTS replaced by spaces (so brace matching and
    regexes see code only)"""
    out = list(t)
    i, n = 0, len(t)
    while i < n:
        c = t[i]
        if t.startswith("//", i):
            j = t.find("\n", i)
            j = n if j < 0 else j
            for k in range(i, j):
                out[k] = " "
            i = j
        elif t.startswith("/*", i):
            j = t.find("*/", i + 2)
            j = n if j < 0 else j + 2
            for k in range(i, j):
                if out[k] != "\n":
                    out[k] = " "
            i = j
        elif c == '"' or (c == "r" and re.match(r'r#*"', t[i:i + 6]) and not (i and (t[i - 1].isalnum() or t[i - 1] == "_"))):
            if c == "r":
                m = re.match(r'r(#*)"', t[i:])
                close = '"' + m.group(1)
                s = i + m.end()
                j = t.find(close, s)
                j = n if j < 0 else j
                for k in range(s, j):
                    if out[k] != "\n":
                        out[k] = " "
                i = j + len(close)
            else:
                j = i + 1
                while j < n and t[j] != '"':
                    j += 2 if t[j] == "\\" else 1
                for k in range(i + 1, min(j, n)):
                    if out[k] != "\n":
                        out[k] = " "
                i = j + 1
        elif c == "'":
            m = re.match(r"'(\\.[^']*|[^\\'])'", t[i:i + 12])
            if m:
                for k in range(i + 1, i + m.end() - 1):
                    out[k] = " "
                i += m.end()
            else:
                i += 1      # lifetime
        else:
            i += 1
    return "".join(out)


def match_brace(t, i):
    depth = 0
    for j in range(i, len(t)):
        if t[j] == "{":
            depth += 1
        elif t[j] == "}":
            depth -= 1
            if depth == 0:
                return j + 1
    raise ShapeError("unbalanced braces")


def cut_test_modules(t):
    """blank `#[cfg(test)] mod x { .. }` (same length)"""
    for m in list(re.finditer(r"#\[cfg\(test\)\]\s*(?:pub(?:\([a-z]+\))?\s+)?mod\s+\w+\s*\{", t)):
        e = match_brace(t, m.end() - 1)
        t = t[:m.start()] + re.sub(r"[^\n]", " ", t[m.start():e]) + t[e:]
    return t


def functions(t):
    """[(start, end, qualified name, header_start)] of every fn with a body; name = ImplType::fn when inside an impl"""
    impls = []
    for m in re.finditer(r"\bimpl\b(?:<[^{;]*?>)?\s+([^{;]+?)\s*\{", t):
        head = re.sub(r"\s+", " ", m.group(1))
        ty = head.split(" for ")[-1]
        ty = re.sub(r"\bwhere\b.*", "", ty).strip()
        ty = re.sub(r"<.*", "", ty).strip().split("::")[-1]
        impls.append((m.end() - 1, match_brace(t, m.end() - 1), ty))
    res = []
    for m in re.finditer(r"\bfn\s+([A-Za-z_][A-Za-z0-9_]*)", t):
        # body = first `{` at paren/angle depth 0 before a `;`
        j, depth = m.end(), 0
        while j < len(t):
            c = t[j]
            if c in "([":
                depth += 1
            elif c in ")]":
                depth -= 1
            elif c == ";" and depth == 0:
                j = -1
                break
            elif c == "{" and depth == 0:
                break
            j += 1
        if j < 0 or j >= len(t):
            continue
        e = match_brace(t, j)
        owner = [ty for (s, en, ty) in impls if s < m.start() < en]
        name = (owner[-1] + "::" if owner else "") + m.group(1)
        res.append((j, e, name, m.start()))
    return res


def enclosing(funcs, pos):
    best = None
    for (s, e, name, h) in funcs:
        if h <= pos < e and (best is None or s > best[0]):
            best = (s, e, name, h)
    return best


def norm(s):
    s = re.sub(r"\s+", " ", s).strip()
    return re.sub(r"\s*([().,:;&{}\[\]<>|=!?])\s*", r"\1", s)


def statement_window(t, start, limit=700):
    """text from `start` to the end of the enclosing statement (`;` or an unmatched closing bracket), capped"""
    depth, j = 0, start
    while j < len(t) and j - start < limit:
        c = t[j]
        if c in "({[":
            depth += 1
        elif c in ")}]":
            depth -= 1
            if depth < 0:
                break
        elif c == ";" and depth == 0:
            break
        j += 1
    return t[start:j]


def scan():
    """-> (sites, hash_fields, per file hash locals)"""
    texts = {}
    for f in files():
        raw = open(os.path.join(REPO, f), encoding="utf-8").read()
        texts[f] = cut_test_modules(blank_comments_and_strings(raw))
    # type aliases of hash containers: only the ones named in HASH_RE may exist
    for f, t in texts.items():
        for m in re.finditer(r"\btype\s+(\w+)(?:<[^=]*>)?\s*=\s*[^;]*\bHash(?:Map|Set)\b", t):
            if not re.fullmatch(HASH_RE[2:-2].replace("(?:", "(").replace("\\b", ""), m.group(1)) and m.group(1) not in ("Excluded", "JsonFormat1Row"):
                raise ShapeError(f"{f}: new type alias of a hash container `{m.group(1)}` (add it to HASH_RE)")
    # 1a. global: struct / enum-variant fields (inside struct / enum bodies only) and fns returning hash containers
    fields, hash_fns = {}, {}
    for f, t in texts.items():
        for m in re.finditer(r"\b(?:struct|enum)\s+\w+(?:<[^{;]*?>)?\s*(?:where[^{;]*)?\{", t):
            body = t[m.end():match_brace(t, m.end() - 1)]
            for fm in re.finditer(r"\b([a-z_][a-z0-9_]*)\s*:\s*[^,;{}]*?" + HASH_RE, body):
                fields.setdefault(fm.group(1), set()).add(f)
        for m in re.finditer(r"\bfn\s+([A-Za-z_][A-Za-z0-9_]*)\s*(?:<[^>]*>)?\s*\(([^{;]*?)\)\s*->\s*([^{;]*?)\s*(?:where[^{;]*)?[{;]", t, re.S):
            if re.search(HASH_RE, m.group(3)):
                hash_fns.setdefault(m.group(1), set()).add(f)
    # tuple-variant payloads like `Input(HashMap<..>)`
    tuple_variants = set()
    for f, t in texts.items():
        for m in re.finditer(r"\b([A-Z][A-Za-z0-9]*)\s*\(\s*" + HASH_RE, t):
            tuple_variants.add(m.group(1))
    FIELD_ALT = "|".join(sorted(map(re.escape, fields)))
    FN_ALT = "|".join(sorted(map(re.escape, hash_fns)))
    WRAP = r"(?:\s*\??\s*\.\s*(?:clone|as_ref|as_mut|unwrap|borrow|borrow_mut|to_owned|expect|unwrap_or_default)\([^()]*\))*"
    sites = []
    for f, t in texts.items():
        funcs = functions(t)
        # 1b. per function: parameters and locals
        local = {}      # fn span -> set(names)
        for (s, e, name, h) in funcs:
            names = set()
            header = t[h:s]
            for m in re.finditer(r"\b([a-z_][a-z0-9_]*)\s*:\s*([^,()]*(?:\([^()]*\))?[^,()]*)", header):
                if re.search(HASH_RE, m.group(2)):
                    names.add(m.group(1))
            body = t[s:e]
            for m in re.finditer(r"\b(?:let|if\s+let|while\s+let)\s+(?:Some\(|Ok\()?\s*(?:mut\s+)?(\(?[a-z_][a-z0-9_, ]*\)?)\)?\s*(?::\s*([^=;]+?))?\s*=\s*", body):
                ann = m.group(2) or ""
                init = norm(statement_window(body, m.end(), 1500))
                ishash = bool(re.search(HASH_RE, ann))
                if not ishash and not ann:
                    # constructor / collect::<Hash..> / call of a fn returning a hash container / a hash field moved or borrowed out
                    if re.search(HASH_RE, init):
                        ishash = True
                    elif re.search(r"\b(" + FN_ALT + r")\(", init) and not re.search(r"\.(len|is_empty|contains\w*|get|iter|into_iter)\(", init):
                        ishash = True
                    elif re.search(r"\.(" + FIELD_ALT + r")(\.clone\(\)|\.as_ref\(\))?\)*$", init) or re.search(r"(take|replace)\(&mut [\w.]*\b(" + FIELD_ALT + r")\b", init):
                        ishash = True
                if ishash:
                    for nm in re.findall(r"[a-z_][a-z0-9_]*", m.group(1)):
                        if nm != "mut":
                            names.add(nm)
            for v in tuple_variants:
                for m in re.finditer(r"\b" + v + r"\(\s*(?:ref\s+|mut\s+)*([a-z_][a-z0-9_]*)\s*\)", body):
                    names.add(m.group(1))
            local[(s, e)] = names
        # 2. enumeration sites: every identifier occurrence followed by an enumerating use
        meth = "|".join(ITER_METHODS)
        cand = []
        for m in re.finditer(r"(\.\s*)?\b([a-z_][a-z0-9_]*)\b(\s*\([^()]*\))?" + WRAP + r"\s*\??\s*\.\s*(" + meth + r")\s*(?:::<[^>]*>)?\s*\(", t):
            cand.append((m.start(2), m.group(2), bool(m.group(1)), "." + m.group(4) + "(", m.group(0).lstrip(". \n"), bool(m.group(3))))
        for m in re.finditer(r"\bfor\s+([^;{}]+?)\s+in\s+([^{;]+?)\s*\{", t):
            expr = m.group(2)
            mm = re.fullmatch(r"[&\s]*(?:mut\s+)?\(?((?:[A-Za-z_][A-Za-z0-9_]*(?:\[[^\]]*\])?\s*\.\s*)*)([a-z_][a-z0-9_]*)((?:\([^()]*\))?)" + WRAP + r"\)?", expr.strip())
            if mm:
                cand.append((m.start(), mm.group(2), bool(mm.group(1)), "for-in", m.group(0)[:-1], bool(mm.group(3))))
        for m in re.finditer(r"\b(extend|from_iter|zip|chain|Vec::from|Vec::from_iter|interleave|join|izip!|concat)\s*\(\s*[&\s]*(?:mut\s+)?((?:[A-Za-z_][A-Za-z0-9_]*\s*\.\s*)*)([a-z_][a-z0-9_]*)((?:\([^()]*\))?)" + WRAP + r"\s*\)", t):
            cand.append((m.start(), m.group(3), bool(m.group(2)), m.group(1) + "(..)", m.group(0), bool(m.group(4))))
        for (pos, nm, dotted, how, st, is_call) in cand:
            fn = enclosing(funcs, pos)
            if fn is None:
                continue
            why = None
            if is_call:
                if nm in hash_fns:
                    why = "fn-returning-hash"
            elif dotted and nm in fields:
                why = "field"
            elif not dotted and nm in local.get((fn[0], fn[1]), set()):
                why = "local"
            elif not dotted and nm in fields and re.search(r"\b" + nm + r"\b", t[fn[3]:pos]):
                why = "bare-field-name"      # `Struct { names, .. }` / `All { except, .. }` patterns, closure parameters, shadowing locals
            if why is None:
                continue
            win = statement_window(t, pos)
            sites.append(dict(file=f.replace("prqlc/prqlc/src/", "prqlc:").replace("prqlc/prqlc-parser/src/", "parser:"),
                              fn=fn[2], how=how, name=nm, why=why, key=norm(st)[:120], window=norm(win)[:600],
                              line=t.count("\n", 0, pos) + 1))
    # serde / Debug derives over hash fields (serialisation enumerates the map)
    for f, t in texts.items():
        for m in re.finditer(r"#\[derive\(([^)]*)\)\]\s*(?:#\[[^\]]*\]\s*)*pub\s+(?:struct|enum)\s+(\w+)[^{;]*\{", t):
            e = match_brace(t, m.end() - 1)
            body = t[m.end():e]
            hf = re.findall(r"\b([a-z_][a-z0-9_]*)\s*:\s*[^,;{}()]*?" + HASH_RE, body)
            if hf and "Serialize" in m.group(1):
                sites.append(dict(file=f.replace("prqlc/prqlc/src/", "prqlc:").replace("prqlc/prqlc-parser/src/", "parser:"),
                                  fn="derive(Serialize)", how="serde", name=",".join(hf), why="field", key=f"{m.group(2)}{{{','.join(hf)}}}",
                                  window=norm(m.group(1)), line=t.count("\n", 0, m.start()) + 1))
    # dedupe identical keys inside one function by ordinal
    seen = {}
    for s in sorted(sites, key=lambda s: (s["file"], s["line"])):
        k = (s["file"], s["fn"], s["key"])
        seen[k] = seen.get(k, 0) + 1
        if seen[k] > 1:
            s["key"] += f" #{seen[k]}"
    sites.sort(key=lambda s: (s["file"], s["line"]))
    return sites, fields, hash_fns


if __name__ == "__main__":
    import sys
    sites, fields, hash_fns = scan()
    print("fields:", sorted(fields))
    print("hash fns:", sorted(hash_fns))
    for s in sites:
        print(f'{s["file"]}|{s["fn"]}|{s["key"]}   [{s["why"]} L{s["line"]}]')
        if "-v" in sys.argv:
            print("      ", s["window"][:300])
    print(len(sites))
