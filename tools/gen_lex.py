"""Translators for the lexer tables.
  Gen/Lex.lean     <- prqlc/prqlc-parser/src/lexer/mod.rs  (+ chumsky's `is_inline_whitespace` for `char`)
  Gen/Unicode.lean <- code-point ranges of char::is_alphabetic / is_alphanumeric, dumped from the toolchain's std by `vh`
Only *tables* are extracted (lists, character sets, limits, the order of the alternatives). The algorithms around them
are mirrored by hand in Model/Lex.lean and tied by the exhaustive correspondence of C17."""
import glob, json, os, re, subprocess
import gen
from gen import ShapeError, lean_chars

LEXER = "prqlc/prqlc-parser/src/lexer/mod.rs"
HERE = os.path.dirname(os.path.abspath(__file__))
HARNESS = os.path.join(HERE, "..", "harness")
VH = os.path.join(HARNESS, "target", "debug", "vh")


def nows(s):
    return re.sub(r"\s+", "", s)


def rust_unescape(s):
    """contents of a Rust char/str literal -> python str (only the escapes that occur in the lexer)"""
    out, i = [], 0
    while i < len(s):
        c = s[i]
        if c != "\\":
            out.append(c); i += 1; continue
        n = s[i + 1]
        if n == "x":
            out.append(chr(int(s[i + 2:i + 4], 16))); i += 4; continue
        m = {"n": "\n", "r": "\r", "t": "\t", "\\": "\\", "'": "'", '"': '"', "0": "\0"}
        if n not in m:
            raise ShapeError(f"unknown escape in literal: {s!r}")
        out.append(m[n]); i += 2
    return "".join(out)


def split_top(s):
    """split at top-level commas (parentheses / brackets / braces / string and char literals respected)"""
    parts, depth, cur, i = [], 0, [], 0
    while i < len(s):
        c = s[i]
        if c == '"':
            j = i + 1
            while s[j] != '"':
                j += 2 if s[j] == "\\" else 1
            cur.append(s[i:j + 1]); i = j + 1; continue
        m = re.match(r"'(\\x[0-9a-fA-F]{2}|\\.|[^\\'])'", s[i:])
        if c == "'" and m:
            cur.append(m.group(0)); i += m.end(); continue
        if c in "([{":
            depth += 1
        elif c in ")]}":
            depth -= 1
        if c == "," and depth == 0:
            parts.append("".join(cur)); cur = []
        else:
            cur.append(c)
        i += 1
    if "".join(cur).strip():
        parts.append("".join(cur))
    return [p.strip() for p in parts]


def choice_items(body, what):
    """items of the first `choice(( ... ))` in body"""
    m = re.search(r"choice\(\(", body)
    if not m:
        raise ShapeError(f"{what}: no choice((..))")
    i = m.end() - 1
    j = gen.balanced(body, i, "(", ")")
    tail = body[j:].lstrip()
    if not tail.startswith(")"):
        raise ShapeError(f"{what}: choice(( .. )) not closed")
    return split_top(body[i + 1:j - 1]), tail[1:]


def lit_str(tok, what):
    m = re.fullmatch(r'"((?:[^"\\]|\\.)*)"', tok) or re.fullmatch(r"'((?:\\x[0-9a-fA-F]{2}|\\.|[^\\']))'", tok)
    if not m:
        raise ShapeError(f"{what}: expected a string/char literal, got `{tok}`")
    return rust_unescape(m.group(1))


TOKEN_NAMES = {
    "line_wrap()": "line_wrap", "newline().to(TokenKind::NewLine)": "newline", "multi_char_operators()": "multi_char_operators",
    "interpolation()": "interpolation", "param()": "param", "date_token()": "date_token",
    "just('@').to(TokenKind::Annotate)": "annotate", "literal().map(TokenKind::Literal)": "literal", "keyword()": "keyword",
    "ident_part().map(TokenKind::Ident)": "ident", "comment()": "comment",
}


def chumsky_inline_ws():
    lock = os.path.join(HARNESS, "Cargo.lock")
    text = open(lock).read()
    t = gen.src("prqlc/prqlc-parser/Cargo.toml")
    m = re.search(r"\[target\.'cfg\(not\(target_family\s*=\s*\"wasm\"\)\)'\.dependencies\]\s*chumsky = \{ version = \"([0-9.]+)\"", t)
    if not m:
        raise ShapeError("prqlc-parser/Cargo.toml: non-wasm chumsky dependency not found")
    want = m.group(1)
    vers = re.findall(r'name = "chumsky"\nversion = "([0-9.]+)"', text)
    cands = [v for v in vers if v == want or v.startswith(want.rsplit(".", 1)[0] + ".")]
    if not cands:
        raise ShapeError(f"chumsky {want} not in harness/Cargo.lock ({vers})")
    ver = sorted(cands)[-1]
    home = os.environ.get("CARGO_HOME", os.path.expanduser("~/.cargo"))
    paths = glob.glob(os.path.join(home, "registry", "src", "*", f"chumsky-{ver}", "src", "text.rs"))
    if not paths:
        raise ShapeError(f"chumsky-{ver} source not found under {home}/registry/src")
    s = gen.strip_comments(open(paths[0], encoding="utf-8").read())
    m = re.search(r"impl Char for char \{\s*fn is_inline_whitespace\(&self\) -> bool \{([^}]*)\}", s)
    if not m:
        raise ShapeError("chumsky text.rs: `impl Char for char { fn is_inline_whitespace` not found")
    alts = [a.strip() for a in m.group(1).split("||")]
    chars = []
    for a in alts:
        mm = re.fullmatch(r"\*self == ('(?:\\.|[^\\'])')", a)
        if not mm:
            raise ShapeError(f"chumsky is_inline_whitespace: unrecognised alternative `{a}`")
        chars.append(lit_str(mm.group(1), "inline whitespace"))
    mi = re.search(r"pub fn inline_whitespace<[^{]*\{\s*any\(\)\s*\.filter\(\|c: &I::Token\| c\.is_inline_whitespace\(\)\)", s)
    if not mi:
        raise ShapeError("chumsky text::inline_whitespace is not `any().filter(is_inline_whitespace)…repeated()`")
    md = re.search(r"impl Char for char \{.*?fn is_digit\(&self, radix: u32\) -> bool \{\s*char::is_digit\(\*self, radix\)\s*\}", s, re.S)
    if not md:
        raise ShapeError("chumsky Char::is_digit for char is not char::is_digit")
    return "".join(chars), ver


@gen.register("Lex")
def gen_lex():
    t = gen.strip_comments(gen.src(LEXER))
    S = {}

    # ---- token(): order of the alternatives + control characters
    items, _ = choice_items(gen.fn_body(t, r"fn token<'a>\(\)[^{]*\{"), "token()")
    order, control = [], None
    for it in items:
        n = nows(it).replace(".boxed()", "")
        m = re.fullmatch(r'one_of\(("(?:[^"\\]|\\.)*")\)\.map\(TokenKind::Control\)', n)
        if m:
            control = lit_str(m.group(1), "control chars"); order.append("control"); continue
        if n not in TOKEN_NAMES:
            raise ShapeError(f"token(): unrecognised alternative `{it}`")
        order.append(TOKEN_NAMES[n])
    if control is None:
        raise ShapeError("token(): one_of(..).map(TokenKind::Control) not found")

    # ---- lex_token / lexer / whitespace / newline: fixed shapes the model mirrors (only the parts that are tables)
    wsb = nows(gen.fn_body(t, r"fn whitespace<'a>\(\)[^{]*\{"))
    if wsb != "text::inline_whitespace().at_least(1)":
        raise ShapeError(f"whitespace(): `{wsb}`")
    nlb = nows(gen.fn_body(t, r"fn newline<'a>\(\)[^{]*\{"))
    if nlb != r"just('\n').or(just('\r').then_ignore(just('\n').or_not())).ignored()":
        raise ShapeError(f"newline(): `{nlb}`")
    ltb = nows(gen.fn_body(t, r"fn lex_token<'a>\(\)[^{]*\{"))
    mr = re.search(r'letrange=whitespace\(\)\.or_not\(\)\.then\(just\("((?:[^"\\]|\\.)*)"\)\)\.then\(whitespace\(\)\.or_not\(\)\)', ltb)
    if not mr or not ltb.endswith("choice((range,other_tokens))") or \
            "letother_tokens=whitespace().or_not().ignore_then(token().map_with(" not in ltb:
        raise ShapeError("lex_token(): not `choice((ws? '..' ws?, ws? token))`")
    range_str = rust_unescape(mr.group(1))
    lxb = nows(gen.fn_body(t, r"pub fn lexer<'a>\(\)[^{]*\{"))
    if lxb != "lex_token().repeated().collect().then_ignore(whitespace().or_not())":
        raise ShapeError(f"lexer(): `{lxb}`")
    inline_ws, chumsky_ver = chumsky_inline_ws()

    # ---- multi-char operators
    items, rest = choice_items(gen.fn_body(t, r"fn multi_char_operators<'a>\(\)[^{]*\{"), "multi_char_operators()")
    if nows(rest) != "":
        raise ShapeError("multi_char_operators(): trailing combinators")
    ops = []
    for it in items:
        m = re.fullmatch(r'just\(("(?:[^"\\]|\\.)*")\)(\.then_ignore\(end_expr\(\)\))?\.to\(TokenKind::(\w+)\)', nows(it))
        if not m:
            raise ShapeError(f"multi_char_operators(): unrecognised alternative `{it}`")
        ops.append((lit_str(m.group(1), "operator"), m.group(3), bool(m.group(2))))
    en = gen.src("prqlc/prqlc-parser/src/lexer/lr.rs")
    for _, k, _ in ops:
        if not re.search(rf"^\s*{k},", en, re.M):
            raise ShapeError(f"TokenKind::{k} is not a unit variant of TokenKind")

    # ---- keywords
    items, rest = choice_items(gen.fn_body(t, r"fn keyword<'a>\(\)[^{]*\{"), "keyword()")
    kws = []
    for it in items:
        m = re.fullmatch(r'just\(("(?:[^"\\]|\\.)*")\)', nows(it))
        if not m:
            raise ShapeError(f"keyword(): unrecognised alternative `{it}`")
        kws.append(lit_str(m.group(1), "keyword"))
    if nows(rest) != ".to_slice().then_ignore(end_expr()).map(|s:&str|TokenKind::Keyword(s.to_string()))":
        raise ShapeError(f"keyword(): unexpected tail `{nows(rest)}`")

    # ---- end_expr
    items, rest = choice_items(gen.fn_body(t, r"fn end_expr<'a>\(\)[^{]*\{"), "end_expr()")
    if nows(rest) != ".rewind()":
        raise ShapeError("end_expr(): not rewound")
    end_chars, end_strs, has_end, has_nl = "", [], False, False
    for it in items:
        n = nows(it)
        if n == "end()":
            has_end = True
        elif n == "newline()":
            has_nl = True
        elif re.fullmatch(r'one_of\("(?:[^"\\]|\\.)*"\)\.to\(\(\)\)', n):
            # the literal may contain blanks: take it from the un-normalised item
            end_chars += lit_str(re.search(r'one_of\(("(?:[^"\\]|\\.)*")\)', it).group(1), "end_expr chars")
        elif re.fullmatch(r'just\("(?:[^"\\]|\\.)*"\)\.to\(\(\)\)', n):
            end_strs.append(lit_str(re.search(r'just\(("(?:[^"\\]|\\.)*")\)', it).group(1), "end_expr str"))
        else:
            raise ShapeError(f"end_expr(): unrecognised alternative `{it}`")
    if not (has_end and has_nl):
        raise ShapeError("end_expr(): end() / newline() alternative missing (the model assumes both)")

    # ---- escapes
    eb = gen.fn_body(t, r"fn parse_escape_sequence<'a>\(")
    simple = []
    for m in re.finditer(r"^\s*('(?:\\.|[^\\'])') => ('(?:\\x[0-9A-Fa-f]{2}|\\.|[^\\'])'),", eb, re.M):
        simple.append((lit_str(m.group(1), "escape"), lit_str(m.group(2), "escape value")))
    nb = nows(eb)
    mu = re.search(r"'u'ifinput\.peek\(\)==Some\('\{'\)=>\{input\.next\(\);letmuthex=String::new\(\);whileletSome\(ch\)=input\.peek\(\)\{ifch=='\}'\{input\.next\(\);break;\}ifch\.is_ascii_hexdigit\(\)&&hex\.len\(\)<(\d+)\{hex\.push\(ch\);input\.next\(\);\}else\{break;\}\}char::from_u32\(u32::from_str_radix\(&hex,16\)\.unwrap_or\(0\)\)\.unwrap_or\('\\u\{FFFD\}'\)\}", nb)
    if not mu:
        raise ShapeError("parse_escape_sequence: \\u{..} arm not in the modelled shape")
    mx = re.search(r"'x'=>\{letmuthex=String::new\(\);for_in0\.\.(\d+)\{ifletSome\(ch\)=input\.peek\(\)\{ifch\.is_ascii_hexdigit\(\)\{hex\.push\(ch\);input\.next\(\);\}\}\}ifhex\.len\(\)==(\d+)\{char::from_u32\(u32::from_str_radix\(&hex,16\)\.unwrap_or\(0\)\)\.unwrap_or\('\\u\{FFFD\}'\)\}else\{next_ch\}\}", nb)
    if not mx or mx.group(1) != mx.group(2):
        raise ShapeError("parse_escape_sequence: \\xHH arm not in the modelled shape")
    if "cifc==quote_char=>quote_char,other=>other," not in nb or not nb.endswith("None=>{'\\\\'}}"):
        raise ShapeError("parse_escape_sequence: fallback arms not in the modelled shape")
    pos = [nb.find(k) for k in ("'t'=>", "'u'ifinput.peek()", "'x'=>{", "cifc==quote_char=>")]
    if -1 in pos or pos != sorted(pos):
        raise ShapeError("parse_escape_sequence: arm order is not simple escapes, \\u, \\x, quote, other")
    if [s for s, _ in simple] != ["\\", "/", "b", "f", "n", "r", "t"]:
        raise ShapeError(f"parse_escape_sequence: simple escapes {simple}")

    # ---- numbers
    pb = nows(gen.fn_body(t, r"fn parse_number_with_base<'a>\("))
    if pb != ('just(prefix).then_ignore(just("_").or_not()).ignore_then(any().filter(valid_digit).repeated().at_least(1)'
              '.at_most(max_digits).to_slice().map(move|digits:&str|{i64::from_str_radix(digits,base).map(Literal::Integer)'
              '.unwrap_or(Literal::Integer(0))}),)'):
        raise ShapeError("parse_number_with_base: not in the modelled shape")
    radix = {}
    for fn, pred, nm in [("binary_number", "|c|*c=='0'||*c=='1'", "bin"), ("hexadecimal_number", "|c|c.is_ascii_hexdigit()", "hex"),
                         ("octal_number", "|c|('0'..='7').contains(c)", "oct")]:
        b = nows(gen.fn_body(t, rf"fn {fn}<'a>\(\)[^{{]*\{{"))
        m = re.fullmatch(r'parse_number_with_base\("(\w+)",(\d+),(\d+),(.*)\)', b)
        if not m or m.group(4) != pred:
            raise ShapeError(f"{fn}(): `{b}`")
        radix[nm] = (m.group(1), int(m.group(2)), int(m.group(3)))
    if (radix["bin"][1], radix["hex"][1], radix["oct"][1]) != (2, 16, 8):
        raise ShapeError(f"radix literals: bases {radix}")
    for nm, (_, base, maxd) in radix.items():
        if base ** maxd > 2 ** 63:
            raise ShapeError(f"{nm}: {maxd} digits can overflow i64 (the model assumes the fallback is unreachable)")

    # ---- literal(): order
    items, rest = choice_items(gen.fn_body(t, r"pub fn literal<'a>\(\)[^{]*\{"), "literal()")
    lit_order = []
    for it in items:
        m = re.fullmatch(r"(\w+)\(\)", nows(it))
        if not m:
            raise ShapeError(f"literal(): unrecognised alternative `{it}`")
        lit_order.append(m.group(1))

    # ---- boolean / null
    bb = nows(gen.fn_body(t, r"fn boolean<'a>\(\)[^{]*\{"))
    m = re.fullmatch(r'choice\(\(just\("(\w+)"\)\.to\(true\),just\("(\w+)"\)\.to\(false\)\)\)\.then_ignore\(end_expr\(\)\)\.map\(Literal::Boolean\)', bb)
    if not m:
        raise ShapeError(f"boolean(): `{bb}`")
    bools = [(m.group(1), True), (m.group(2), False)]
    nb2 = nows(gen.fn_body(t, r"fn null<'a>\(\)[^{]*\{"))
    m = re.fullmatch(r'just\("(\w+)"\)\.to\(Literal::Null\)\.then_ignore\(end_expr\(\)\)', nb2)
    if not m:
        raise ShapeError(f"null(): `{nb2}`")
    null_lit = m.group(1)

    # ---- value_and_unit
    vb = gen.fn_body(t, r"fn value_and_unit<'a>\(\)[^{]*\{")
    items, rest = choice_items(vb, "value_and_unit()")
    units = []
    for it in items:
        m = re.fullmatch(r'just\(("(?:[^"\\]|\\.)*")\)', nows(it))
        if not m:
            raise ShapeError(f"value_and_unit(): unrecognised unit `{it}`")
        units.append(lit_str(m.group(1), "unit"))
    if "parse_integer().then(unit).then_ignore(end_expr()).map(" not in nows(rest) or \
            "number_str.replace('_',\"\").parse::<i64>().unwrap_or(1)" not in nows(rest):
        raise ShapeError("value_and_unit(): not `parse_integer unit end_expr`, n = parse or 1")

    # ---- interpolation, comment, raw string, ident, param predicates
    ib = nows(gen.fn_body(t, r"fn interpolation<'a>\(\)[^{]*\{"))
    m = re.fullmatch(r'one_of\("(\w+)"\)\.then\(quoted_string\(true\)\)\.map\(\|\(c,s\)\|TokenKind::Interpolation\(c,s\)\)', ib)
    if not m:
        raise ShapeError(f"interpolation(): `{ib}`")
    interp = m.group(1)
    cb = nows(gen.fn_body(t, r"fn comment<'a>\(\)[^{]*\{"))
    m = re.search(r'letcomment_text=none_of\("((?:[^"\\]|\\.)*)"\)\.repeated\(\)\.collect::<String>\(\);', cb)
    if not m or not cb.endswith("just('#').ignore_then(just('!').ignore_then(comment_text.map(TokenKind::DocComment))"
                                ".or(comment_text.map(TokenKind::Comment)),)"):
        raise ShapeError("comment(): not in the modelled shape")
    comment_stop = rust_unescape(m.group(1))
    rb = nows(gen.fn_body(t, r"fn raw_string<'a>\(\)[^{]*\{"))
    m = re.match(r'''just\("r"\)\.then\(choice\(\(just\('\\''\),just\('"'\)\)\)\)\.then\(any\(\)\.filter\(move\|c:&char\|(.*?)\)\.repeated\(\)\.to_slice\(\),\)\.then\(choice\(\(just\('\\''\),just\('"'\)\)\)\)\.map\(''', rb)
    if not m:
        raise ShapeError("raw_string(): not in the modelled shape")
    raw_stop = ""
    for a in m.group(1).split("&&"):
        mm = re.fullmatch(r"\*c!=('(?:\\.|[^\\'])')", a)
        if not mm:
            raise ShapeError(f"raw_string(): filter `{a}`")
        raw_stop += lit_str(mm.group(1), "raw string stop")
    idb = nows(gen.fn_body(t, r"pub fn ident_part<'a>\(\)[^{]*\{"))
    if ("letplain=any().filter(|c:&char|c.is_alphabetic()||*c=='_').then(any().filter(|c:&char|c.is_alphanumeric()||*c=='_')"
        ".repeated(),).to_slice().map(|s:&str|s.to_string());" not in idb or
            "letbacktick=none_of('`').repeated().collect::<String>().delimited_by(just('`'),just('`'));choice((plain,backtick))" not in idb):
        raise ShapeError("ident_part(): not in the modelled shape")
    pmb = nows(gen.fn_body(t, r"fn param<'a>\(\)[^{]*\{"))
    if pmb != ("just('$').ignore_then(any().filter(|c:&char|c.is_alphanumeric()||*c=='_'||*c=='.').repeated().to_slice()"
               ".map(|s:&str|s.to_string()),).map(TokenKind::Param)"):
        raise ShapeError("param(): not in the modelled shape")

    # ---- dates
    db = nows(gen.fn_body(t, r"fn date_inner<'a>\(\)[^{]*\{"))
    m = re.match(r"text::digits\(10\)\.exactly\((\d+)\)\.then\(just\('-'\)\)\.then\(text::digits\(10\)\.exactly\((\d+)\)\)\.then\(just\('-'\)\)"
                 r"\.then\(text::digits\(10\)\.exactly\((\d+)\)\)\.to_slice\(\)", db)
    if not m:
        raise ShapeError("date_inner(): not in the modelled shape")
    date_digits = [int(m.group(i)) for i in (1, 2, 3)]
    tb = nows(gen.fn_body(t, r"fn time_inner<'a>\(\)[^{]*\{"))
    m1 = re.search(r"lethours=digits\((\d+)\)\.map", tb)
    m2 = re.search(r"letminutes=time_component\(':',digits\((\d+)\)\);letseconds=time_component\(':',digits\((\d+)\)\);", tb)
    m3 = re.search(r"letmilliseconds=time_component\('\.',any\(\)\.filter\(\|c:&char\|c\.is_ascii_digit\(\)\)\.repeated\(\)\.at_least\((\d+)\)\.at_most\((\d+)\)\.to_slice\(\),\);", tb)
    m4 = re.search(r"lettimezone=choice\(\(just\('Z'\)\.map\(\|c\|c\.to_string\(\)\),one_of\(\"-\+\"\)\.then\(digits\((\d+)\)\.then\(just\(':'\)\.or_not\(\)\.then\(digits\((\d+)\)\)\)\.map\(", tb)
    if not (m1 and m2 and m3 and m4) or not tb.endswith("hours.then(minutes).then(seconds).then(milliseconds).then(timezone).map(|((((hours,mins),secs),ms),tz)|format!(\"{}{}{}{}{}\",hours,mins,secs,ms,tz))"):
        raise ShapeError("time_inner(): not in the modelled shape")
    if m3.group(1) != "1":
        raise ShapeError("time_inner(): milliseconds at_least != 1")
    time_digits = sorted({int(m1.group(1)), int(m2.group(1)), int(m2.group(2)), int(m4.group(1)), int(m4.group(2))})
    if len(time_digits) != 1:
        raise ShapeError(f"time_inner(): component widths differ {time_digits}")
    dgb = nows(gen.fn_body(t, r"fn digits<'a>\(count: usize\)[^{]*\{"))
    if dgb != "chumsky::text::digits(10).exactly(count).to_slice()":
        raise ShapeError("digits(): not `text::digits(10).exactly(count)`")
    dtb = nows(gen.fn_body(t, r"fn date_token<'a>\(\)[^{]*\{"))
    if not (dtb.startswith("just('@').then(any().filter(|c:&char|c.is_ascii_digit()).rewind()).ignore_then(choice((date_inner().then(just('T')).then(time_inner()).then_ignore(end_expr())")
            and "date_inner().then_ignore(end_expr()).map(Literal::Date),time_inner().then_ignore(end_expr()).map(Literal::Time),))" in dtb):
        raise ShapeError("date_token(): not in the modelled shape")

    S = dict(token_order=order, control=control, range=range_str, inline_whitespace=inline_ws, chumsky=chumsky_ver,
             multi_char_ops=[[a, b, c] for a, b, c in ops], keywords=kws, end_expr_chars=end_chars, end_expr_strs=end_strs,
             simple_escapes=[[a, ord(b)] for a, b in simple], unicode_escape_max_hex=int(mu.group(1)), hex_escape_digits=int(mx.group(1)),
             radix=radix, literal_order=lit_order, time_units=units, interpolation=interp, comment_stop=comment_stop,
             raw_string_stop=raw_stop, booleans=[[a, b] for a, b in bools], null=null_lit, date_digits=date_digits, time_digits=time_digits[0], ms_max_digits=int(m3.group(2)))

    def strs(xs):
        return "[" + ", ".join(lean_chars(x) for x in xs) + "]"

    def names(xs):
        return "[" + ", ".join(gen.lean_str(x) for x in xs) + "]"

    kinds = []
    for _, k, _ in ops:
        if k not in kinds:
            kinds.append(k)
    L = [f"-- GENERATED by tools/gen_lex.py from {LEXER} (and chumsky-{chumsky_ver} text.rs); do not edit", "namespace Gen.Lex", ""]
    L.append("/-- the unit token kinds produced by `multi_char_operators` -/")
    L.append("inductive Op where")
    for k in kinds:
        L.append(f"  | {k}")
    L.append("  deriving DecidableEq, Repr")
    L.append("def Op.name : Op → String")
    for k in kinds:
        L.append(f'  | .{k} => "{k}"')
    L.append("")
    L.append("/-- order of the alternatives of `token()` -/")
    L.append(f"def tokenOrder : List String := {names(order)}")
    L.append("/-- order of the alternatives of `literal()` -/")
    L.append(f"def literalOrder : List String := {names(lit_order)}")
    L.append("/-- chumsky `Char::is_inline_whitespace` for `char` -/")
    L.append(f"def inlineWhitespace : List Char := {lean_chars(inline_ws)}")
    L.append(f"def rangeStr : List Char := {lean_chars(range_str)}")
    L.append(f"def controlChars : List Char := {lean_chars(control)}")
    L.append("/-- `multi_char_operators`: (text, kind, followed by `end_expr`) in choice order -/")
    L.append("def multiCharOps : List (List Char × Op × Bool) := [")
    L.append(",\n".join(f"  ({lean_chars(a)}, .{k}, {'true' if g else 'false'})" for a, k, g in ops) + "]")
    L.append(f"def keywords : List (List Char) := {strs(kws)}")
    L.append("/-- `end_expr`: end of input, one of these characters, a newline, or one of these strings (not consumed) -/")
    L.append(f"def endExprChars : List Char := {lean_chars(end_chars)}")
    L.append(f"def endExprStrs : List (List Char) := {strs(end_strs)}")
    L.append("/-- `parse_escape_sequence`: the one-character escapes (`\\u{…}`, `\\xHH`, the quote and the identity fallback are in the model) -/")
    L.append("def simpleEscapes : List (Char × Char) := [" + ", ".join(f"({lean_chars(a)[1:-1]}, Char.ofNat {ord(b)})" for a, b in simple) + "]")
    L.append(f"def unicodeEscapeMaxHex : Nat := {int(mu.group(1))}")
    L.append(f"def hexEscapeDigits : Nat := {int(mx.group(1))}")
    for nm in ("bin", "hex", "oct"):
        L.append(f"def {nm}Prefix : List Char := {lean_chars(radix[nm][0])}")
        L.append(f"def {nm}MaxDigits : Nat := {radix[nm][2]}")
    L.append(f"def timeUnits : List (List Char) := {strs(units)}")
    L.append("def booleanLits : List (List Char × Bool) := [" + ", ".join(f"({lean_chars(a)}, {'true' if b else 'false'})" for a, b in bools) + "]")
    L.append(f"def nullLit : List Char := {lean_chars(null_lit)}")
    L.append(f"def interpolationPrefixes : List Char := {lean_chars(interp)}")
    L.append(f"def commentStop : List Char := {lean_chars(comment_stop)}")
    L.append(f"def rawStringStop : List Char := {lean_chars(raw_stop)}")
    L.append(f"def dateDigits : Nat × Nat × Nat := ({date_digits[0]}, {date_digits[1]}, {date_digits[2]})")
    L.append(f"def timeDigits : Nat := {time_digits[0]}")
    L.append(f"def msMaxDigits : Nat := {int(m3.group(2))}")
    L += ["", "end Gen.Lex", ""]
    return "\n".join(L), S


def ensure_vh():
    """the Unicode table comes from the toolchain's std through `vh`; build it if it is missing or older than its sources"""
    srcs = glob.glob(os.path.join(HARNESS, "src", "*.rs")) + [os.path.join(HARNESS, "Cargo.toml")]
    if os.path.exists(VH) and all(os.path.getmtime(VH) >= os.path.getmtime(s) for s in srcs):
        return
    env = dict(os.environ); env["CARGO_NET_OFFLINE"] = "true"
    p = subprocess.run(["cargo", "build", "--offline"], cwd=HARNESS, env=env, capture_output=True, text=True)
    if p.returncode != 0 or not os.path.exists(VH):
        raise ShapeError("cannot build the harness to dump the Unicode tables: " + p.stderr[-800:])


@gen.register("Unicode")
def gen_unicode():
    ensure_vh()
    p = subprocess.run([VH], input='{"op":"unicode_ranges"}\n', capture_output=True, text=True)
    try:
        d = json.loads(p.stdout.strip().split("\n")[-1])
        alpha, alnum = d["alphabetic"], d["alphanumeric"]
    except Exception as e:
        raise ShapeError(f"vh unicode_ranges failed: {e} {p.stdout[-200:]} {p.stderr[-200:]}")
    for rs in (alpha, alnum):
        if not rs or any(a > b for a, b in rs) or any(rs[i][1] + 1 >= rs[i + 1][0] for i in range(len(rs) - 1)):
            raise ShapeError("unicode ranges are not sorted/disjoint/maximal")

    def split(rs):
        lo, hi = [], []
        for a, b in rs:
            if b < 128:
                lo.append([a, b])
            elif a >= 128:
                hi.append([a, b])
            else:
                lo.append([a, 127]); hi.append([128, b])
        return lo, hi

    def tab(rs):
        rows = [", ".join(f"({a}, {b})" for a, b in rs[i:i + 8]) for i in range(0, len(rs), 8)]
        return "[\n  " + ",\n  ".join(rows) + "]"

    L = [f"-- GENERATED by tools/gen_lex.py from the Rust toolchain's std (Unicode {d.get('unicode_version')}) via `vh` op unicode_ranges; do not edit",
         "namespace Gen.Unicode", "",
         "/-- inclusive code-point ranges of `char::is_alphabetic`, below 128 and from 128 on -/",
         f"def alphabeticAscii : List (Nat × Nat) := {tab(split(alpha)[0])}",
         f"def alphabeticHigh : List (Nat × Nat) := {tab(split(alpha)[1])}", "",
         "/-- inclusive code-point ranges of `char::is_alphanumeric`, below 128 and from 128 on -/",
         f"def alphanumericAscii : List (Nat × Nat) := {tab(split(alnum)[0])}",
         f"def alphanumericHigh : List (Nat × Nat) := {tab(split(alnum)[1])}", "",
         "def inRanges (rs : List (Nat × Nat)) (n : Nat) : Bool := rs.any fun r => r.1 ≤ n && n ≤ r.2",
         "def isAlphabetic (c : Char) : Bool := if c.toNat < 128 then inRanges alphabeticAscii c.toNat else inRanges alphabeticHigh c.toNat",
         "def isAlphanumeric (c : Char) : Bool := if c.toNat < 128 then inRanges alphanumericAscii c.toNat else inRanges alphanumericHigh c.toNat", "",
         "end Gen.Unicode", ""]
    return "\n".join(L), {"unicode_version": d.get("unicode_version"), "alphabetic_ranges": len(alpha), "alphanumeric_ranges": len(alnum),
                          "alphabetic_count": sum(b - a + 1 for a, b in alpha), "alphanumeric_count": sum(b - a + 1 for a, b in alnum)}
