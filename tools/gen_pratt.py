"""Gen/Pratt.lean  <- prqlc-parser/src/parser/expr.rs (Pratt levels, operator token maps, unary / range layering)
                     + parser/pr/ops.rs (BinOp / UnOp variants and their display text)
Gen/Expand.lean <- prqlc/src/semantic/ast_expand.rs (BinOp / UnOp -> std function names, the pow argument swap)."""
import re
import gen
from gen import ShapeError, src, strip_comments, fn_body, lean_chars

EXPR_RS = "prqlc/prqlc-parser/src/parser/expr.rs"
OPS_RS = "prqlc/prqlc-parser/src/parser/pr/ops.rs"
LEXER_RS = "prqlc/prqlc-parser/src/lexer/mod.rs"
EXPAND_RS = "prqlc/prqlc/src/semantic/ast_expand.rs"


def strum_enum(text, name):
    """variants of a `pub enum NAME { #[strum(to_string = "..")] Variant, ... }` -> [(Variant, text)]"""
    m = re.search(r"pub enum " + name + r"\s*\{", text)
    if not m:
        raise ShapeError(f"enum {name} not found in {OPS_RS}")
    i = text.index("{", m.end() - 1)
    body = text[i + 1:gen.balanced(text, i) - 1]
    items = re.findall(r'#\[strum\(to_string = "([^"]*)"\)\]\s*([A-Z][A-Za-z0-9]*)\s*,', body)
    rest = re.sub(r'#\[strum\(to_string = "([^"]*)"\)\]\s*([A-Z][A-Za-z0-9]*)\s*,', "", body).strip()
    if rest or not items:
        raise ShapeError(f"enum {name}: unrecognised variant text {rest[:80]!r}")
    return [(v, t) for (t, v) in items]


def lexer_kinds():
    t = strip_comments(src(LEXER_RS))
    body = fn_body(t, r"fn multi_char_operators<'a>\(\)[^{]*\{")
    return dict((k, s) for (s, k) in re.findall(r'just\("([^"]+)"\)(?:\.then_ignore\(end_expr\(\)\))?\.to\(TokenKind::(\w+)\)', body))


def token_map(t, fname, enum):
    """operator_X(): alternatives `select_ref! { lr::Token { kind: TokenKind::K, .. } => Enum::V }` / `ctrl('c').to(Enum::V)`"""
    body = fn_body(t, r"fn " + fname + r"<'a, I>\(\)[^{]*\{")
    pat_k = re.compile(r"select_ref!\s*\{\s*lr::Token\s*\{\s*kind:\s*TokenKind::(\w+),\s*\.\.\s*\}\s*=>\s*" + enum + r"::(\w+)\s*\}")
    pat_c = re.compile(r"ctrl\('(.)'\)\.to\(" + enum + r"::(\w+)\)")
    found = []
    for m in pat_k.finditer(body):
        found.append((m.start(), m.group(2), ("kind", m.group(1))))
    for m in pat_c.finditer(body):
        found.append((m.start(), m.group(2), ("ctrl", m.group(1))))
    rest = pat_c.sub("", pat_k.sub("", body))
    rest = re.sub(r"\.or|choice|[\s(),]", "", rest)
    if rest or not found:
        raise ShapeError(f"{fname}(): unrecognised combinators {rest[:80]!r}")
    return [(v, spec) for (_, v, spec) in sorted(found)]


def pratt_tables():
    t = strip_comments(src(EXPR_RS))
    ops = strip_comments(src(OPS_RS))
    binops, unops = strum_enum(ops, "BinOp"), strum_enum(ops, "UnOp")
    body = fn_body(t, r"pub\(crate\) fn expr<'a, I>\(\)[^{]*\{")
    # layering: term -> unary(term) -> range(term) -> pratt
    flat = re.sub(r"\s+", "", body)
    if "letterm=unary(term);letterm=range(term);" not in flat or "term.pratt((" not in flat:
        raise ShapeError("expr(): expected `let term = unary(term); let term = range(term); term.pratt((…))`")
    ub = re.sub(r"\s+", "", fn_body(t, r"fn unary<'a, I, E>\(expr: E\)[^{]*\{"))
    if not ub.startswith("expr.clone().or(operator_unary().then(expr.map(Box::new))"):
        raise ShapeError("unary(): expected `expr.clone().or(operator_unary().then(expr.map(Box::new))…)` (operand is a bare term)")
    rb = re.sub(r"\s+", "", fn_body(t, r"fn range<'a, I, E>\(expr: E\)[^{]*\{"))
    for need in ["TokenKind::Range{bind_left:true,bind_right:true}", ".ignore_then(expr.clone())", "TokenKind::Range{bind_right:true,..}"]:
        if need not in rb:
            raise ShapeError(f"range(): expected fragment {need}")
    levels = re.findall(r"infix\(\s*(left|right)\((\d+)\),\s*operator_(\w+)\(\)\s*,", body)
    if len(levels) != body.count("infix("):
        raise ShapeError("expr(): an `infix(` entry is not of the form infix(left|right(N), operator_X(), …)")
    if len(set(n for _, n, _ in levels)) != len(levels):
        raise ShapeError("two Pratt entries share a binding power (not modelled)")
    kinds = lexer_kinds()
    table, seen = [], {}
    for assoc, n, fn in levels:
        entries = token_map(t, "operator_" + fn, "BinOp")
        for v, spec in entries:
            if v in seen:
                raise ShapeError(f"BinOp::{v} appears in two operator maps")
            if v not in dict(binops):
                raise ShapeError(f"BinOp::{v} is not a variant of BinOp")
            if spec[0] == "kind" and spec[1] not in kinds:
                raise ShapeError(f"TokenKind::{spec[1]} is not produced by multi_char_operators")
            seen[v] = (int(n), assoc == "right", spec)
        table.append((int(n), assoc == "right", fn, [v for v, _ in entries]))
    missing = [v for v, _ in binops if v not in seen]
    if missing:
        raise ShapeError(f"BinOp variants without a Pratt entry: {missing}")
    umap = token_map(t, "operator_unary", "UnOp")
    if sorted(v for v, _ in umap) != sorted(v for v, _ in unops):
        raise ShapeError("operator_unary() does not cover exactly the UnOp variants")
    for v, spec in umap:
        if spec[0] == "kind" and spec[1] not in kinds:
            raise ShapeError(f"TokenKind::{spec[1]} is not produced by multi_char_operators")
    # the token text must be the display text (formatter prints `to_string`, parser reads the token)
    for v, txt in binops:
        spec = seen[v][2]
        tok_text = spec[1] if spec[0] == "ctrl" else kinds[spec[1]]
        if tok_text != txt:
            raise ShapeError(f"BinOp::{v}: display text {txt!r} differs from its token {tok_text!r}")
    for v, txt in unops:
        spec = dict(umap)[v]
        tok_text = spec[1] if spec[0] == "ctrl" else kinds[spec[1]]
        if tok_text != txt:
            raise ShapeError(f"UnOp::{v}: display text {txt!r} differs from its token {tok_text!r}")
    return binops, unops, seen, table, umap, kinds


def spec_lean(spec):
    return f".ctrl {lean_chars(spec[1])[1:-1]}" if spec[0] == "ctrl" else f".kind .{spec[1]}"


@gen.register("Pratt")
def gen_pratt():
    binops, unops, seen, table, umap, kinds = pratt_tables()
    L = [f"-- GENERATED by tools/gen_pratt.py from {EXPR_RS} and {OPS_RS}; do not edit",
         "import PrqlModel.Gen.Lex", "namespace Gen.Pratt", "",
         "/-- `pr::BinOp` -/", "inductive BinOp where"]
    L += [f"  | {v}" for v, _ in binops] + ["  deriving DecidableEq, Repr", ""]
    L.append("def BinOp.all : List BinOp := [" + ", ".join("." + v for v, _ in binops) + "]")
    L.append("/-- strum `to_string` (what the formatter prints) -/")
    L.append("def BinOp.text : BinOp → List Char")
    L += [f"  | .{v} => {lean_chars(t)}" for v, t in binops]
    L.append("def BinOp.name : BinOp → String")
    L += [f'  | .{v} => "{v}"' for v, _ in binops]
    L.append("/-- variant name in lower case, as characters -/")
    L.append("def BinOp.lname : BinOp → List Char")
    L += [f'  | .{v} => {lean_chars(v.lower())}' for v, _ in binops]
    L += ["", "/-- `pr::UnOp` -/", "inductive UnOp where"]
    L += [f"  | {v}" for v, _ in unops] + ["  deriving DecidableEq, Repr", ""]
    L.append("def UnOp.all : List UnOp := [" + ", ".join("." + v for v, _ in unops) + "]")
    L.append("def UnOp.text : UnOp → List Char")
    L += [f"  | .{v} => {lean_chars(t)}" for v, t in unops]
    L.append("def UnOp.name : UnOp → String")
    L += [f'  | .{v} => "{v}"' for v, _ in unops]
    L += ["", "/-- how the parser recognises an operator: a control character or a multi-character token kind -/",
          "inductive TokSpec where", "  | ctrl (c : Char)", "  | kind (k : Gen.Lex.Op)", "  deriving DecidableEq, Repr", ""]
    L.append("/-- `operator_pow/mul/add/compare/coalesce/and/or` -/")
    L.append("def BinOp.tok : BinOp → TokSpec")
    L += [f"  | .{v} => {spec_lean(seen[v][2])}" for v, _ in binops]
    L.append("/-- `operator_unary` -/")
    L.append("def UnOp.tok : UnOp → TokSpec")
    L += [f"  | .{v} => {spec_lean(dict(umap)[v])}" for v, _ in unops]
    L.append("/-- order in which `operator_unary` tries its alternatives -/")
    L.append("def unaryOrder : List UnOp := [" + ", ".join("." + v for v, _ in umap) + "]")
    L += ["", "/-- binding power of `infix(left(N)|right(N), operator_X())` -/", "def BinOp.level : BinOp → Nat"]
    L += [f"  | .{v} => {seen[v][0]}" for v, _ in binops]
    L.append("def BinOp.rassoc : BinOp → Bool")
    L += [f"  | .{v} => {'true' if seen[v][1] else 'false'}" for v, _ in binops]
    L.append("/-- the `infix` entries in source order: (power, right-associative, operators in the order the map tries them) -/")
    L.append("def levels : List (Nat × Bool × List BinOp) := [")
    L.append(",\n".join(f"  ({n}, {'true' if r else 'false'}, [" + ", ".join("." + v for v in vs) + "])" for (n, r, _, vs) in table) + "]")
    L += ["/-- `let term = unary(term); let term = range(term);` : unary binds tighter than range, both tighter than every infix level;",
          "the operand of a unary operator is a bare term (no nested unary, no range) -/",
          "def unaryInsideRange : Bool := true", "", "end Gen.Pratt", ""]
    summary = {"levels": [[n, "right" if r else "left", fn, vs] for (n, r, fn, vs) in table],
               "unary": [[v, list(s)] for v, s in umap], "binops": len(binops)}
    return "\n".join(L), summary


@gen.register("Expand")
def gen_expand():
    binops, unops, *_ = pratt_tables()
    t = strip_comments(src(EXPAND_RS))
    body = fn_body(t, r"fn expand_binary\(.*?\) -> Result<pl::ExprKind> \{")
    arms = re.findall(r"pr::BinOp::(\w+)\s*=>\s*vec!\[([^\]]*)\]", body)
    names = {}
    for v, path in arms:
        parts = re.findall(r'"([^"]+)"', path)
        if not parts or parts[0] != "std" or v in names:
            raise ShapeError(f"expand_binary: unexpected arm for {v}: {path}")
        names[v] = parts
    if sorted(names) != sorted(v for v, _ in binops):
        raise ShapeError("expand_binary does not map exactly the BinOp variants")
    m = re.search(r"let \(left, right\) = match op \{(.*?)\};", body, re.S)
    if not m:
        raise ShapeError("expand_binary: argument order match not found")
    swaps = re.findall(r"pr::BinOp::(\w+)\s*=>\s*\(right, left\)", m.group(1))
    restm = re.sub(r"pr::BinOp::(\w+)\s*=>\s*\(right, left\),", "", m.group(1))
    if re.sub(r"\s+", "", restm) != "_=>(left,right),":
        raise ShapeError(f"expand_binary: unexpected argument order arms {restm.strip()[:80]!r}")
    if "new_binop(left, &func_name, right)" not in body:
        raise ShapeError("expand_binary: expected new_binop(left, &func_name, right)")
    ub = fn_body(t, r"fn expand_unary\(.*?\) -> Result<pl::ExprKind> \{")
    un = {}
    for v, a, b in re.findall(r'\b(Neg|Not)\s*=>\s*\["(\w+)",\s*"(\w+)"\]', ub):
        un[v] = [a, b]
    if not re.search(r"\bAdd\s*=>\s*return Ok\(expr\.kind\)", ub):
        raise ShapeError("expand_unary: expected `Add => return Ok(expr.kind)`")
    if "EqSelf =>" not in ub or sorted(list(un) + ["Add", "EqSelf"]) != sorted(v for v, _ in unops):
        raise ShapeError("expand_unary does not handle exactly Neg, Not, Add, EqSelf")
    L = [f"-- GENERATED by tools/gen_pratt.py from {EXPAND_RS}; do not edit",
         "import PrqlModel.Gen.Pratt", "namespace Gen.Expand", "open Gen.Pratt", "",
         "/-- std function a binary operator desugars to (path below `std`, dot separated) -/",
         "def binName : BinOp → List Char"]
    L += [f'  | .{v} => {lean_chars(".".join(names[v]))}   -- {".".join(names[v])}' for v, _ in binops]
    L.append("/-- operators whose operands are passed in reverse order (`a ** b` = `math.pow b a`) -/")
    L.append("def swapArgs : BinOp → Bool")
    L += [f"  | .{v} => {'true' if v in swaps else 'false'}" for v, _ in binops]
    L.append("/-- unary operators: `some name` = call of that std function, `none` = the operand itself (`+x`) or not an expression operator (`==x`) -/")
    L.append("def unName : UnOp → Option (List Char)")
    L += [f'  | .{v} => ' + (f'some {lean_chars(".".join(un[v]))}   -- {".".join(un[v])}' if v in un else "none") for v, _ in unops]
    L += ["", "end Gen.Expand", ""]
    return "\n".join(L), {"names": names, "swapped": swaps, "unary": un}
