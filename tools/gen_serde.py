"""Gen/Serde.lean  <-  the `#[derive(Serialize, Deserialize)]` types that prqlc::json::{from_pl,to_pl,from_rq,to_rq}
exchange: the parser's PR (root `pr::ModuleDef`) and the relational query RQ (root `rq::RelationalQuery`).

For every type reachable from the two roots: variant names and shapes, field names and types, and the serde
attributes that change the JSON (`flatten`, `skip_serializing_if`, `default`, `rename`, `with`; container-level
`tag`/`untagged`/`rename_all`/... are rejected because they are not modelled).  Hand-written impls (Span, Ident)
are checked for the shape the model assumes.  Anything unrecognised raises ShapeError.

Also importable: `extract()` returns the python view used by tools/props/c15.py for the typed walk of real JSON."""
import re
import gen
from gen import ShapeError, lean_chars

# namespace -> files (order matters only for messages)
FILES = {
    "pr": ["prqlc/prqlc-parser/src/parser/pr/expr.rs", "prqlc/prqlc-parser/src/parser/pr/stmt.rs",
           "prqlc/prqlc-parser/src/parser/pr/types.rs", "prqlc/prqlc-parser/src/parser/pr/ops.rs"],
    "generic": ["prqlc/prqlc-parser/src/generic.rs"],
    "lr": ["prqlc/prqlc-parser/src/lexer/lr.rs"],
    "rq": ["prqlc/prqlc/src/ir/rq/mod.rs", "prqlc/prqlc/src/ir/rq/expr.rs", "prqlc/prqlc/src/ir/rq/transform.rs",
           "prqlc/prqlc/src/ir/rq/ids.rs"],
    "irgeneric": ["prqlc/prqlc/src/ir/generic.rs"],
    "plx": ["prqlc/prqlc/src/ir/pl/extra.rs"],
}
# where an unqualified name used in namespace N is looked up, in order
SEARCH = {
    "pr": ["pr", "generic", "lr", "hand"],
    "generic": ["generic", "hand"],
    "lr": ["lr", "hand"],
    "rq": ["rq", "irgeneric", "plx", "lr", "generic", "hand", "pr"],   # QueryDef comes from pr via ir::pl
    "irgeneric": ["irgeneric", "generic", "hand"],
    "plx": ["plx", "hand"],
}
ROOTS = [("pr", "ModuleDef"), ("rq", "RelationalQuery")]
PRIMS = {"String": "string", "bool": "bool", "i64": "i64", "f64": "f64", "usize": "usize", "u16": "u16", "char": "char",
         "VersionReq": "string"}       # semver::VersionReq serialises as its Display string
WRAPPERS = {"Box": 1, "Option": 1, "Vec": 1, "HashMap": 2}
SERDE_FIELD_KEYS = {"flatten", "skip_serializing_if", "default", "rename", "with"}
KNOWN_SKIP_PREDICATES = {"Option::is_none": "none", "Vec::is_empty": "empty", "HashMap::is_empty": "empty", "is_false": "false"}
IGNORED_ATTRS = ("schemars", "strum", "default", "doc", "allow", "non_exhaustive")


# ------------------------------------------------------------------------------------------------
# tiny Rust type-expression parser
# ------------------------------------------------------------------------------------------------

def split_top(s, sep=","):
    out, depth, cur = [], 0, ""
    for ch in s:
        if ch in "<([{":
            depth += 1
        elif ch in ">)]}":
            depth -= 1
        if ch == sep and depth == 0:
            out.append(cur)
            cur = ""
        else:
            cur += ch
    if cur.strip():
        out.append(cur)
    return [x.strip() for x in out]


def parse_type(t):
    """-> ('prim', k) | ('ref', name) | ('app', wrapper, [args]) | ('tuple', [args]) | ('generic', name, [args]) | ('param', T)"""
    t = t.strip()
    if t.startswith("(") and t.endswith(")"):
        return ("tuple", [parse_type(x) for x in split_top(t[1:-1])])
    m = re.fullmatch(r"((?:\w+::)*)(\w+)(?:<(.*)>)?", t, re.S)
    if not m:
        raise ShapeError(f"serde: unrecognised type expression `{t}`")
    path, name, args = m.group(1), m.group(2), m.group(3)
    args = [parse_type(x) for x in split_top(args)] if args is not None else None
    if name in WRAPPERS:
        if args is None or len(args) != WRAPPERS[name]:
            raise ShapeError(f"serde: `{t}`: wrong arity for {name}")
        return ("app", name, args)
    if path.endswith("ops::") and name == "Range":
        return ("stdrange", args)
    if name in PRIMS and args is None:
        return ("prim", PRIMS[name])
    qual = path[:-2].split("::")[-1] if path else None
    if args is not None:
        return ("generic", name, args, qual)
    return ("ref", name, qual)


# ------------------------------------------------------------------------------------------------
# item extraction
# ------------------------------------------------------------------------------------------------

def take_attrs(text, i):
    """consume `#[...]` attributes starting at i; returns (list of attribute bodies, new index)"""
    attrs = []
    while True:
        m = re.compile(r"\s*#\[").match(text, i)
        if not m:
            return attrs, i
        j = gen.balanced(text, m.end() - 1, "[", "]")
        attrs.append(text[m.end():j - 1].strip())
        i = j


def serde_args(attr_body, where):
    """`serde(a, b = "c")` -> {a: True, b: "c"}"""
    m = re.fullmatch(r"serde\((.*)\)", attr_body, re.S)
    if not m:
        raise ShapeError(f"serde: {where}: unrecognised serde attribute `{attr_body}`")
    res = {}
    for part in split_top(m.group(1)):
        mm = re.fullmatch(r'(\w+)(?:\s*=\s*"([^"]*)")?', part)
        if not mm:
            raise ShapeError(f"serde: {where}: unrecognised serde argument `{part}`")
        res[mm.group(1)] = mm.group(2) if mm.group(2) is not None else True
    return res


def field_attrs(attrs, where):
    """-> dict(flatten, skip, default, rename, with_if_feature)"""
    out = {"flatten": False, "skip": None, "default": False, "rename": None, "with_if_feature": None}
    for a in attrs:
        head = re.match(r"\w+", a).group(0) if re.match(r"\w+", a) else ""
        if head == "serde":
            args = serde_args(a, where)
            for k, v in args.items():
                if k not in SERDE_FIELD_KEYS:
                    raise ShapeError(f"serde: {where}: attribute `{k}` is not modelled")
                if k == "with":
                    raise ShapeError(f"serde: {where}: unconditional `with = {v}` is not modelled")
                if k == "flatten":
                    out["flatten"] = True
                elif k == "default":
                    if v is not True:
                        raise ShapeError(f"serde: {where}: `default = {v}` is not modelled")
                    out["default"] = True
                elif k == "rename":
                    out["rename"] = v
                elif k == "skip_serializing_if":
                    if v not in KNOWN_SKIP_PREDICATES:
                        raise ShapeError(f"serde: {where}: skip_serializing_if predicate `{v}` is not modelled")
                    out["skip"] = v
        elif head == "cfg_attr":
            m = re.fullmatch(r'cfg_attr\(\s*feature\s*=\s*"(\w+)"\s*,(.*)\)', a, re.S)
            if not m:
                raise ShapeError(f"serde: {where}: unrecognised cfg_attr `{a}`")
            for part in split_top(m.group(2)):
                if part.startswith("serde("):
                    args = serde_args(part, where)
                    if set(args) != {"with"} or args["with"] != "serde_yaml::with::singleton_map" or m.group(1) != "serde_yaml":
                        raise ShapeError(f"serde: {where}: conditional serde attribute `{part}` is not modelled")
                    out["with_if_feature"] = (m.group(1), args["with"])
                elif not part.startswith("schemars("):
                    raise ShapeError(f"serde: {where}: unrecognised conditional attribute `{part}`")
        elif head in IGNORED_ATTRS:
            continue
        else:
            raise ShapeError(f"serde: {where}: unrecognised attribute `#[{a}]`")
    return out


def parse_fields(body, where):
    """named fields of a struct / struct variant"""
    fields, i = [], 0
    while True:
        attrs, i = take_attrs(body, i)
        m = re.compile(r"\s*(?:pub(?:\([a-z]+\))?\s+)?(\w+)\s*:\s*").match(body, i)
        if not m:
            if body[i:].strip():
                raise ShapeError(f"serde: {where}: unrecognised field syntax near `{body[i:i + 60].strip()}`")
            return fields
        # type runs to the next top-level comma
        depth, j = 0, m.end()
        while j < len(body) and not (body[j] == "," and depth == 0):
            depth += body[j] in "<([{"
            depth -= body[j] in ">)]}"
            j += 1
        ty = re.sub(r"\s+", " ", body[m.end():j].strip())
        fa = field_attrs(attrs, f"{where}.{m.group(1)}")
        fields.append({"rust_name": m.group(1), "name": fa["rename"] or m.group(1), "type_text": ty, "type": parse_type(ty), **fa})
        i = j + 1


def parse_items(ns, rel):
    text = gen.strip_comments(gen.src(rel))
    items, aliases = {}, {}
    for m in re.finditer(r"pub(?:\([a-z]+\))?\s+type\s+(\w+)\s*=\s*([^;]+);", text):
        aliases[m.group(1)] = parse_type(re.sub(r"\s+", " ", m.group(2)))
    pos = 0
    while True:
        m = re.compile(r"#\[derive\(").search(text, pos)
        if not m:
            break
        j = gen.balanced(text, m.end() - 1, "(", ")")
        derives = [d.strip().split("::")[-1] for d in text[m.end():j - 1].split(",") if d.strip()]
        pos = j + 1                                 # past `)]`
        attrs, k = take_attrs(text, pos)
        hm = re.compile(r"\s*pub(?:\([a-z]+\))?\s+(struct|enum)\s+(\w+)\s*(?:<\s*(\w+)\s*>)?\s*").match(text, k)
        if not hm:
            raise ShapeError(f"serde: {rel}: cannot read the item after #[derive({', '.join(derives)})]")
        kind, name, tparam = hm.group(1), hm.group(2), hm.group(3)
        ser, de = "Serialize" in derives, "Deserialize" in derives
        where = f"{ns}::{name}"
        if ser != de:
            raise ShapeError(f"serde: {where} derives only one of Serialize/Deserialize")
        e = hm.end()
        if text[e] == "{":
            end = gen.balanced(text, e)
            body = text[e + 1:end - 1]
        elif text[e] == "(" and kind == "struct":
            end = gen.balanced(text, e, "(", ")")
            body = None
            tuple_types = [re.sub(r"^pub\s+", "", x) for x in split_top(text[e + 1:end - 1])]
        else:
            raise ShapeError(f"serde: {where}: unrecognised item body")
        pos = end
        if not ser:
            continue
        for a in attrs:
            if a.startswith("serde"):
                raise ShapeError(f"serde: {where}: container attribute `#[{a}]` is not modelled")
            if a.startswith("cfg_attr") and "serde" in a:
                raise ShapeError(f"serde: {where}: conditional container attribute `#[{a}]` is not modelled")
        try:
            item = {"ns": ns, "name": name, "tparam": tparam, "file": rel}
            if kind == "struct" and body is not None:
                item["kind"] = "struct"
                item["fields"] = parse_fields(body, where)
            elif kind == "struct":
                item["kind"] = "newtype" if len(tuple_types) == 1 else "tuplestruct"
                item["elems"] = [parse_type(t) for t in tuple_types]
            else:
                item["kind"] = "enum"
                item["variants"] = []
                i = 0
                while True:
                    vattrs, i = take_attrs(body, i)
                    vm = re.compile(r"\s*(\w+)\s*").match(body, i)
                    if not vm:
                        if body[i:].strip():
                            raise ShapeError(f"serde: {where}: unrecognised variant syntax near `{body[i:i + 60].strip()}`")
                        break
                    vname, i = vm.group(1), vm.end()
                    fa = field_attrs(vattrs, f"{where}::{vname}")
                    if fa["flatten"] or fa["skip"] or fa["default"]:
                        raise ShapeError(f"serde: {where}::{vname}: field attribute on a variant is not modelled")
                    v = {"rust_name": vname, "name": fa["rename"] or vname, "with_if_feature": fa["with_if_feature"]}
                    if i < len(body) and body[i] == "(":
                        end = gen.balanced(body, i, "(", ")")
                        elems = split_top(body[i + 1:end - 1])
                        v["shape"] = "newtype" if len(elems) == 1 else "tuple"
                        v["elems"] = [parse_type(re.sub(r"\s+", " ", x)) for x in elems]
                        i = end
                    elif i < len(body) and body[i] == "{":
                        end = gen.balanced(body, i)
                        v["shape"] = "struct"
                        v["fields"] = parse_fields(body[i + 1:end - 1], f"{where}::{vname}")
                        i = end
                    else:
                        v["shape"] = "unit"
                    item["variants"].append(v)
                    cm = re.compile(r"\s*(?:=\s*[^,]+)?\s*,?").match(body, i)
                    i = cm.end()
                if not item["variants"]:
                    raise ShapeError(f"serde: {where}: enum without variants")
        except ShapeError as ex:      # only an error if the type is reachable from a root (see visit)
            item = {"ns": ns, "name": name, "tparam": tparam, "file": rel, "kind": "error", "error": str(ex)}
        items[name] = item
    return items, aliases


def check_handwritten():
    """the two hand-written impls must still have the shape Model/SerdeModel.lean mirrors"""
    sp = gen.strip_comments(gen.src("prqlc/prqlc-parser/src/span.rs"))
    need = [r'write!\(f,\s*"\{\}:\{\}-\{\}",\s*self\.source_id,\s*self\.start,\s*self\.end\)',
            r"impl Serialize for Span", r'let str = format!\("\{self:\?\}"\);\s*serializer\.serialize_str\(&str\)',
            r"v\.split_once\(':'\)", r"\.parse::<u16>\(\)", r"char_span\.split_once\('-'\)", r"\.parse::<usize>\(\)",
            r"pub start: usize,\s*pub end: usize,", r"pub source_id: u16,"]
    for n in need:
        if not re.search(n, sp):
            raise ShapeError(f"serde: span.rs no longer matches the modelled shape (missing /{n}/)")
    idt = gen.strip_comments(gen.src("prqlc/prqlc-parser/src/parser/pr/ident.rs"))
    need = [r"impl Serialize for Ident", r"serializer\.serialize_seq\(Some\(self\.len\(\)\)\)",
            r"for part in &self\.path \{\s*seq\.serialize_element\(part\)\?;\s*\}\s*seq\.serialize_element\(&self\.name\)\?;",
            r"<Vec<String> as Deserialize>::deserialize\(deserializer\)\.map\(Ident::from_path\)",
            r"let name = path\.pop\(\)\.unwrap\(\)\.to_string\(\);",
            r"pub struct Ident \{\s*pub path: Vec<String>,\s*pub name: String,\s*\}"]
    for n in need:
        if not re.search(n, idt):
            raise ShapeError(f"serde: ident.rs no longer matches the modelled shape (missing /{n}/)")
    return {"Span": "string `source_id:start-end`", "Ident": "sequence path.. ++ [name]"}


def extract():
    """-> dict qualified name -> item (only types reachable from the roots), resolved references"""
    items, aliases = {}, {}
    for ns, files in FILES.items():
        items[ns], aliases[ns] = {}, {}
        for f in files:
            it, al = parse_items(ns, f)
            items[ns].update(it)
            aliases[ns].update(al)
    hand = check_handwritten()
    items["hand"] = {n: {"ns": "hand", "name": n, "kind": "handwritten", "tparam": None, "file": "span.rs / ident.rs"} for n in hand}
    aliases["hand"] = {}

    def lookup(ns, name, qual):
        order = SEARCH[ns]
        if qual in ("generic",):
            order = ["generic"] if ns in ("pr", "rq", "lr", "generic") else ["irgeneric", "generic"]
            if ns == "irgeneric":
                order = ["generic"]
        if qual == "lr":
            order = ["lr"]
        for s in order:
            if name in aliases.get(s, {}) and s == ns:
                return ("alias", s, name)
            if name in items[s]:
                return ("item", s, name)
        for s in order:
            if name in aliases.get(s, {}):
                return ("alias", s, name)
        raise ShapeError(f"serde: type `{name}` used in namespace {ns} is not one of the extracted types")

    reach, order = {}, []

    def resolve(ns, t, tparam=None, targ=None):
        """type AST with ('ref', ns.name) fully qualified, aliases and generics expanded"""
        k = t[0]
        if k == "prim":
            return t
        if k == "stdrange":
            return ("struct_inline", [("start", ("prim", "usize")), ("end", ("prim", "usize"))])
        if k == "tuple":
            return ("tuple", [resolve(ns, x, tparam, targ) for x in t[1]])
        if k == "app":
            return ("app", t[1], [resolve(ns, x, tparam, targ) for x in t[2]])
        if k == "ref":
            if tparam and t[1] == tparam:
                return targ
            kind, s, name = lookup(ns, t[1], t[2])
            if kind == "alias":
                return resolve(s, aliases[s][name])
            visit(s, name, None)
            return ("ref", f"{s}.{name}")
        if k == "generic":
            kind, s, name = lookup(ns, t[1], t[3])
            if kind != "item" or not items[s][name]["tparam"] or len(t[2]) != 1:
                raise ShapeError(f"serde: generic use `{t[1]}<..>` not understood")
            arg = resolve(ns, t[2][0], tparam, targ)
            inst = visit(s, name, arg)
            return ("ref", inst)
        raise ShapeError(f"serde: type form {k}")

    def tstr(t):
        k = t[0]
        if k == "prim":
            return t[1]
        if k == "ref":
            return t[1]
        if k == "app":
            return f"{t[1]}<{', '.join(tstr(x) for x in t[2])}>"
        if k == "tuple":
            return "(" + ", ".join(tstr(x) for x in t[1]) + ")"
        if k == "struct_inline":
            return "{" + ", ".join(n for n, _ in t[1]) + "}"
        return str(t)

    def visit(ns, name, targ):
        it = items[ns][name]
        if it["kind"] == "error":
            raise ShapeError(it["error"])
        q = f"{ns}.{name}" + (f"<{tstr(targ)}>" if targ is not None else "")
        if q in reach:
            return q
        if it.get("tparam") and targ is None:
            raise ShapeError(f"serde: generic type {q} used without argument")
        r = {"q": q, "kind": it["kind"], "file": it["file"]}
        reach[q] = r
        tp = it.get("tparam")
        if it["kind"] == "struct":
            r["fields"] = [{**{k: f[k] for k in ("name", "flatten", "skip", "default", "type_text", "with_if_feature")},
                            "type": resolve(ns, f["type"], tp, targ)} for f in it["fields"]]
        elif it["kind"] in ("newtype", "tuplestruct"):
            r["elems"] = [resolve(ns, e, tp, targ) for e in it["elems"]]
        elif it["kind"] == "enum":
            r["variants"] = []
            for v in it["variants"]:
                w = {"name": v["name"], "shape": v["shape"], "with_if_feature": v["with_if_feature"]}
                if v["shape"] in ("newtype", "tuple"):
                    w["elems"] = [resolve(ns, e, tp, targ) for e in v["elems"]]
                if v["shape"] == "struct":
                    w["fields"] = [{**{k: f[k] for k in ("name", "flatten", "skip", "default", "type_text", "with_if_feature")},
                                    "type": resolve(ns, f["type"], tp, targ)} for f in v["fields"]]
                    if any(f["flatten"] for f in w["fields"]):
                        raise ShapeError(f"serde: {q}::{v['name']}: flatten inside a struct variant is not modelled")
                r["variants"].append(w)
        order.append(q)
        return q

    for ns, name in ROOTS:
        if name not in items[ns]:
            raise ShapeError(f"serde: root type {ns}::{name} not found")
        visit(ns, name, None)
    # flatten targets must be externally tagged enums (that is what the model covers)
    for q in order:
        for f in reach[q].get("fields", []):
            if f["flatten"]:
                t = f["type"]
                if t[0] != "ref" or reach[t[1]]["kind"] != "enum":
                    raise ShapeError(f"serde: {q}.{f['name']}: flatten of a non-enum type is not modelled")
            if f["skip"] and KNOWN_SKIP_PREDICATES[f["skip"]] == "none" and not (f["type"][0] == "app" and f["type"][1] == "Option"):
                raise ShapeError(f"serde: {q}.{f['name']}: Option::is_none on a non-Option field")
    return {"types": reach, "order": order, "tstr": tstr}


# ------------------------------------------------------------------------------------------------
# Lean text
# ------------------------------------------------------------------------------------------------

def lean_name(q):
    return re.sub(r"[^A-Za-z0-9]+", "_", q).strip("_")


def is_option(t):
    return t[0] == "app" and t[1] == "Option"


def head_ref(t):
    """the derived type a field's JSON value is decoded as, through Box (not through Option/Vec)"""
    while t[0] == "app" and t[1] == "Box":
        t = t[2][0]
    return t[1] if t[0] == "ref" else ""


@gen.register("Serde")
def gen_serde():
    ex = extract()
    types, order, tstr = ex["types"], ex["order"], ex["tstr"]
    L = ["-- GENERATED by tools/gen_serde.py from the #[derive(Serialize, Deserialize)] types of PR and RQ; do not edit",
         "namespace Gen.Serde", "",
         "inductive VShape where", "  | unit", "  | newtype", "  | tuple (n : Nat)", "  | struct (fields : List (List Char))",
         "  deriving DecidableEq, Repr", "",
         "/-- `skip` is the `skip_serializing_if` predicate: 0 = none, 1 = Option::is_none, 2 = is_empty, 3 = is_false -/",
         "structure Field where", "  name : List Char", "  flatten : Bool", "  skip : Nat", "  dflt : Bool", "  optional : Bool",
         "  /-- qualified name of the derived type the value is decoded as (through Box), or [] -/", "  tyRef : List Char",
         "  deriving DecidableEq, Repr", "",
         "structure Variant where", "  name : List Char", "  shape : VShape", "  deriving DecidableEq, Repr", "",
         "inductive Kind where", "  | struct", "  | newtype", "  | enum", "  | handwritten", "  deriving DecidableEq, Repr", "",
         "structure TypeInfo where", "  name : List Char", "  kind : Kind", "  fields : List Field", "  variants : List Variant",
         "  deriving DecidableEq, Repr", ""]
    skipcode = {None: 0, "Option::is_none": 1, "Vec::is_empty": 2, "HashMap::is_empty": 2, "is_false": 3}

    def field(f):
        return (f"⟨{lean_chars(f['name'])}, {str(f['flatten']).lower()}, {skipcode[f['skip']]}, {str(f['default']).lower()}, "
                f"{str(is_option(f['type'])).lower()}, {lean_chars(head_ref(f['type']))}⟩")

    summary = {}
    for q in order:
        t = types[q]
        kind = {"struct": "struct", "newtype": "newtype", "tuplestruct": "newtype", "enum": "enum", "handwritten": "handwritten"}[t["kind"]]
        fields = ", ".join(field(f) for f in t.get("fields", []))
        vs = []
        for v in t.get("variants", []):
            if v["shape"] == "unit":
                sh = ".unit"
            elif v["shape"] == "newtype":
                sh = ".newtype"
            elif v["shape"] == "tuple":
                sh = f".tuple {len(v['elems'])}"
            else:
                sh = ".struct [" + ", ".join(lean_chars(f["name"]) for f in v["fields"]) + "]"
            vs.append(f"⟨{lean_chars(v['name'])}, {sh}⟩")
        L.append(f"def {lean_name(q)} : TypeInfo :=")
        L.append(f"  ⟨{lean_chars(q)}, .{kind}, [{fields}],\n   [{', '.join(vs)}]⟩")
        s = {"kind": t["kind"]}
        if "fields" in t:
            s["fields"] = [f["name"] + ("[flatten]" if f["flatten"] else "") + (f"[skip:{f['skip']}]" if f["skip"] else "") +
                           ("[default]" if f["default"] else "") for f in t["fields"]]
        if "variants" in t:
            s["variants"] = [v["name"] for v in t["variants"]]
        summary[q] = s
    L.append("")
    L.append("def types : List TypeInfo := [" + ", ".join(lean_name(q) for q in order) + "]")
    L.append("")
    L.append("def find (n : List Char) : Option TypeInfo := types.find? (fun t => t.name == n)")
    L.append("def TypeInfo.variantNames (t : TypeInfo) : List (List Char) := t.variants.map (·.name)")
    L.append("def TypeInfo.ownFieldNames (t : TypeInfo) : List (List Char) := (t.fields.filter (fun f => !f.flatten)).map (·.name)")
    L += ["", "end Gen.Serde", ""]
    cond = sorted({f"{q}::{v['name']}" for q in order for v in types[q].get("variants", []) if v.get("with_if_feature")})
    return "\n".join(L), {"types": len(order), "conditional_with(feature serde_yaml; not enabled in the harness build)": cond,
                          "flatten": [f"{q}.{f['name']}" for q in order for f in types[q].get("fields", []) if f["flatten"]],
                          "skip": [f"{q}.{f['name']}:{f['skip']}{'+default' if f['default'] else ''}" for q in order
                                   for f in types[q].get("fields", []) if f["skip"]],
                          "shapes": summary}
