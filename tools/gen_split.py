"""Gen/Split.lean <- is_split_required (sql/pq/anchor.rs), the SqlTransform / rq::Transform variant names."""
import re
import gen
from gen import ShapeError, src, strip_comments, balanced, fn_body


def enum_variants(text, header_re):
    m = re.search(header_re, text)
    if not m:
        raise ShapeError(f"enum not found: {header_re}")
    i = text.index("{", m.end() - 1)
    body = text[i + 1:balanced(text, i) - 1]
    out, depth, cur = [], 0, ""
    for ch in body:
        if ch in "({[<":
            depth += 1
        elif ch in ")}]>":
            depth -= 1
        if ch == "," and depth == 0:
            out.append(cur)
            cur = ""
        else:
            cur += ch
    out.append(cur)
    names = []
    for item in out:
        item = re.sub(r"#\[[^\]]*\]", "", item).strip()
        m2 = re.match(r"([A-Z][A-Za-z0-9]*)", item)
        if m2:
            names.append(m2.group(1))
    return names


def top_level_arms(body):
    """split a match body into (pattern, arm_body) at top level"""
    arms, i, n = [], 0, len(body)
    while i < n:
        # find top-level "=>"
        depth, j = 0, i
        while j < n:
            c = body[j]
            if c in "({[":
                depth += 1
            elif c in ")}]":
                depth -= 1
            elif c == '"':
                j = body.index('"', j + 1)
            elif depth == 0 and body.startswith("=>", j):
                break
            j += 1
        if j >= n:
            if body[i:].strip():
                raise ShapeError(f"trailing text in match: {body[i:].strip()[:80]}")
            break
        pat = body[i:j].strip()
        k = j + 2
        while body[k].isspace():
            k += 1
        if body[k] == "{":
            e = balanced(body, k)
            arm = body[k:e]
            while e < n and body[e] in ", \n\t":
                e += 1
        else:
            depth, e = 0, k
            while e < n:
                c = body[e]
                if c in "({[":
                    depth += 1
                elif c in ")}]":
                    depth -= 1
                elif c == '"':
                    e = body.index('"', e + 1)
                elif c == "," and depth == 0:
                    break
                e += 1
            arm = body[k:e]
            e += 1
        arms.append((pat, arm.strip()))
        i = e
    return arms


def str_list(s):
    inner = re.sub(r"/\*.*?\*/", "", s, flags=re.S)
    items = [x.strip() for x in inner.split(",") if x.strip()]
    out = []
    for it in items:
        m = re.fullmatch(r'"([A-Za-z]+)"', it)
        if not m:
            raise ShapeError(f"unrecognised list element {it!r}")
        out.append(m.group(1))
    return out


CA = r"contains_any\(\s*following\s*,\s*\[(.*?)\]\s*,?\s*\)"


def arm_value(arm):
    """-> ('set', [..]) | ('ifagg', [..then], [..else]) | ('nonempty',) | ('never',)"""
    a = re.sub(r"//[^\n]*", "", arm)
    a = re.sub(r"\s+", " ", a).strip()
    m = re.fullmatch(CA, a, flags=re.S) or re.fullmatch(r"\{ " + CA + r" \}", a, flags=re.S)
    if m:
        return ("set", str_list(m.group(1)))
    m = re.fullmatch(r'\{ if following\.contains\("Aggregate"\) \{ ' + CA + r' \} else \{ ' + CA + r' \} \}', a, flags=re.S)
    if m:
        return ("ifagg", str_list(m.group(1)), str_list(m.group(2)))
    if a == "!following.is_empty()":
        return ("nonempty",)
    if a == "false":
        return ("never",)
    raise ShapeError(f"unrecognised arm body: {a[:160]}")


@gen.register("Split")
def gen_split():
    t_anchor = src("prqlc/prqlc/src/sql/pq/anchor.rs")
    body = fn_body(t_anchor, r"fn is_split_required\(transform: &SqlTransform, following: &mut HashSet<String>\) -> bool \{")
    nc = strip_comments(body)
    # early return for aggregation computes (they are neither split on nor recorded)
    if not re.search(r"if let Super\(Compute\(decl\)\) = transform \{\s*if decl\.is_aggregation \{\s*return false;\s*\}\s*\}", nc):
        raise ShapeError("early return for aggregation computes not found")
    if not re.search(r"if !split \{\s*following\.insert\(transform\.as_str\(\)\.to_string\(\)\);\s*\}\s*split\s*$", nc.strip()):
        raise ShapeError("tail `if !split { following.insert(..) } split` not found")
    m = re.search(r"let split = match transform \{", nc)
    if not m:
        raise ShapeError("`let split = match transform {` not found")
    i = nc.index("{", m.end() - 1)
    mbody = nc[i + 1:balanced(nc, i) - 1]
    # keep /* */ comments out
    mbody = re.sub(r"/\*.*?\*/", "", mbody, flags=re.S)
    arms = top_level_arms(mbody)
    sqlv = [v for v in enum_variants(strip_comments(src("prqlc/prqlc/src/sql/pq/ast.rs")), r"pub enum SqlTransform<[^{]*\{") if v != "Super"]
    rqv = enum_variants(strip_comments(src("prqlc/prqlc/src/ir/rq/transform.rs")), r"pub enum Transform \{")
    kinds = []
    for v in sqlv + rqv:
        if v not in kinds:
            kinds.append(v)
    table, default = {}, None
    for pat, arm in arms:
        val = arm_value(arm)
        p = re.sub(r"\s+", " ", pat)
        if p == "_":
            default = val
            continue
        for alt in [x.strip() for x in p.split("|")]:
            m1 = re.fullmatch(r"SqlTransform::(\w+)(?: ?\{ ?\.\. ?\}| ?\(_\))?", alt)
            m2 = re.fullmatch(r"Super\((\w+)(?: ?\{ ?\.\. ?\}|\(_\))?\)", alt)
            name = (m1 or m2).group(1) if (m1 or m2) else None
            if not name:
                raise ShapeError(f"unrecognised match pattern {alt!r}")
            if m1 and name not in sqlv:
                raise ShapeError(f"{name} is not a SqlTransform variant")
            if m2 and name not in rqv:
                raise ShapeError(f"{name} is not an rq::Transform variant")
            if name in table:
                raise ShapeError(f"two arms for {name}")
            table[name] = val
    if default != ("never",):
        raise ShapeError(f"default arm is {default}, expected `_ => false`")
    for name, val in table.items():
        for l in val[1:]:
            for k in l:
                if k not in kinds:
                    raise ShapeError(f"{k} in the list of {name} is not a transform kind")
    L = ["-- GENERATED by tools/gen_split.py from prqlc/prqlc/src/sql/pq/anchor.rs (is_split_required); do not edit",
         "namespace Gen.Split", "", "inductive Kind where"]
    for k in kinds:
        L.append(f"  | {k}")
    L += ["  | AggCompute   -- a Compute with is_aggregation: never split on, never recorded",
          "  deriving DecidableEq, Repr", ""]
    allk = kinds + ["AggCompute"]
    L.append("def Kind.all : List Kind := [" + ", ".join("." + k for k in allk) + "]")
    L.append("def Kind.name : Kind → String")
    for k in allk:
        L.append(f'  | .{k} => "{k}"')
    L.append("")
    L.append("/-- kinds whose presence among the following transforms forces a split before/at this one;")
    L.append("the Bool says whether an Aggregate is among the following transforms -/")
    L.append("def splitSet : Kind → Bool → List Kind")
    lst = lambda l: "[" + ", ".join("." + x for x in l) + "]"
    for k in allk:
        v = table.get(k, ("never",))
        if v[0] == "set":
            L.append(f"  | .{k}, _ => {lst(v[1])}")
        elif v[0] == "ifagg":
            L.append(f"  | .{k}, true => {lst(v[1])}")
            L.append(f"  | .{k}, false => {lst(v[2])}")
        else:
            L.append(f"  | .{k}, _ => []")
    L.append("")
    L.append("/-- kinds that split whenever anything at all follows -/")
    L.append("def splitsOnAnything : Kind → Bool")
    for k in allk:
        L.append(f"  | .{k} => {'true' if table.get(k, ('never',))[0] == 'nonempty' else 'false'}")
    L.append("")
    L.append("/-- kinds recorded in `following` when kept (aggregation computes return early) -/")
    L.append("def recorded : Kind → Bool")
    L.append("  | .AggCompute => false")
    L.append("  | _ => true")
    L += ["", "end Gen.Split", ""]
    return "\n".join(L), {"kinds": allk, "table": {k: v for k, v in table.items()}}
