"""Gen/SqlOps.lean <- prqlc/src/sql/std.sql.prql (operator templates of the root module and the sqlite module, with
`@{binding_strength, coalesce, window_frame}` annotations and `{param:N}` required strengths) and
prqlc/src/sql/gen_expr.rs (operator_from_name, BinaryOperator/UnaryOperator/Expr binding strengths, associativity,
the strengths passed by process_null / try_into_between, the strength of wrapped / source expressions)."""
import re
import gen
from gen import ShapeError, src, strip_comments, fn_body, lean_chars, balanced

STD = "prqlc/prqlc/src/sql/std.sql.prql"
GEN_EXPR = "prqlc/prqlc/src/sql/gen_expr.rs"
OPERATORS = "prqlc/prqlc/src/sql/operators.rs"
DIALECTS_MODELLED = ["sqlite"]      # plus the root module (= generic and every dialect without an override)


def parse_std(text):
    """-> {module path ('' = root, 'sqlite', ...): {op name (dotted): def}}"""
    lines = [l for l in (re.sub(r"^\s*#.*$", "", l) for l in text.split("\n"))]
    mods = {"": {}}
    stack = []          # module names
    pending = None
    for raw in lines:
        l = raw.strip()
        if not l:
            continue
        m = re.fullmatch(r"module (\w+) \{", l)
        if m:
            stack.append(m.group(1))
            continue
        if l == "}":
            if not stack:
                raise ShapeError("std.sql.prql: unbalanced `}`")
            stack.pop()
            continue
        m = re.fullmatch(r"@\{(.*)\}", l)
        if m:
            if pending is not None:
                raise ShapeError("std.sql.prql: two annotations in a row")
            ann = {}
            for item in re.findall(r'(\w+)\s*=\s*("[^"]*"|\w+)', m.group(1)):
                ann[item[0]] = item[1]
            if re.sub(r'(\w+)\s*=\s*("[^"]*"|\w+)|[,\s]', "", m.group(1)):
                raise ShapeError(f"std.sql.prql: unrecognised annotation {l}")
            for k in ann:
                if k not in ("binding_strength", "coalesce", "window_frame"):
                    raise ShapeError(f"std.sql.prql: unknown annotation key {k}")
            pending = ann
            continue
        m = re.fullmatch(r'let (`?\w+`?) = ((?:`?\w+`? )*)-> (null|s"(.*)")', l)
        if not m:
            raise ShapeError(f"std.sql.prql: unrecognised line {l[:100]!r}")
        name = m.group(1).strip("`")
        params = [p.strip("`") for p in m.group(2).split()]
        body = None
        if m.group(3) != "null":
            body = []
            s = m.group(4)
            pos = 0
            for h in re.finditer(r"\{(\w+)(?::(\d+))?\}", s):
                if h.start() > pos:
                    body.append(("text", s[pos:h.start()]))
                if h.group(1) not in params:
                    raise ShapeError(f"std.sql.prql: {name}: hole {h.group(1)} is not a parameter")
                body.append(("hole", params.index(h.group(1)), None if h.group(2) is None else int(h.group(2))))
                pos = h.end()
            if pos < len(s):
                body.append(("text", s[pos:]))
            if "{" in re.sub(r"\{(\w+)(?::(\d+))?\}", "", s) or "\\" in s:
                raise ShapeError(f"std.sql.prql: {name}: unrecognised interpolation in {s!r}")
        # dialect module = first component if it is not one of the plain namespaces
        top = stack[0] if stack else ""
        if top in ("math", "text", "date"):
            modname, prefix = "", stack
        else:
            modname, prefix = top, stack[1:]
        ann = pending or {}
        pending = None
        d = dict(name=".".join(prefix + [name]), params=params, body=body,
                 strength=int(ann["binding_strength"]) if "binding_strength" in ann else None,
                 coalesce=ann["coalesce"].strip('"') if "coalesce" in ann else None,
                 window_frame=ann.get("window_frame") == "true")
        mods.setdefault(modname, {})
        if d["name"] in mods[modname]:
            raise ShapeError(f"std.sql.prql: {modname}.{d['name']} defined twice")
        mods[modname][d["name"]] = d
    if stack or pending:
        raise ShapeError("std.sql.prql: unterminated module or dangling annotation")
    return mods


def match_table(body, what):
    """arms `A | B => N,` + default `_ => N` of a match on self -> (dict, default)"""
    m = re.search(r"match self \{", body)
    if not m:
        raise ShapeError(f"{what}: match self not found")
    i = body.index("{", m.end() - 1)
    inner = body[i + 1:balanced(body, i) - 1]
    table, default = {}, None
    from gen_split import top_level_arms
    for pat, val in top_level_arms(inner):
        pat, val = pat.strip(), val.strip().rstrip(",")
        if pat == "_":
            default = val
            continue
        for alt in pat.split("|"):
            alt = re.sub(r"\s*\{[^}]*\}|\(_\)", "", alt.strip())
            alt = alt.split("::")[-1]
            table[alt] = val
    return table, default


def impl_fn(t, ty, fn):
    m = re.search(r"impl SQLExpression for " + re.escape(ty) + r" \{", t)
    if not m:
        raise ShapeError(f"impl SQLExpression for {ty} not found")
    i = t.index("{", m.end() - 1)
    body = t[i:balanced(t, i)]
    m2 = re.search(r"fn " + fn + r"\(&self\) -> \w+ \{", body)
    if not m2:
        return None
    j = body.index("{", m2.end() - 1)
    return body[j + 1:balanced(body, j) - 1]


@gen.register("SqlOps")
def gen_sqlops():
    mods = parse_std(src(STD))
    for d in DIALECTS_MODELLED:
        if d not in mods:
            raise ShapeError(f"std.sql.prql has no module {d}")
    t = strip_comments(src(GEN_EXPR))
    # operator_from_name
    ofn = fn_body(t, r"fn operator_from_name\(name: &str\)[^{]*\{")
    pairs = re.findall(r'"std\.([\w.]+)"\s*=>\s*Some\((\w+)\)', ofn)
    rest = re.sub(r'"std\.([\w.]+)"\s*=>\s*Some\((\w+)\),', "", ofn)
    if re.sub(r"\s+", "", rest) != "useBinaryOperator::*;matchname{_=>None,}" or not pairs:
        raise ShapeError("operator_from_name: unrecognised shape")
    sqlbins = []
    for _, b in pairs:
        if b not in sqlbins:
            sqlbins.append(b)
    bs, bs_def = match_table(impl_fn(t, "BinaryOperator", "binding_strength"), "BinaryOperator::binding_strength")
    asc, asc_def = match_table(impl_fn(t, "BinaryOperator", "associativity"), "BinaryOperator::associativity")
    us, us_def = match_table(impl_fn(t, "UnaryOperator", "binding_strength"), "UnaryOperator::binding_strength")
    if impl_fn(t, "UnaryOperator", "associativity") is not None:
        raise ShapeError("UnaryOperator now overrides associativity (not modelled)")
    es, es_def = match_table(impl_fn(t, "sql_ast::Expr", "binding_strength"), "Expr::binding_strength")
    if bs_def is None or asc_def is None or us_def is None or es_def is None:
        raise ShapeError("a strength table lacks its default arm")
    if es.get("BinaryOp") != "op.binding_strength()" or es.get("UnaryOp") != "op.binding_strength()":
        raise ShapeError("Expr::binding_strength: BinaryOp / UnaryOp arms changed")
    for k in ("IsNull", "IsNotNull", "Like", "ILike"):
        if k not in es:
            raise ShapeError(f"Expr::binding_strength: no arm for {k}")
    if es["IsNull"] != es["IsNotNull"]:
        raise ShapeError("IsNull / IsNotNull strengths differ (not modelled)")
    # default associativity of the trait
    if not re.search(r"fn associativity\(&self\) -> Associativity \{\s*Associativity::Both\s*\}", t):
        raise ShapeError("SQLExpression::associativity default is not Both")
    flat = re.sub(r"\s+", "", t)
    # needs_parentheses shape
    np_ = re.sub(r"\s+", "", fn_body(t, r"fn needs_parentheses\([^{]*\{"))
    expect = ("letrule_3a=matches!(parent_associativity,Associativity::Both);"
              "letrule_3b_left=is_left&&parent_associativity.left_associative();"
              "letrule_3b_right=!is_left&&parent_associativity.right_associative();"
              "matchexpr.binding_strength().cmp(&parent_strength){Ordering::Greater=>false,Ordering::Less=>true,"
              "Ordering::Equal=>!(rule_3a||rule_3b_left||rule_3b_right),}")
    if np_ != expect:
        raise ShapeError("needs_parentheses: body differs from the modelled three rules")
    if "matches!(self,Associativity::Left|Associativity::Both)" not in flat or "matches!(self,Associativity::Right|Associativity::Both)" not in flat:
        raise ShapeError("left_associative / right_associative changed")
    # process_null: translate_operand(operand, true, strength(IsNull), Both)
    pn = re.sub(r"\s+", "", fn_body(t, r"fn process_null\([^{]*\{"))
    if pn.count("translate_operand(operand.clone(),true,strength,Associativity::Both,ctx)") != 2:
        raise ShapeError("process_null: operand translation changed")
    tb = re.sub(r"\s+", "", fn_body(t, r"fn try_into_between\([^{]*\{"))
    mb = re.findall(r"translate_operand\((a_l|a_r|b_r),true,(\d+),Associativity::Both,ctx\)", tb)
    if [x for x, _ in mb] != ["a_l", "a_r", "b_r"] or len(set(n for _, n in mb)) != 1:
        raise ShapeError("try_into_between: operand translation changed")
    if 'ifa_name=="std.gte"&&b_name=="std.lte"' not in tb or 'ifname=="std.and"' not in tb or "ifa_l==b_l" not in tb:
        raise ShapeError("try_into_between: recognised shape changed")
    tbo = re.sub(r"\s+", "", fn_body(t, r"fn translate_binary_operator\([^{]*\{"))
    if ("translate_operand(left.clone(),true,strength,op.associativity(),ctx)" not in tbo
            or "translate_operand(right.clone(),false,strength,op.associativity(),ctx)" not in tbo):
        raise ShapeError("translate_binary_operator changed")
    wrapped = re.findall(r"lettext=format!\(\"\(\{text\}\)\"\);ExprOrSource::Source\(SourceExpr\{text,binding_strength:(\d+),", flat)
    if len(wrapped) != 1:
        raise ShapeError("wrap_in_parenthesis: source strength not found")
    # operators.rs: default strength, hole translation
    o = re.sub(r"\s+", "", strip_comments(src(OPERATORS)))
    md = re.search(r"letparent_binding_strength=binding_strength\.unwrap_or\((\d+)\);", o)
    if not md:
        raise ShapeError("translate_operator: default binding strength not found")
    if "translate_operand(arg,false,required_strength,super::gen_expr::Associativity::Both,ctx,)" not in o:
        raise ShapeError("translate_operator: hole translation changed")
    if ".unwrap_or(parent_binding_strength);" not in o:
        raise ShapeError("translate_operator: default hole strength changed")
    guard_new = 'letarg=arg.into_source();iftext.ends_with(\'-\')&&arg.starts_with(\'-\'){text+="(";text+=&arg;text+=")";}else{text+=&arg;}'
    if guard_new in o:
        minus_guard = True
    elif "text+=&arg.into_source();" in o:
        minus_guard = False
    else:
        raise ShapeError("translate_operator: the way a translated operand is appended to the text changed")
    mc = re.search(r'text=format!\("COALESCE\(\{text\},\{default\}\)"\);binding_strength=(\d+);', o)
    if not mc:
        raise ShapeError("translate_operator: coalesce wrapping changed")

    def val(table, default, k):
        v = table.get(k, default)
        if not re.fullmatch(r"\d+", v):
            raise ShapeError(f"strength of {k} is not a number: {v}")
        return int(v)

    def aval(k):
        v = asc.get(k, asc_def).split("::")[-1]
        if v not in ("Left", "Both", "Right"):
            raise ShapeError(f"associativity of {k}: {v}")
        return v

    L = [f"-- GENERATED by tools/gen_sqlops.py from {STD}, {GEN_EXPR} and {OPERATORS}; do not edit",
         "namespace Gen.SqlOps", "",
         "/-- a piece of an operator template: literal text, or a hole `{param:N}` (index into the RQ argument list, required strength) -/",
         "inductive Piece where", "  | text (s : List Char)", "  | hole (arg : Nat) (strength : Option Nat)", "  deriving DecidableEq, Repr", "",
         "structure OpDef where", "  name : List Char", "  arity : Nat", "  strength : Option Nat", "  coalesce : Option (List Char)",
         "  windowFrame : Bool", "  body : Option (List Piece)", "  deriving DecidableEq, Repr", ""]

    def opdef(d):
        def piece(p):
            if p[0] == "text":
                return f".text {lean_chars(p[1])}"
            return f".hole {p[1]} " + ("none" if p[2] is None else f"(some {p[2]})")
        body = "none" if d["body"] is None else "some [" + ", ".join(piece(p) for p in d["body"]) + "]"
        return (f"  -- {d['name']}\n  {{ name := " + lean_chars("std." + d["name"]) + f", arity := {len(d['params'])}, strength := "
                + ("none" if d["strength"] is None else f"some {d['strength']}") + ", coalesce := "
                + ("none" if d["coalesce"] is None else f"some {lean_chars(d['coalesce'])}")
                + f", windowFrame := {'true' if d['window_frame'] else 'false'},\n    body := {body} }}")

    L.append("/-- operators of the root module of std.sql.prql (used by `generic` and wherever a dialect does not override) -/")
    L.append("def root : List OpDef := [\n" + ",\n".join(opdef(d) for d in mods[""].values()) + "]")
    for dn in DIALECTS_MODELLED:
        L.append(f"/-- overrides of `module {dn}` -/")
        L.append(f"def {dn} : List OpDef := [\n" + ",\n".join(opdef(d) for d in mods[dn].values()) + "]")
    L.append("def dialectModules : List String := [" + ", ".join(f'"{m}"' for m in mods if m) + "]")
    L += ["", "/-- sqlparser `BinaryOperator`s in the range of `operator_from_name` -/", "inductive SqlBin where"]
    L += [f"  | {b}" for b in sqlbins] + ["  deriving DecidableEq, Repr", ""]
    L.append("def SqlBin.all : List SqlBin := [" + ", ".join("." + b for b in sqlbins) + "]")
    L.append("/-- `operator_from_name` -/")
    L.append("def operatorFromName : List (List Char × SqlBin) := [\n" + ",\n".join(f"  ({lean_chars('std.' + n)}, .{b})" for n, b in pairs) + "]")
    L.append("/-- `BinaryOperator::binding_strength` -/")
    L.append("def SqlBin.strength : SqlBin → Nat")
    L += [f"  | .{b} => {val(bs, bs_def, b)}" for b in sqlbins]
    L += ["inductive Assoc where", "  | Left | Both | Right", "  deriving DecidableEq, Repr",
          "/-- `BinaryOperator::associativity` -/", "def SqlBin.assoc : SqlBin → Assoc"]
    L += [f"  | .{b} => .{aval(b)}" for b in sqlbins]
    L.append("/-- strengths of the operators that only occur inside templates (for the documentation of `{r:12}`) -/")
    L.append(f"def divideStrength : Nat := {val(bs, bs_def, 'Divide')}")
    L.append(f"def moduloStrength : Nat := {val(bs, bs_def, 'Modulo')}")
    L.append(f"def otherBinaryStrength : Nat := {int(bs_def)}")
    L.append("/-- `UnaryOperator::binding_strength` -/")
    L.append(f"def unaryMinusStrength : Nat := {val(us, us_def, 'Minus')}")
    L.append(f"def unaryNotStrength : Nat := {val(us, us_def, 'Not')}")
    L.append("/-- `Expr::binding_strength` -/")
    L.append(f"def isNullStrength : Nat := {val(es, es_def, 'IsNull')}")
    L.append(f"def likeStrength : Nat := {val(es, es_def, 'Like')}")
    L.append(f"def otherExprStrength : Nat := {int(es_def)}   -- literals, identifiers, CASE, BETWEEN, functions, nested")
    L.append(f"def sourceStrength : Nat := {wrapped[0]}   -- parenthesised source text")
    L.append(f"def defaultOperatorStrength : Nat := {md.group(1)}   -- template without @{{binding_strength}}")
    L.append(f"def coalescedStrength : Nat := {mc.group(1)}")
    L.append("/-- translate_operator: an operand whose text starts with `-` is parenthesised when the text before it ends with `-` -/")
    L.append(f"def minusGuard : Bool := {'true' if minus_guard else 'false'}")
    L.append(f"def betweenOperandStrength : Nat := {mb[0][1]}   -- try_into_between: translate_operand(x, true, N, Both)")
    L += ["", "end Gen.SqlOps", ""]
    summary = {"root_ops": len(mods[""]), "sqlite_ops": sorted(mods["sqlite"]), "operator_from_name": pairs,
               "binary_strength": {b: val(bs, bs_def, b) for b in sqlbins}, "assoc": {b: aval(b) for b in sqlbins},
               "unary": {"Minus": val(us, us_def, "Minus"), "Not": val(us, us_def, "Not")},
               "minus_guard": minus_guard, "expr": {"IsNull": val(es, es_def, "IsNull"), "other": int(es_def)}, "modules": [m for m in mods if m]}
    return "\n".join(L), summary
