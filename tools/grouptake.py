"""Directed stream for `group K (take 1)` followed by row-wise transforms (C01).

Which row of a group `take 1` keeps is not specified when the group body has no sort, so the rows of such a program are
not a function of the database - but the SET OF ADMISSIBLE RESULTS is: every group contributes at most one row
(Lean: group_take_one_keys_unique), that row is one of the group's rows pushed through the row-wise tail
(filter / derive / sort / select), and a group may be absent only if one of its rows fails a filter. The stream
enumerates partition x tail x final projection over a three-column table, runs the emitted SQL on SQLite over instances
with duplicate keys and NULLs and checks that the answer is one of the admissible results. (This is what the DISTINCT
rewrite of preprocess::distinct must respect; finding distinct-judged-on-final-frame lives here.)
"""
import itertools, random
from vlib import vh_batch
import relgen

PRELUDE = "module default_db {\n  let t <[{a = int, b = int, c = int}]>\n}\n\n"
SCHEMA = [("t", [("a", relgen.INT), ("b", relgen.INT), ("c", relgen.INT)])]

# tail atoms: (source text, kind, python row function); a row is a dict name -> value
def _gt(col, k):
    return lambda r: r[col] is not None and r[col] > k


TAIL = {
    "Fb": ("filter b > 0", "filter", _gt("b", 0)),
    "Fc": ("filter c > 0", "filter", _gt("c", 0)),
    "Fa": ("filter a > 1", "filter", _gt("a", 1)),
    "Sb": ("sort b", "sort", None),
    "Sc": ("sort {-c}", "sort", None),
    "D": ("derive {d = b + 1}", "derive", lambda r: dict(r, d=None if r["b"] is None else r["b"] + 1)),
    "Dc": ("derive {e = c * 2}", "derive", lambda r: dict(r, e=None if r["c"] is None else r["c"] * 2)),
}
KEYS = [["a"], ["a", "b"], ["b", "a"]]
PRE = ["", "select {a, b, c}\n", "select {a, b}\n"]


def programs():
    out = []
    tails = [()] + [(x,) for x in TAIL] + [p for p in itertools.permutations(TAIL, 2)]
    for pre, key, tail in itertools.product(PRE, KEYS, tails):
        cols = ["a", "b", "c"] if "c}" in pre or pre == "" else ["a", "b"]
        if any(TAIL[x][0].split()[1].strip("{-}") not in cols and x not in ("D", "Dc") for x in tail):
            continue
        if ("Dc" in tail or "Fc" in tail or "Sc" in tail) and "c" not in cols:
            continue
        derived = [{"D": "d", "Dc": "e"}[x] for x in tail if x in ("D", "Dc")]
        finals = [list(key), list(key) + [x for x in cols if x not in key][:1], None]
        if derived:
            finals.append(list(key) + derived)
        for fin in finals:
            text = "from t\n" + pre + "group {" + ", ".join(key) + "} (take 1)\n" + "".join(TAIL[x][0] + "\n" for x in tail)
            if fin is not None:
                text += "select {" + ", ".join(fin) + "}\n"
                outcols = fin
            else:
                outcols = list(key) + [x for x in cols if x not in key] + derived
            out.append({"prql": PRELUDE + text, "key": key, "tail": tail, "cols": cols, "out": outcols})
    return out


def instances(n=4):
    rng = random.Random(4242)
    dbs = [[(1, 1, 1), (1, 2, 1)], [(1, 1, 1), (1, -1, 2), (2, 0, 0), (2, 3, -1)], []]
    for _ in range(n):
        rows = []
        for _ in range(rng.randint(3, 7)):
            rows.append((rng.choice([1, 1, 2, 2, 3, None]), rng.choice([-1, 0, 1, 2, 2, None]), rng.choice([-1, 0, 1, 2, None])))
        dbs.append(rows)
    return dbs



def align(names, rows, expected):
    """rows with their columns put into the order of `expected` when the returned names are a permutation of it (the ORDER of result
    columns is C05's subject and, after `group`, varies from call to call: listed C11 leak wildcard-equal-order-choice)"""
    if names is None or rows is None:
        return rows
    low = [n.lower() for n in names]
    if low != list(expected) and sorted(low) == sorted(expected) and len(set(low)) == len(low):
        idx = [low.index(e) for e in expected]
        return [[r[i] for i in idx] for r in rows]
    return rows

def admissible(prog, rows, got):
    """None if `got` (list of rows in the order of prog['out']) is an admissible result, else a description"""
    key, out = prog["key"], prog["out"]
    groups = {}
    for r in rows:
        d = dict(zip(("a", "b", "c"), r))
        groups.setdefault(tuple(d[k] for k in key), []).append(d)
    cand, may_miss = {}, {}
    for k, rs in groups.items():
        c, miss = [], False
        for d in rs:
            ok = True
            for x in prog["tail"]:
                _, kind, f = TAIL[x]
                if kind == "filter" and not f(d):
                    ok = False
                    break
                if kind == "derive":
                    d = f(d)
            if ok:
                c.append(tuple(d[o] for o in out))
            else:
                miss = True
        cand[k], may_miss[k] = c, miss
    ki = [out.index(k) for k in key]
    seen = {}
    for g in got:
        k = tuple(g[i] for i in ki)
        if k in seen:
            return f"two rows for the group {dict(zip(key, k))}: {seen[k]} and {tuple(g)} (take 1 keeps one row per group)"
        seen[k] = tuple(g)
        if k not in cand:
            return f"row {tuple(g)} belongs to no group of the input"
        if tuple(g) not in cand[k]:
            return f"row {tuple(g)} is not a row of its group pushed through the tail (candidates {cand[k][:4]})"
    for k in cand:
        if k not in seen and not may_miss[k]:
            return f"the group {dict(zip(key, k))} is missing although every row of it passes the filters"
    return None


def classify(prog, sql, why):
    """signature of the listed finding: the partition is narrower than the frame at the take, DISTINCT was chosen, and a later
    transform keeps a non-key column in the SELECT DISTINCT list"""
    if "two rows for the group" in why and "DISTINCT" in sql.upper() and "ROW_NUMBER" not in sql.upper():
        return "distinct-judged-on-final-frame"
    return None


def run(ctx, targets=("sql.sqlite", "sql.generic")):
    progs = programs()
    dbs = instances()
    nbad = 0
    reqs = [{"op": "compile", "prql": p["prql"], "target": t} for p in progs for t in targets]
    ans = iter(vh_batch(reqs))
    for p in progs:
        for t in targets:
            a = next(ans)
            if "sql" not in a:
                ctx.count("group-first:rejected-by-compiler")
                continue
            for rows in dbs:
                names, got, err = relgen.run_sqlite(SCHEMA, [rows], a["sql"])
                got = align(names, got, p["out"])
                ctx.case((p["prql"], str(rows), t), nontrivial=bool(got))
                why = err if err is not None else admissible(p, rows, got)
                if why is None and names is not None and [n.lower() for n in names] != p["out"]:
                    why = None      # column names / order are C05's subject
                ctx.count("group-first:" + ("ok" if why is None else "fail"))
                if why is None:
                    continue
                nbad += 1
                fid = classify(p, a["sql"], why)
                ctx.oracle_failure(fid, f"group-first: {why}",
                                   {"prql": p["prql"], "target": t, "db": [rows], "schema": SCHEMA, "sql": a["sql"], "observed_rows": got,
                                    "detail": why, "class": fid}, det_key=(p["prql"], str(rows), t))
    ctx.coverage_extra["group_first_programs"] = len(progs)
    return nbad
