"""Directed stream for C03: the order of the LEFT input of a join is retained - for every join side.

The reference semantics Model.Rel leaves the position of the padded rows of a right / full join (rows without a left
partner) unspecified, so the sequence comparison of the general streams does not judge such programs. What the property
says regardless: the rows that DO stem from the left input keep the order of the most recent sort. The stream enumerates
sort direction x sort column x join side x tail (x a let boundary between sort and join), runs the emitted SQL on SQLite
and checks (a) the bag of rows against rows computed here, (b) that the sub-sequence of rows with a left part is in the
order of the sort.
"""
import itertools
from vlib import vh_batch
import relgen

PRELUDE = "module default_db {\n  let l <[{k = int, v = int}]>\n  let r <[{k2 = int, w = int}]>\n}\n\n"
SCHEMA = [("l", [("k", relgen.INT), ("v", relgen.INT)]), ("r", [("k2", relgen.INT), ("w", relgen.INT)])]
DBS = [
    [[(3, 30), (1, 10), (2, 20), (5, 50)], [(2, 7), (9, 1), (1, 3), (8, -2), (2, 4)]],
    [[(10, 1), (7, 2), (8, 3)], [(100, 5)]],
    [[(4, 9), (6, 8)], []],
    [[], [(1, 1)]],
]
SORTS = [("sort k", "k", False), ("sort {-k}", "k", True), ("sort v", "v", False), ("sort {-v}", "v", True)]
SIDES = ["inner", "left", "right", "full"]
TAILS = [
    ("", ["k", "v", "k2", "w"], None),
    ("select {l.k, l.v, r.w}\n", ["k", "v", "w"], None),
    ("derive {d = v + 1}\nselect {k, v, d, k2}\n", ["k", "v", "d", "k2"], None),
    ("filter (w > 0 || w == null)\nselect {k, v, w}\n", ["k", "v", "w"], lambda d: d["w"] is None or d["w"] > 0),
]


def programs():
    out = []
    for (stext, scol, desc), side, (ttext, outn, flt), boundary in itertools.product(SORTS, SIDES, TAILS, (False, True)):
        if boundary:
            text = f"let s = (from l | {stext})\n\nfrom s\njoin side:{side} r (s.k == r.k2)\n" + ttext.replace("l.", "s.")
        else:
            text = f"from l\n{stext}\njoin side:{side} r (l.k == r.k2)\n" + ttext
        out.append({"prql": PRELUDE + text, "scol": scol, "desc": desc, "side": side, "out": outn, "flt": flt})
    return out



def align(names, rows, expected):
    """rows with their columns put into the order of `expected` when the returned names are a permutation of it (the ORDER of result
    columns is C05's subject and, after `group`, varies from call to call: listed C11 leak wildcard-equal-order-choice)"""
    if names is None or rows is None:
        return rows
    low = [n.lower() for n in names]
    if low != list(expected) and sorted(low) == sorted(expected) and len(set(low)) == len(low):
        idx = [low.index(e) for e in expected]
        return [[r[i] for i in idx] for r in rows]
    return rows

def expected(prog, db):
    L, R = db
    rows = []
    for (k, v) in L:
        ms = [(k2, w) for (k2, w) in R if k is not None and k2 == k]
        if ms:
            rows += [dict(k=k, v=v, k2=k2, w=w) for (k2, w) in ms]
        elif prog["side"] in ("left", "full"):
            rows.append(dict(k=k, v=v, k2=None, w=None))
    if prog["side"] in ("right", "full"):
        for (k2, w) in R:
            if not any(k is not None and k == k2 for (k, _) in L):
                rows.append(dict(k=None, v=None, k2=k2, w=w))
    for d in rows:
        d["d"] = None if d["v"] is None else d["v"] + 1
    if prog["flt"]:
        rows = [d for d in rows if prog["flt"](d)]
    return [tuple(d[n] for n in prog["out"]) for d in rows]


def key(t):
    return tuple((0, 0) if v is None else (1, v) for v in t)


def run(ctx, targets=("sql.sqlite", "sql.generic")):
    progs = programs()
    reqs = [{"op": "compile", "prql": p["prql"], "target": t} for p in progs for t in targets]
    ans = iter(vh_batch(reqs))
    nbad = 0
    for p in progs:
        for t in targets:
            a = next(ans)
            if "sql" not in a:
                ctx.count("join-order:rejected-by-compiler")
                continue
            for db in DBS:
                names, got, err = relgen.run_sqlite(SCHEMA, db, a["sql"])
                got = align(names, got, p["out"])
                ctx.case((p["prql"], str(db), t), nontrivial=bool(got))
                why = None
                if err is not None:
                    why = "SQLite rejects the emitted SQL: " + err
                else:
                    exp = expected(p, db)
                    got_t = [tuple(r) for r in got]
                    if sorted(map(key, got_t)) != sorted(map(key, exp)):
                        why = f"rows differ (as a bag): expected {sorted(exp, key=key)[:6]}, SQLite returns {sorted(got_t, key=key)[:6]}"
                    else:
                        i = p["out"].index(p["scol"])
                        ki = p["out"].index("k")
                        seq = [g[i] for g in got_t if g[ki] is not None]        # rows with a left part (k is never NULL in l)
                        want = sorted(seq, reverse=p["desc"])
                        if seq != want:
                            why = (f"the rows that stem from the left input are not in the order of `{'-' if p['desc'] else ''}{p['scol']}`: "
                                   f"{seq} (join side {p['side']})")
                ctx.count(f"join-order:{p['side']}:" + ("ok" if why is None else "fail"))
                if why is None:
                    continue
                nbad += 1
                # listed finding: the ORDER BY carried over a let boundary names the column by its old relation (`ORDER BY l.k` over CTE `s`)
                fid = "orderby-column-out-of-scope" if err is not None and "no such column" in err and "ORDER BY" in a["sql"].upper() else None
                ctx.oracle_failure(fid, "join-order: " + why,
                                   {"prql": p["prql"], "target": t, "db": db, "schema": SCHEMA, "sql": a["sql"], "observed_rows": got, "detail": why},
                                   det_key=(p["prql"], str(db), t))
                break
    ctx.coverage_extra["join_order_programs"] = len(progs)
    return nbad
