"""writes MANIFEST.json from the table below (keeps it schema-valid)"""
import json, os
ROOT = os.path.abspath(os.path.join(os.path.dirname(os.path.abspath(__file__)), ".."))
NOTE = ("Trusted: Lean 4.33 kernel; axioms within {propext, Classical.choice, Quot.sound} (audited per theorem on every run); "
        "the translators in tools/gen.py; the correspondence harness (Rust crate /verif/harness + tools/*.py); ")
CHECKS = {
    "C18": dict(
        text="Lean theorems (option_overrides, header_decides, neither_is_generic, unknown_header_is_error, targetFromStr_ok_iff, "
             "option_eq_header) over a model of Target::from_str and the dialect decision of compile_query, with the dialect enumeration "
             "regenerated from dialect.rs on every run; tied to the code by running the full option x header matrix and name mutations "
             "through the real compiler and the model.",
        note="the theorem option_eq_header speaks about any SQL generator that is a function of (RQ, chosen dialect); that the real "
             "generator reads the header only through this decision is validated by the exhaustive matrix run, not proved.",
        technique="Lean 4 proof over regenerated dialect table + exhaustive option x header correspondence", ref="4/C18"),
}
NOT_APPLICABLE = {}

def main():
    props = [json.loads(l)["id"] for l in open(os.path.join(ROOT, "properties.jsonl"))]
    m = {
        "version": 1,
        "setup_cmd": "./setup.sh",
        "hooks": {"guard": "verif (cargo feature of prqlc and prqlc-parser, off by default)",
                  "enable": "harness is built with `cargo build --features hooks`, which turns on prqlc/verif and prqlc-parser/verif when /repo provides them",
                  "baseline_off_cmd": "cd /repo && cargo nextest run --workspace --no-fail-fast --test-threads 8 --offline || cargo test --workspace --no-fail-fast --offline",
                  "source_commits": [], "add_only": True},
        "engines": [{"name": "lean-model", "path": "/verif/lean", "serves_properties": sorted(CHECKS),
                     "kind_free_text": "Lean 4 model + theorems (lake project PrqlModel, driver exe drv)"},
                    {"name": "vh", "path": "/verif/harness", "serves_properties": sorted(CHECKS),
                     "kind_free_text": "Rust line-protocol harness calling prqlc in-process"}],
        "checks": [],
        "notes": "All checks: ./check <id> --tier quick|thorough; see DESIGN.md.",
        "not_applicable": [],
    }
    for pid in props:
        if pid in CHECKS:
            c = CHECKS[pid]
            m["checks"].append({
                "property_id": pid,
                "quick_cmd": f"./check {pid} --tier quick",
                "thorough_cmd": f"./check {pid} --tier thorough",
                "evidence_file": f"/verif/evidence/{pid}.json",
                "replay_cmd_template": f"./check {pid} --replay {{path}}",
                "engine": "lean-model",
                "level_claimed": {"category": "proof", "text": c["text"], "design_ref": c["ref"]},
                "level_note": NOTE + c["note"],
                "technique": c["technique"],
            })
        else:
            m["not_applicable"].append({"property_id": pid, "reason": NOT_APPLICABLE.get(pid, "check not built yet (work in progress); not claimed in this commit")})
    json.dump(m, open(os.path.join(ROOT, "MANIFEST.json"), "w"), indent=1)

main()
