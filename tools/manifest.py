"""writes MANIFEST.json from the table below (keeps it schema-valid)"""
import json, os
ROOT = os.path.abspath(os.path.join(os.path.dirname(os.path.abspath(__file__)), ".."))
NOTE = ("Trusted: Lean 4.33 kernel; axioms within {propext, Classical.choice, Quot.sound} (audited per theorem on every run); "
        "the translators in tools/gen.py; the correspondence harness (Rust crate /verif/harness + tools/*.py); ")
import glob, importlib, sys
sys.path.insert(0, os.path.join(ROOT, "tools"))
CHECKS = {}
for f in sorted(glob.glob(os.path.join(ROOT, "tools", "props", "c[0-9]*.py"))):
    mod = importlib.import_module("props." + os.path.basename(f)[:-3])
    if getattr(mod, "MANIFEST", None):
        CHECKS[os.path.basename(f)[:-3].upper()] = mod.MANIFEST
NOT_APPLICABLE = {}

def main():
    props = [json.loads(l)["id"] for l in open(os.path.join(ROOT, "properties.jsonl"))]
    m = {
        "version": 1,
        "setup_cmd": "./setup.sh",
        "hooks": {"guard": "verif (cargo feature of prqlc, off by default)",
                  "enable": "harness is built with `cargo build --features hooks`, which turns on prqlc/verif when /repo provides it (falls back to a build without hooks otherwise)",
                  "baseline_off_cmd": "cd /repo && cargo nextest run --workspace --no-fail-fast --test-threads 8 --offline || cargo test --workspace --no-fail-fast --offline",
                  "source_commits": ["aba13a9", "c639c7f", "bf3dc9c", "cb7d822", "0c16ac0", "2449bda", "6355f84", "ed15649", "187d4c0", "09fdec1", "afd1fb4", "7f0b4c5", "6f601a5", "9541d73", "df49f7b", "91ab92a", "b336c3d"], "add_only": True},
        "engines": [{"name": "lean-model", "path": "/verif/lean", "serves_properties": sorted(CHECKS),
                     "kind_free_text": "Lean 4 model + theorems (lake project PrqlModel, driver exe drv)"},
                    {"name": "vh", "path": "/verif/harness", "serves_properties": sorted(CHECKS),
                     "kind_free_text": "Rust line-protocol harness calling prqlc in-process"}],
        "checks": [],
        "notes": "All checks: ./check <id> --tier quick|thorough; see DESIGN.md.",
        "not_applicable": [],
    }
    for pid in props:
        if pid in CHECKS:
            c = CHECKS[pid]
            m["checks"].append({
                "property_id": pid,
                "quick_cmd": f"./check {pid} --tier quick",
                "thorough_cmd": f"./check {pid} --tier thorough",
                "evidence_file": f"/verif/evidence/{pid}.json",
                "replay_cmd_template": f"./check {pid} --replay {{path}}",
                "engine": "lean-model",
                "level_claimed": {"category": "proof", "text": c["text"], "design_ref": c["ref"]},
                "level_note": NOTE + c["note"],
                "technique": c["technique"],
            })
        else:
            m["not_applicable"].append({"property_id": pid, "reason": NOT_APPLICABLE.get(pid, "check not built yet (work in progress); not claimed in this commit")})
    json.dump(m, open(os.path.join(ROOT, "MANIFEST.json"), "w"), indent=1)

main()
