#!/bin/bash
# Isolated bench for trying a patch against the checks without touching /repo (used while other work depends on /repo):
#   tools/mutbench.sh <patch.diff> <Cxx> [<Cyy> ...]      (env TIER=quick|thorough, SEED=n)
# Uses /tmp/vbench (the COMMITTED state of /verif, build output kept between runs) and /tmp/mutrepo (worktree of /repo HEAD
# with the patch applied).
set -e
PATCH=$1; shift
BENCH=${BENCH:-/tmp/vbench}; MREPO=${MREPO:-/tmp/mutrepo}
mkdir -p $BENCH
git -C /verif archive HEAD | tar -x -C $BENCH
[ -d $BENCH/harness/target ] || cp -r /verif/harness/target $BENCH/harness/target
[ -d $BENCH/lean/.lake ] || cp -r /verif/lean/.lake $BENCH/lean/.lake
if [ ! -d $MREPO ]; then git -C /repo worktree add --detach -q $MREPO HEAD; fi
git -C $MREPO checkout -q --detach $(git -C /repo rev-parse HEAD); git -C $MREPO checkout -q -- . ; git -C $MREPO clean -fdq -e target
if [ "$PATCH" != "none" ]; then git -C $MREPO apply "$PATCH"; fi
sed -i "s|/repo/prqlc|$MREPO/prqlc|g" $BENCH/harness/Cargo.toml
cd $BENCH
for P in "$@"; do
  VERIF_REPO=$MREPO ./check $P --tier ${TIER:-quick} --seed ${SEED:-1} 2>&1 | grep -v "^KNOWN-FINDING" | tail -${TAIL:-4}
done
git -C $MREPO checkout -q -- .
