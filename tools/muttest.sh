#!/bin/bash
# tools/muttest.sh <dir-prefix> <prop> <m> <checks...> : bench-run + demo confirmation; appends to /tmp/mut_results.txt
# e.g. tools/muttest.sh /tmp/mut5_ C09 m5 C09
PRE=$1; P=$2; M=$3; shift; shift; shift
D=${PRE}$(echo $P | tr A-Z a-z)
OUT=$(TAIL=1 /verif/tools/mutbench.sh $D/_deliver/$M/patch.diff "$@" 2>&1 | grep "^\[C")
( cd $D && git apply _deliver/$M/patch.diff && (bash _deliver/$M/demo.sh > /tmp/demo_${P}_$M.with 2>&1; echo "demo-with-exit=$?" > /tmp/demo_${P}_$M.rc); git checkout -q -- . ; (bash _deliver/$M/demo.sh > /tmp/demo_${P}_$M.without 2>&1; echo "demo-without-exit=$?" >> /tmp/demo_${P}_$M.rc) )
echo "== $P-$M: $(cat /tmp/demo_${P}_$M.rc | tr '\n' ' ')" >> /tmp/mut_results.txt
echo "$OUT" | sed 's/evaluations.*wall/… wall/' >> /tmp/mut_results.txt
