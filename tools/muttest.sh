#!/bin/bash
# tools/muttest.sh <prop> <m> <checks...> : bench-run + demo confirmation; appends a line to /tmp/mut_results.txt
P=$1; M=$2; shift; shift
D=/tmp/mut_$(echo $P | tr A-Z a-z)
OUT=$(TAIL=1 /verif/tools/mutbench.sh $D/_deliver/$M/patch.diff "$@" 2>&1 | grep "^\[C")
( cd $D && git apply _deliver/$M/patch.diff && (bash _deliver/$M/demo.sh > /tmp/demo_${P}_$M.with 2>&1; echo "demo-with-exit=$?" > /tmp/demo_${P}_$M.rc); git checkout -q -- . ; (bash _deliver/$M/demo.sh > /tmp/demo_${P}_$M.without 2>&1; echo "demo-without-exit=$?" >> /tmp/demo_${P}_$M.rc) )
echo "== $P-$M: $(cat /tmp/demo_${P}_$M.rc | tr '\n' ' ')" >> /tmp/mut_results.txt
echo "$OUT" | sed 's/evaluations.*wall/… wall/' >> /tmp/mut_results.txt
