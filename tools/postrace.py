"""Tie of the mirror of the positional mapper (lean/PrqlModel/Model/Positional.lean) to sql/pq/positional_mapping.rs.

The cargo feature `verif` records every call of compute_positional_mappings (pipeline, selected columns, result),
compute_and_store_mapping (before, after, instance, what is stored afterwards) and activate_mapping (instance, the mapping
that became active); the effect of apply_active_mapping is visible in the split trace of extract_atomic (the columns the
pipeline ends with / the requested output). All of them are replayed: the constraints call by call, the mapper as one state
machine per compilation."""
import json
from vlib import vh_batch, drv_batch


class Shape(Exception):
    pass


def cids(l):
    return ",".join(str(c) for c in l)


def tr(t):
    if isinstance(t, dict) and len(t) == 1:
        (tag, v), = t.items()
        if tag in ("Union", "Except", "Intersect"):
            return f"u{v['bottom']}"
        if tag == "Super" and isinstance(v, dict) and len(v) == 1:
            (tag, v), = v.items()
            if tag == "Compute":
                return f"c{v['id']}"
            if tag == "Select":
                return "s" + cids(v)
            if tag == "Aggregate":
                return "a" + cids(v["compute"])
    return "o"


def opt(m):
    return "-" if m is None else "m" + cids(m)


def requests(events):
    """events of one compilation -> (constraint requests [(line, expected, ev)], (ops line, expected answers, evs))"""
    cons, ops, exp, evs = [], [], [], []
    for ev in events:
        k = ev.get("event")
        if k == "pm_constraints":
            sel = "-" if ev["selected"] is None else "s" + cids(ev["selected"])
            line = f"posconstraints\t{sel}\t{';'.join(tr(t) for t in ev['pipeline'])}"
            cons.append((line, ";".join(f"{r}:{cids(cs)}" for r, cs in ev["constraints"]), ev))
        elif k == "pm_store":
            ops.append(f"S|{cids(ev['before'])}|{cids(ev['after'])}|{ev['riid']}")
            exp.append(opt(ev["stored"]))
            evs.append(ev)
        elif k == "pm_activate":
            ops.append(f"A|{ev['riid']}")
            exp.append(opt(ev["active"]))
            evs.append(ev)
        elif k == "split" and ev.get("select_columns") is not None:
            ops.append(f"P|{cids(ev['select_columns'])}")
            exp.append(cids(ev["output"]))
            evs.append({"event": "apply", "select_columns": ev["select_columns"], "output": ev["output"]})
    return cons, ("posrun\t" + ";".join(ops), exp, evs)


def run_suite(ctx, progs, label, targets=("sql.sqlite",)):
    reqs = [{"op": "hook_split_trace", "prql": p, "target": t} for p in progs for t in targets]
    meta = [(p, t) for p in progs for t in targets]
    ans = vh_batch(reqs)
    if ans and any(isinstance(a, dict) and a.get("no_hooks") for a in ans[:3]):
        return 0, 0, False
    items = []
    for (p, t), a in zip(meta, ans):
        evs = (a or {}).get("events") or []
        if not any(e.get("event", "").startswith("pm_") for e in evs):
            continue
        cons, run = requests(evs)
        items.append((p, t, cons, run))
    lines = []
    for _, _, cons, run in items:
        lines += [c[0] for c in cons] + [run[0]]
    res = iter(drv_batch(lines))
    n = bad = 0
    for p, t, cons, (rline, rexp, revs) in items:
        for line, exp, ev in cons:
            a = next(res)
            n += 1
            ctx.case(("pos", line))
            ctx.count(f"{label}:constraints:{'selected' if ev['selected'] is not None else 'all'}:{'with-setop' if exp else 'none'}")
            if a != exp:
                bad += 1
                ctx.disagreement("positional-constraints", f"compute_positional_mappings differs from Model.Positional.constraints: real `{exp}` vs model `{a}`",
                                 {"prql": p, "target": t, "request": line, "model": a, "real": exp})
        a = next(res)
        got = a.split(";") if rexp else []
        ctx.case(("pos", rline))
        for i, e in enumerate(rexp):
            n += 1
            kind = revs[i]["event"]
            if kind == "apply":
                ctx.count(f"{label}:apply:{'re-projected' if revs[i]['select_columns'] != revs[i]['output'] else 'unchanged'}")
            else:
                ctx.count(f"{label}:{kind}:{'mapping' if e != '-' else 'none'}")
            g = got[i] if i < len(got) else None
            if g != e:
                bad += 1
                ctx.disagreement("positional-mapper", f"the positional mapper differs from Model.Positional at step {i} ({kind}): real `{e}` vs model `{g}`",
                                 {"prql": p, "target": t, "request": rline, "model": a, "real": rexp, "step": revs[i]})
                break
    return n, bad, True
