"""Tie of the mirror of the preprocess stages (lean/PrqlModel/Model/Preprocess.lean) to sql/pq/preprocess.rs.

The cargo feature `verif` of /repo brackets the four stages distinct / union / except / intersect of every `preprocess`
call made while a program is compiled (op `hook_split_trace` of the harness): the pipeline handed in, the pipeline
returned (or the error), the columns of the relation instances, the wildcard column ids and the dialect flags.
Each recorded stage call is replayed through the Lean function of the same name and the whole output must agree.
Values the stages do not look at (computes, sorts, expressions other than the equality / null / range shapes) are
interned: equal values get equal numbers, so agreement of the numbers is agreement of the values.
"""
import json
from vlib import vh_batch, drv_batch


class Shape(Exception):
    pass


class Intern:
    def __init__(self):
        self.ids = {}

    def __call__(self, v):
        k = json.dumps(v, sort_keys=True)
        return self.ids.setdefault(k, len(self.ids))


def strip_span(e):
    if isinstance(e, dict):
        return {k: strip_span(v) for k, v in e.items() if k != "span"}
    if isinstance(e, list):
        return [strip_span(x) for x in e]
    return e


BIN = {"std.eq": "E", "std.and": "A", "std.gte": "G", "std.lte": "L"}


def pe(e, it):
    k = e["kind"]
    if isinstance(k, dict) and len(k) == 1:
        (tag, v), = k.items()
        if tag == "ColumnRef":
            return f"c{v}"
        if tag == "Literal":
            if v == "Null":
                return "n"
            if isinstance(v, dict) and "Integer" in v:
                return f"i{v['Integer']}"
            if v == {"Boolean": True}:
                return "t"
        if tag == "Operator" and v["name"] in BIN and len(v["args"]) == 2:
            return f"{BIN[v['name']]} {pe(v['args'][0], it)} {pe(v['args'][1], it)}"
    return f"o{it(strip_span(k))}"


def cids(l):
    return ",".join(str(c) for c in l)


def css(l):
    out = []
    for s in l:
        d = s.get("direction", "Asc")
        if d not in ("Asc", "Desc"):
            raise Shape(f"sort direction {d}")
        out.append(f"{s['column']}{'a' if d == 'Asc' else 'd'}")
    return ",".join(out)


def bd(e):
    if e is None:
        return "-"
    k = e["kind"]
    if isinstance(k, dict) and isinstance(k.get("Literal"), dict) and "Integer" in k["Literal"]:
        return f"i{k['Literal']['Integer']}"
    return "x"


SIDE = {"Inner": "I", "Left": "L", "Right": "R", "Full": "F"}


def row_number(c):
    """the compute create_filter_by_row_number declares, or None"""
    if c.get("is_aggregation"):
        return None
    if strip_span(c["expr"]["kind"]) != {"SString": [{"String": "ROW_NUMBER()"}]}:
        return None
    w = c.get("window")
    if not w:
        return None
    fr = strip_span(w.get("frame"))
    if fr == {"kind": "Rows", "range": {"start": None, "end": None}}:
        f = "R"
    elif fr == {"kind": "Range", "range": {"start": None, "end": {"kind": {"Literal": {"Integer": 0}}}}}:
        f = "G"
    else:
        return None
    return f"rownumber|{c['id']}|{f}|{cids(w.get('partition', []))}|{css(w.get('sort', []))}"


def tr(t, instances, it):
    def inst(r):
        if str(r) not in instances:
            raise Shape(f"unknown relation instance {r}")
        return cids(instances[str(r)]["cids"])
    if t == "Distinct":
        return "distinct"
    if not isinstance(t, dict) or len(t) != 1:
        raise Shape(f"transform {t!r}")
    (tag, v), = t.items()
    if tag == "From":
        return "from|" + inst(v)
    if tag == "Join":
        return f"join|{SIDE[v['side']]}|{inst(v['with'])}|{pe(v['filter'], it)}"
    if tag == "Sort":
        return "sqlsort|" + css(v)
    if tag == "DistinctOn":
        return "distincton|" + cids(v)
    if tag in ("Union", "Except", "Intersect"):
        return f"{tag.lower()}|{inst(v['bottom'])}|{1 if v['distinct'] else 0}"
    if tag != "Super":
        raise Shape(f"transform {tag}")
    if not isinstance(v, dict) or len(v) != 1:
        return f"other|{it(strip_span(v))}"
    (tag, v), = v.items()
    if tag == "Take":
        r = v["range"]
        return f"take|{bd(r.get('start'))}|{bd(r.get('end'))}|{cids(v.get('partition', []))}|{css(v.get('sort', []))}"
    if tag == "Filter":
        return "filter|" + pe(v, it)
    if tag == "Select":
        return "select|" + cids(v)
    if tag == "Aggregate":
        return f"aggregate|{cids(v['partition'])}|{cids(v['compute'])}"
    if tag == "Append":
        return "append|" + cids(c for (_, c) in v["columns"])
    if tag == "Compute":
        rn = row_number(v)
        if rn is not None:
            return rn
    return f"other|{it(strip_span({tag: v}))}"


def pipe(p, instances, it):
    return ";".join(tr(t, instances, it) for t in p)


def first_generated(inp, out):
    """the column id the stage drew first from the generator (the ROW_NUMBER column that the input does not have)"""
    have = set()
    for t in inp:
        if isinstance(t, dict) and "Super" in t and isinstance(t["Super"], dict) and "Compute" in t["Super"]:
            have.add(t["Super"]["Compute"]["id"])
    new = []
    for t in out or []:
        if isinstance(t, dict) and "Super" in t and isinstance(t["Super"], dict) and "Compute" in t["Super"]:
            c = t["Super"]["Compute"]
            if c["id"] not in have and row_number(c) is not None:
                new.append(c["id"])
    return min(new) if new else 0


def request(ev):
    """one recorded stage call -> (drv line, expected answer)"""
    it = Intern()
    inst = ev["instances"]
    stage = ev["stage"]
    cfg = f"{int(bool(ev['supports_distinct_on']))}|{int(bool(ev['except_all']))}|{int(bool(ev['intersect_all']))}|{cids(ev['wildcards'])}"
    p = pipe(ev["input"], inst, it)
    out = ev.get("output")
    if stage == "prune_inputs":
        before = ev.get("instances_before")
        reads = ev.get("reads")
        if before is None or reads is None or len(reads) != len(ev["input"]):
            raise Shape("the trace does not record the instances before the stage / what each transform reads")
        infos = ";".join("n" if r is None else f"s:{cids(r)}:-" for r in reads)
        line = f"pprune\t{pipe(ev['input'], before, it)}\t{infos}"
        if out is None:
            return line, "err"
        if [json.dumps(strip_span(x), sort_keys=True) for x in out] != [json.dumps(strip_span(x), sort_keys=True) for x in ev["input"]]:
            raise Shape("prune_inputs changed the transforms themselves")
        after = []
        for t in out:
            if isinstance(t, dict) and "From" in t:
                after.append(cids(inst[str(t["From"])]["cids"]))
            elif isinstance(t, dict) and "Join" in t:
                after.append(cids(inst[str(t["Join"]["with"])]["cids"]))
        return line, "ok " + "/".join(after)
    if stage == "distinct":
        nxt = first_generated(ev["input"], out)
        reads = ev.get("reads")
        if reads is None or len(reads) != len(ev["input"]):
            raise Shape("the trace does not record what each transform reads")
        infos = []
        for t, r in zip(ev["input"], reads):
            if r is None:
                infos.append("n")
                continue
            d = "-"
            if isinstance(t, dict) and isinstance(t.get("Super"), dict) and "Compute" in t["Super"]:
                d = str(t["Super"]["Compute"]["id"])
            infos.append(f"s:{cids(r)}:{d}")
        line = f"pdistinct\t{cfg}\t{nxt}\t{p}\t{';'.join(infos)}"
        if out is None:
            return line, "err"
        n_new = len(pipe_new_ids(ev["input"], out))
        return line, f"ok next={nxt + n_new} {pipe(out, inst, it)}"
    if stage == "union":
        line = f"punion\t{p}"
    elif stage == "except":
        line = f"pexcept\t{cfg}\t{p}"
    elif stage == "intersect":
        line = f"pintersect\t{cfg}\t{p}"
    else:
        raise Shape(f"stage {stage}")
    if out is None:
        return line, "err"
    return line, f"ok {pipe(out, inst, it)}"


def pipe_new_ids(inp, out):
    have = set()
    for t in inp:
        if isinstance(t, dict) and "Super" in t and isinstance(t["Super"], dict) and "Compute" in t["Super"]:
            have.add(t["Super"]["Compute"]["id"])
    new = set()
    for t in out:
        if isinstance(t, dict) and "Super" in t and isinstance(t["Super"], dict) and "Compute" in t["Super"]:
            if t["Super"]["Compute"]["id"] not in have:
                new.add(t["Super"]["Compute"]["id"])
    return new


def what_happened(stage, line, exp):
    """coverage label of one replayed call"""
    if exp == "err":
        return "error"
    a = exp.split(" ", 2 if stage == "distinct" else 1)[-1]
    if stage == "prune_inputs":
        before = "/".join(x.split("|")[-1] if x.startswith("from|") else x.split("|")[2] for x in line.split("\t")[1].split(";") if x.startswith(("from|", "join|")))
        return "unchanged" if exp == "ok " + before else "pruned"
    inp = line.split("\t")[3 if stage == "distinct" else -1]
    if a == inp:
        return "unchanged"
    toks = [x.split("|")[0] for x in a.split(";")]
    if stage == "distinct":
        k = [lab for tok, lab in (("rownumber", "row-number"), ("distincton", "distinct-on"), ("distinct", "distinct")) if tok in toks and tok not in [x.split("|")[0] for x in inp.split(";")]]
        return "+".join(k) or "changed"
    d = any(x.startswith(stage + "|") and x.endswith("|1") for x in a.split(";"))
    return "rewritten" + (":distinct" if d else ":all")


def run_suite(ctx, progs, label, targets=("sql.sqlite",), answers=None):
    """progs: list of PRQL sources. Returns (#stage calls compared, #mismatches, hooks available)"""
    if answers is None:
        reqs = [{"op": "hook_split_trace", "prql": p, "target": t} for p in progs for t in targets]
        answers = vh_batch(reqs)
    meta = [(p, t) for p in progs for t in targets]
    if answers and any(isinstance(a, dict) and a.get("no_hooks") for a in answers[:3]):
        return 0, 0, False
    items = []
    for (p, t), a in zip(meta, answers):
        for ev in (a or {}).get("events") or []:
            if ev.get("event") != "preprocess_stage":
                continue
            try:
                line, exp = request(ev)
                items.append((p, t, ev, line, exp))
            except (Shape, KeyError, TypeError, ValueError) as e:
                items.append((p, t, ev, None, str(e)))
    res = iter(drv_batch([it[3] for it in items if it[3] is not None]))
    n = bad = 0
    for p, t, ev, line, exp in items:
        if line is None:
            bad += 1
            ctx.count(f"{label}:unrecognised-shape")
            ctx.disagreement("preprocess-trace", f"trace event of an unrecognised shape: {exp}", {"prql": p, "target": t, "event": ev})
            continue
        a = next(res)
        n += 1
        stage = ev["stage"]
        ctx.case(("prep", line))
        ctx.count(f"{label}:{stage}:{what_happened(stage, line, exp)}")
        if a != exp:
            bad += 1
            ctx.disagreement("preprocess-" + stage, f"preprocess::{stage} differs from Model.Preprocess.{stage}: real `{exp[:400]}` vs model `{a[:400]}`",
                             {"prql": p, "target": t, "request": line, "model": a, "real": exp})
    return n, bad, True
