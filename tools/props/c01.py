"""C01 compiled SQL returns the relation the pipeline denotes."""
import json, random
import anchortrace, preptrace, grouptake, appendshapes, postrace, selecttrace
import vlib, relgen, relcheck

MANIFEST = dict(
    text="Lean theorems: the split table regenerated from anchor.rs is sound w.r.t. SQL clause order (table_sound_partial, decided on the "
         "extracted table; the full statement is refuted by table_sound_full_counterexample: Take|Distinct) and the back-to-front scan therefore never keeps two transforms in one SELECT that clause order forbids "
         "(split_respects_clause_order, for pipelines of any length); the scan of the REAL splitter - with its requirement list, complexity caps and can_materialize, mirror Model.Anchor, replayed call by call - cuts a suffix of the pipeline whose kinds are a suffix of what the table scan keeps (real_splitter_cuts_a_suffix, real_splitter_refines_table_scan: it stops where the table says or earlier, whatever the requirements), so the clause-order theorem holds for the block the real splitter forms (real_splitter_respects_clause_order); clause-order evaluation of an assembled SELECT block equals "
         "pipeline-order evaluation of every admissible segment incl. WHERE/GROUP BY/HAVING/ORDER BY/LIMIT, on the reference "
         "semantics itself (assemble_correct_rel, assemble_correct_rel_perm for sorts dropped before an aggregate, "
         "assemble_correct_rel_of_split linking admissibility to the split table); any cut of a pipeline into admissible blocks (nested sub-queries / CTEs) denotes the rows of the pipeline, so the choice of split points cannot matter (chain_correct_rel, chain_cut_independent); the join-to-INTERSECT rewrite keeps the same rows as a set exactly on NULL-free rows (join_all_mem_iff) and differs with NULLs / duplicates (setop_rewrite_*_counterexample, listed finding); column-id redirects at a split commute with evaluation (split_glue_rename); the reorder pass of the back end (mirror Model.Reorder) moves a compute only over sorts and - if it is plain - takes (reorder_moves_only_over_sorts_and_takes, nonplain_never_passes_take), such a move keeps the rows of the reference semantics for runs of any length (reorder_step_keeps_rows) and the restriction is necessary (window_not_hoisted_over_take); the stages of preprocess that introduce DISTINCT / ROW_NUMBER filters / set operations (mirror Model.Preprocess): DISTINCT only for the first row of each group without a sort when the partition is the final frame and no later transform reads a column outside of it (distinct_only_for_first_row_of_whole_frame, later_transforms_read_only_the_partition; the second condition is the repair ea940a9 - before it the pass produced SELECT DISTINCT a, b for a group over a: distinct_not_chosen_when_a_later_transform_reads_outside), DISTINCT ON only for one row on a dialect that has it (distinct_on_only_for_one_row), the first row of every group of ALL columns is each distinct row once (group_take_first_over_all_columns_is_distinct, tables of any size) and the restriction is necessary (distinct_needs_all_columns_counterexample), take 1 keeps exactly one row per key whichever row it is (group_take_one_keys_unique), a positional take is the filter on the 1-based row number and the condition written is that range (row_number_filter_is_positional_take, range_filter_means_the_range), every conjunct of the EXCEPT guard (except_rewrite_guard), no Append and no partitioned Take survives the four stages whatever the pipeline and the dialect flags (stages_leave_only_placeable_transforms), prune_inputs keeps of every relation instance exactly the columns its own transform or a transform behind it mentions (prune_keeps_what_is_mentioned_behind), the anti-join is EXCEPT as a set exactly on NULL-free rows (anti_join_is_except_on_null_free_rows, except_rewrite_null_counterexample); the clause assembly of translate_select_pipeline (mirror Model.SelectPipe): plucking the transforms by kind places every clause where placing them one after the other does - WHERE = the filters in front of the aggregate, HAVING = those after it, GROUP BY its partition, ORDER BY the last sort, LIMIT / OFFSET the composition of all takes - on every segment with at most one aggregate and no sort in front of it (pluck_is_sequential_placement; the first hypothesis follows from the split table: table_block_has_at_most_one_aggregate, real_block_has_at_most_one_aggregate; pluck_keeps_a_stale_sort shows the second one is needed and fails on the unchanged tree), and the push of the block theorem places like that sequential placement (push_places_like_pushK, assemble_places_like_pushK), and the single condition filter_of_conditions builds from the filters of a clause (e1 AND (e2 AND ..)) is true on a row exactly when every filter is (joined_condition_means_all_filters, three-valued, any number of filters): the real clause assembly is thereby tied to assemble_correct_rel; documented edge cases "
         "on the reference semantics. Ties: every recorded call of translate_select_pipeline is replayed through Model.SelectPipe.parts; every call of preprocess::reorder, split_off_back and anchor_split and every stage call prune_inputs / distinct / union / except / intersect of preprocess recorded while compiling a corpus (cargo feature verif; five dialects for the stages) is replayed through the Lean mirrors (exact agreement); `group K (take 1)` followed by row-wise transforms is judged against the set of ADMISSIBLE results (one row per group, a row of the group pushed through the tail); the reference semantics Model.Rel.evalSrc (Lean, executable) is compared with the rows "
         "SQLite returns for the SQL the real compiler emits, on generated programs x database instances (sqlite and generic targets).",
    note="assemble_correct_rel* are proved on Model.Rel itself (filter/derive/select/sort/take/aggregate/group-aggregate with HAVING; "
         "Lemmas/RelBlock*.lean), the older assemble_correct* on an integer-valued core; group-take, window, join and append are outside "
         "the block theorem; the splitter mirror (Model.Anchor, scope theorems under C07) and the clause-assembly mirror (Model.SelectPipe) are connected to the block theorem at the level of clause placement (which transform lands in which clause), not yet by a full compiler-correctness proof over expressions and column ids, and the front end (resolver, lowering), normalize of preprocess and moves of windowed computes over a Sort are not modelled: they are covered by the differential run "
         "against the reference semantics only. SQLite 3.40 value semantics trusted. Floats, dates, loop, s-strings outside the core.",
    technique="Lean 4 proofs over regenerated split table + block normal form + mirrored reorder / split / distinct / set-operation passes (replayed from recorded calls); reference-semantics differential run on SQLite", ref="4/C01")

SAFE = dict(declared=True, shared_k=False, append_inline=True, open_take=False, dup_names=False, shapes=True)
FULL = dict(declared=True, shared_k=True, append_inline=False, open_take=True, dup_names=True, shapes=True)
RICH = dict(declared=False, shared_k=False, append_inline=True, open_take=False, dup_names=False, literal=True, functions=True, shapes=True)
UNDECL = dict(declared=False, shared_k=False, append_inline=True, open_take=False, dup_names=False, shapes=True)


# undeclared relations (their column lists contain a wildcard): the set-operation stages must fall back or report the dialect error
DIRECTED_STAGE_PROGRAMS = [
    "from t | remove u", "from t | intersect u", "from t | select {a, b} | remove (from u | select {a, b})",
    "from t | select {a, b} | intersect (from u | select {a, b})", "from t | append u | group this (take 1)",
    "from t | select {a, b} | group {a, b} (take 1) | remove (from u | select {a, b})",
    "from t | select {a, b} | intersect (from u | select {a, b}) | group {a, b} (take 1)",
    "from t | select {a, b} | group {a, b} (take 1) | intersect (from u | select {a, b}) | group {a, b} (take 1)",
    "from t | select {a, b} | group {a} (take 1) | filter b > 0 | select {a}",
    "from t | select {a, b} | group {a} (sort b | take 2..) | select {a}", "from t | select {a, b} | group {a} (take ..3)",
    "from t | select {a, b} | group {a} (sort {-b} | take 1)", "from t | select {a, b} | group {a, b} (take 2..2)",
    "from t | group {a} (take 1) | select {a}", "from t | select {a, b} | append (from u | select {a, b}) | append (from v | select {a, b}) | group {a, b} (take 1)",
]


def explore(ctx, label, rng, n, profile, target, no_append=False, cases=None):
    kinds = None
    if no_append:
        kinds = ["select", "derive", "filter", "sort", "take", "aggregate", "group_agg", "group_take", "join",
                 "derive", "filter", "sort", "take"]
    if cases is None:
        cases = [relgen.make_case(rng, kinds=kinds, **profile) for _ in range(n)]
    res = relcheck.run_cases(cases, target)
    nbad = 0
    for c, r in zip(cases, res):
        orig = c
        nontrivial = r["status"] == "ok" and r.get("mode") != "ambiguous" and bool(r.get("rows"))
        ctx.case((c.prql, str(c.db), target), nontrivial=nontrivial)
        ctx.count(f"{label}:{r['status']}" + (":" + r.get("mode", "") if r["status"] == "ok" else ""))
        for k in set(c.kinds):
            ctx.count("transform:" + k)
        if r.get("engine_discrepancy"):
            ctx.count("sqlite-optimizer-discrepancy (answer of the materialised query used)")
        if r["status"] == "ok":
            if len(ctx.samples) < 5 and nontrivial and len(c.sx) >= 3:
                ctx.sample({"prql": c.prql.split("}\n", 1)[-1], "target": target, "sql": r["sql"][:300], "rows": r["rows"][:3], "compared_as": r["mode"]})
            continue
        if r["status"] == "compile-error":
            ctx.count("rejected-by-compiler")     # the generator produced something the resolver rejects: not a C01 matter
            continue
        if r["status"] == "model-error":
            ctx.disagreement("evalSrc", "the Lean reference semantics could not read the case: " + r["detail"], c.to_json())
            continue
        fid = relcheck.classify(c, r, target)
        if fid is None or fid not in ctx.known:
            c2, r2 = relcheck.shrink(c, r, target)
            fid2 = relcheck.classify(c2, r2, target)
            if fid2 == fid:
                c, r = c2, r2
        nbad += 1
        ctx.oracle_failure(fid, f"{r['status']}: {r['detail']}",
                           {"prql": c.prql, "target": target, "db": c.db, "schema": c.schema_list, "sql": r.get("sql"),
                            "observed_rows": r.get("rows"), "observed_columns": r.get("names"),
                            "expected_rows": r.get("model_rows"), "expected_columns": c.columns,
                            "order_flags": r.get("flags"), "status": r["status"], "detail": r["detail"], "class": fid},
                           det_key=None if label.startswith("seed") else (orig.prql, orig.db, target))
    return nbad


def run(ctx):
    br = vlib.standard_proof_obligations(ctx, ["PrqlModel.Props.C01"], ["Split"],
        required_theorems=["join_all_mem_iff", "join_all_no_null", "setop_rewrite_null_counterexample", "setop_rewrite_multiplicity_counterexample", "chain_correct_rel", "chain_cut_independent", "table_sound_partial", "table_sound_full_counterexample", "split_respects_clause_order", "atomic_is_suffix", "assemble_correct",
                           "assemble_correct_agg", "split_glue_rename", "assemble_correct_rel", "assemble_correct_rel_perm", "assemble_correct_rel_of_split", "aggregate_order_independent_rel", "aggregate_one_row", "group_empty",
                           "count_counts_nulls", "sum_empty_is_zero", "reorder_moves_only_over_sorts_and_takes", "nonplain_never_passes_take",
                           "reorder_step_keeps_rows", "window_not_hoisted_over_take",
                           "distinct_only_for_first_row_of_whole_frame", "distinct_on_only_for_one_row", "group_take_first_over_all_columns_is_distinct",
                           "distinct_needs_all_columns_counterexample", "distinct_not_chosen_when_a_later_transform_reads_outside", "later_transforms_read_only_the_partition", "row_number_filter_is_positional_take",
                           "range_filter_means_the_range", "distinct_leaves_plain_pipelines", "union_eliminates_append", "except_rewrite_guard",
                           "anti_join_is_except_on_null_free_rows", "except_rewrite_null_counterexample", "group_take_one_keys_unique",
                           "pluck_is_sequential_placement", "pluck_keeps_a_stale_sort", "push_places_like_pushK", "assemble_places_like_pushK",
                           "stages_leave_only_placeable_transforms", "real_splitter_cuts_a_suffix", "real_splitter_refines_table_scan",
                           "real_splitter_respects_clause_order", "table_block_has_at_most_one_aggregate", "real_block_has_at_most_one_aggregate", "prune_keeps_what_is_mentioned_behind", "joined_condition_means_all_filters", "distinct_over_the_partition_is_the_group_take_projected"])
    ctx.rule = ("random well-scoped programs of the relational core (from/select/derive/filter/sort/take/aggregate/group/join/append, "
                "let tables, 1-7 transforms) with resolved positional form for the Lean reference semantics, x random database instances "
                "(0-7 rows, NULLs, duplicates, empty tables); the real SQL is executed on SQLite and compared with Model.Rel.evalSrc as a "
                "sequence when a total sort is in effect, as a bag otherwise, not at all when the row set depends on an unspecified choice; "
                "non-trivial = accepted, comparable and returning at least one row; a fixed-seed corpus runs before the VERIF_SEED tail")
    ctx.assumptions += ["SQLite (python sqlite3) value semantics for NULL/int/text; generic-dialect SQL is executed on SQLite too"]
    if not (br.cargo_ok and br.drv_ok):
        return
    quick = ctx.tier == "quick"
    nbad = 0
    # systematic part: every sequence of transform kinds up to length 2 (quick: + a fixed sample of length 3; thorough: all of
    # length 3 + a sample of length 4), independent of VERIF_SEED
    sysrng = random.Random(11)
    syscases = relgen.systematic_cases(3 if quick else 4, SAFE, sample=(sysrng, 1400 if quick else 3000))   # quick: every sequence up to length 3
    ctx.coverage_extra["systematic_sequences"] = len(syscases)
    nbad += explore(ctx, "systematic", None, 0, SAFE, "sql.sqlite", cases=syscases)
    # one relation read several times (diamonds of let-tables, append-first), and every kind sequence up to length 2 with the optional
    # shapes forced (inline join sides, joins equating every column, group pipelines ending in select/derive, `append <let>`)
    dia = relgen.diamond_cases(SAFE)
    if quick:
        dia = random.Random(12).sample(dia, 400)
    shaped = relgen.systematic_cases(2 if quick else 3, dict(SAFE, force_shape=["join_inline", "group_inner", "append_let"]), seed=17,
                                     sample=(random.Random(17), 1400), kinds=["select", "derive", "filter", "sort", "take", "aggregate", "group_take", "join", "append"])
    shaped += relgen.systematic_cases(2 if quick else 3, dict(SAFE, force_shape=["join_all"]), seed=18, sample=(random.Random(18), 400),
                                      kinds=["select", "filter", "take", "join", "aggregate", "sort"])
    # duplicate column names across joined relations (profile FULL: shared column k, same-named columns allowed), every sequence of the
    # kinds that keep / drop / regroup such columns
    dupnames = relgen.systematic_cases(3, FULL, seed=19, kinds=["select", "join", "group_take", "exclude", "group_agg", "derive", "filter"],
                                       variants=1 if quick else 3)
    ctx.coverage_extra["duplicate_name_sequences"] = len(dupnames)
    nbad += explore(ctx, "duplicate-names", None, 0, FULL, "sql.sqlite", cases=dupnames)
    ctx.coverage_extra["diamond_cases"] = len(dia)
    ctx.coverage_extra["forced_shape_cases"] = len(shaped)
    nbad += explore(ctx, "diamond", None, 0, SAFE, "sql.sqlite", cases=dia)
    # the shapes the back end rewrites to INTERSECT / EXCEPT / DISTINCT (joins equating every column), on both executable targets
    setop = relgen.setop_cases(SAFE)
    ctx.coverage_extra["setop_cases"] = len(setop)
    nbad += explore(ctx, "setop", None, 0, SAFE, "sql.sqlite", cases=setop)
    nbad += explore(ctx, "setop-generic", None, 0, SAFE, "sql.generic", cases=setop)
    nbad += explore(ctx, "forced-shapes", None, 0, SAFE, "sql.sqlite", cases=shaped)
    # joins whose condition is (or folds to) a constant, every side, joined tables often empty - on both executable targets
    cj = relgen.const_join_cases(SAFE, variants=8 if quick else 30)
    ctx.coverage_extra["constant_join_cases"] = len(cj)
    nbad += explore(ctx, "const-join", None, 0, SAFE, "sql.sqlite", cases=cj)
    nbad += explore(ctx, "const-join-generic", None, 0, SAFE, "sql.generic", cases=cj)
    # `group K (take 1)` followed by row-wise transforms: the answer must be one of the admissible results (one row per group)
    nbad += grouptake.run(ctx)
    # set operations whose top input is pruned / reordered around them (chained derives, reordering selects, double appends)
    nbad += appendshapes.run(ctx)
    nbad += explore(ctx, "safe", random.Random(20240924), 500 if quick else 3000, SAFE, "sql.sqlite")
    nbad += explore(ctx, "safe-generic", random.Random(20240925), 200 if quick else 1500, SAFE, "sql.generic")
    nbad += explore(ctx, "literals+functions", random.Random(20240926), 250 if quick else 2000, RICH, "sql.sqlite")
    nbad += explore(ctx, "full", random.Random(20240927), 200 if quick else 1500, FULL, "sql.sqlite")
    nbad += explore(ctx, "undeclared", random.Random(20240928), 150 if quick else 1000, UNDECL, "sql.sqlite", no_append=False)
    nbad += explore(ctx, "seed-tail", ctx.rng, 300 if quick else 3000, SAFE, "sql.sqlite")
    # the back-end passes that are mirrored in Lean (reorder, split_off_back, anchor_split): every recorded call replayed
    tprogs = [c.prql for c in syscases[:500 if quick else 3000]] + [c.prql for c in dia[:200 if quick else 1500]]
    n_ev, n_bad, hooked = anchortrace.run_suite(ctx, tprogs, "passes", targets=("sql.sqlite", "sql.generic"))
    if hooked:
        ctx.obligation("correspondence: preprocess::reorder = Model.Reorder.reorderTr, split_off_back / anchor_split = Model.Anchor on every recorded call",
                       n_bad == 0 and n_ev > 0, f"{n_ev} recorded calls replayed, {n_bad} differ")
        # the stages distinct / union / except / intersect of preprocess: every recorded stage call replayed through Model.Preprocess
        # (declared and undeclared tables; sqlite / mssql: no EXCEPT ALL, postgres / duckdb: DISTINCT ON, generic: everything)
        sprogs = DIRECTED_STAGE_PROGRAMS + [c.prql for c in setop] + [c.prql for c in relgen.setop_cases(UNDECL, seed=22)] + [c.prql for c in shaped[:300 if quick else 1500]] + tprogs[:400 if quick else 2500]
        n_st, n_stbad, _ = preptrace.run_suite(ctx, sprogs, "stages", targets=("sql.sqlite", "sql.generic", "sql.postgres", "sql.mssql", "sql.duckdb"))
        # chains of takes in one SELECT (open and closed ranges): the folded LIMIT / OFFSET is part of the replayed call
        rngs = ["..4", "3..", "2..5", "3..10", "5..5", "1..2"]
        chains = [f"from t | select {{a, b}} | take {x} | take {y}" for x in rngs for y in rngs] + \
                 [f"from t | sort a | take {x} | take {y} | take {z}" for x in rngs[:4] for y in rngs[:4] for z in rngs[:3]]
        # ... and judged: the rows of `sort a | take .. | take ..` over 12 distinct rows are the positions the takes select one after the other
        def py_take(rows, r):
            lo, hi = r.split("..")
            lo = int(lo) if lo else 1
            return rows[lo - 1:] if not hi else rows[lo - 1:int(hi)]
        sorted_chains = [(f"from t | sort a | take {x} | take {y}", (x, y)) for x in rngs for y in rngs] + \
                        [(f"from t | sort a | take {x} | take {y} | take {z}", (x, y, z)) for x in rngs[:4] for y in rngs[:4] for z in rngs[:3]]
        tdb = [(i, 100 - i) for i in range(1, 13)]
        for (prog, rs), a_ in zip(sorted_chains, vlib.vh_batch([{"op": "compile", "prql": p_, "target": "sql.sqlite"} for p_, _ in sorted_chains])):
            if "sql" not in a_:
                continue
            want = list(tdb)
            for r_ in rs:
                want = py_take(want, r_)
            names_, got_, err_ = relgen.run_sqlite([("t", [("a", relgen.INT), ("b", relgen.INT)])], [tdb], a_["sql"])
            ctx.case(("take-chain", prog), nontrivial=True)
            ctx.count("take-chain:" + ("ok" if err_ is None and [tuple(x) for x in got_] == want else "fail"))
            if err_ is not None or [tuple(x) for x in got_] != want:
                nbad += 1
                # listed finding: an open-ended take becomes OFFSET without LIMIT, which SQLite does not parse
                fid_ = "offset-without-limit" if err_ is not None and "OFFSET" in err_ and " LIMIT " not in a_["sql"] else None
                ctx.oracle_failure(fid_, f"take chain: `{prog}` returns {got_ if err_ is None else err_}, the takes select {want}",
                                   {"prql": prog, "target": "sql.sqlite", "sql": a_["sql"], "db": [tdb], "schema": [("t", [("a", "int"), ("b", "int")])],
                                    "observed_rows": got_, "expected_rows": want}, det_key=(prog, "take-chain"))
        n_sp, n_spbad, _ = selecttrace.run_suite(ctx, chains + sprogs[:900 if quick else 4000] + tprogs[:300 if quick else 2000], "clauses", targets=("sql.sqlite", "sql.postgres", "sql.mssql"))
        ctx.obligation("correspondence: translate_select_pipeline (projection, WHERE / HAVING split at the aggregate, GROUP BY, last ORDER BY, folded LIMIT / OFFSET, DISTINCT / DISTINCT ON) = Model.SelectPipe.parts on every recorded call",
                       n_spbad == 0 and n_sp > 0, f"{n_sp} recorded calls replayed, {n_spbad} differ")
        n_pm, n_pmbad, _ = postrace.run_suite(ctx, [p_["prql"] for p_ in appendshapes.programs()] + sprogs[:600 if quick else 3000], "positional", targets=("sql.sqlite", "sql.postgres"))
        ctx.obligation("correspondence: the positional mapper (compute_positional_mappings, compute_and_store_mapping, activate_mapping, apply_active_mapping) = Model.Positional on every recorded call",
                       n_pmbad == 0 and n_pm > 0, f"{n_pm} recorded calls replayed, {n_pmbad} differ")
        ctx.obligation("correspondence: preprocess::{prune_inputs, distinct, union, except, intersect} = Model.Preprocess on every recorded stage call",
                       n_stbad == 0 and n_st > 0, f"{n_st} recorded stage calls replayed, {n_stbad} differ")
    else:
        ctx.assumptions.append("the trace hooks are not available in this tree: the pass mirrors were not compared this run")
    ctx.obligation("oracle: real SQL on SQLite returns the rows of Model.Rel.evalSrc (all unlisted cases)", not [v for v in ctx.violations if v["kind"] == "failing-input"],
                   f"{nbad} failing cases, all but {len(ctx.violations)} match listed findings")


def replay(obj):
    if obj.get("kind") in ("no-failing-input-found", "correspondence") or obj.get("correspondence"):
        return vlib.replay_correspondence(obj)
    r = obj.get("replay", obj)
    print(json.dumps({k: r.get(k) for k in ("prql", "target", "sql", "status", "detail", "observed_rows", "expected_rows")}, indent=1))
    if "prql" in r:
        a = vlib.vh_batch([{"op": "compile", "prql": r["prql"], "target": r.get("target", "sql.sqlite")}])[0]
        print("now:", a)
        if "sql" in a and r.get("schema"):
            print(relgen.run_sqlite([(n, [tuple(x) for x in cols]) for n, cols in r["schema"]], r["db"], a["sql"]))
    return 0
