"""C02 operator precedence, associativity, null and literal folding survive to SQL."""
import json, math, re
import vlib
from vlib import vh_batch, drv_batch, dec
import exprgen as G

MANIFEST = dict(
    text="Lean theorems over tables regenerated from parser/expr.rs, ast_expand.rs, std.sql.prql and gen_expr.rs: pratt_table_is_documented, "
         "pratt_parses_tree (generic round-trip theorem for precedence climbing with prefix operators, instantiated with the extracted "
         "Pratt table), expand/static-evaluation soundness (partial + counterexample: folding to a literal null changes `== null`), "
         "sql_print_parse (emitter strengths vs SQLite's grammar: partial + counterexamples for comparison chains etc.), per-operator "
         "SQL meaning. Ties: every (parent, child, side) operator triple at depth 2, again under one more level, literal-folding cases and "
         "random trees of depth <= 6 are compiled by the real compiler for sqlite and generic: RQ tree vs the model's staticEval(expand(tree)), "
         "SQL text vs the model's sqlPrint, and the value SQLite returns over {NULL,-7,-1,0,1,2,7}^3 vs the documented meaning evalDoc; the same triples with a compound operand NAMED first (derive, then use: the back end inlines the definition) must give the text of the in-place form; a condition split over several `filter` transforms must give the WHERE text of the conjunction written in place (each filter parenthesised like an operand of AND); "
         "the Lean SQLite semantics (sqlParse, evalS) is validated against the real SQLite on the same rows.",
    note="reals are exact rationals in the model; SQLite results are compared with tolerance where a non-dyadic rational or POW occurs, "
         "and rows whose truth value depends on an inexact intermediate are not judged. Text values (regex, concat) have no documented "
         "value in the model and are covered by the RQ/SQL text correspondence only. Division by zero is taken to yield NULL.",
    technique="Lean 4 proofs over regenerated operator tables + exhaustive operator-triple correspondence + SQLite value oracle", ref="4/C02")

DIALECTS = ["sqlite", "generic"]
LEAF = ("col", "null", "int", "bool", "float", "str")
SQLITE_PREC = {"Eq": 4, "Ne": 4, "Lt": 5, "Lte": 5, "Gt": 5, "Gte": 5}


def parse_expr_answer(line):
    out = {}
    for f in line.split("\t"):
        if "=" in f:
            k, v = f.split("=", 1)
            out[k] = v
    if "src" not in out:
        return None
    out["src"] = dec(out["src"])
    out["sql"] = None if out.get("sql") == "-" else dec(out.get("sql", ""))
    return out


class Ev:
    """batch evaluation of (tree, dialect) through model, compiler and SQLite, with caching"""

    def __init__(self, ctx):
        self.ctx = ctx
        self.oracle = G.Oracle()
        self.res = {}
        self.rq = {}

    def ensure(self, trees):
        trees = [t for t in dict.fromkeys(trees) if (t, DIALECTS[0]) not in self.res]
        if not trees:
            return
        lines = [f"c02expr\t{d}\t{G.sexp(t)}" for t in trees for d in DIALECTS]
        model = [parse_expr_answer(a) for a in drv_batch(lines)]
        reqs = []
        for i, t in enumerate(trees):
            m = model[i * len(DIALECTS)]
            src = m["src"] if m else "null"
            prog = G.PRELUDE + "from t | select {v = " + src + "}"
            reqs.append({"op": "rq", "prql": prog})
            for d in DIALECTS:
                reqs.append({"op": "compile", "prql": prog, "target": "sql." + d})
            reqs.append({"op": "rq", "prql": G.PRELUDE + "from t | select {v = " + G.full_paren(t) + "}"})
        ans = vh_batch(reqs)
        step = 2 + len(DIALECTS)
        evl = [f"c02eval\t{d}\t{G.sexp(t)}\t{G.NCOLS}\t" + " ".join("N" if v is None else str(v) for v in G.DOMAIN)
               for t in trees for d in DIALECTS]
        evals = drv_batch(evl, shards=vlib.NCPU if len(evl) >= 64 else 1)
        for i, t in enumerate(trees):
            rq_a, rq_full = ans[i * step], ans[i * step + step - 1]
            rq_txt = G.rq_select_expr(rq_a["rq"]) if "rq" in rq_a else None
            rq_full_txt = G.rq_select_expr(rq_full["rq"]) if "rq" in rq_full else None
            for j, d in enumerate(DIALECTS):
                m = model[i * len(DIALECTS) + j]
                c = ans[i * step + 1 + j]
                r = dict(tree=t, dialect=d, model=m, rq=rq_txt, rq_full=rq_full_txt, rq_err=None if "rq" in rq_a else rq_a,
                         sql=None, err=None, vals=None, exec_err=None, rows=None)
                if "sql" in c:
                    full = c["sql"]
                    mm = re.fullmatch(r"SELECT (.*) AS v FROM t", full, re.S)
                    r["sql"] = mm.group(1) if mm else full
                    r["full_sql"] = full
                else:
                    r["err"] = c
                ev = evals[i * len(DIALECTS) + j]
                if ev and not ev.startswith("err") and not ev.startswith("crash") and ev != "bad-op":
                    r["rows"] = [x.split(" ") for x in ev.split(";")]
                if r["sql"] is not None:
                    r["vals"], r["exec_err"] = self.oracle.run(r["full_sql"])
                self.res[(t, d)] = r

    # --- judgement of one (tree, dialect): list of (row index, expected, observed) oracle mismatches
    def oracle_mismatches(self, t, d, limit=3, vals=None, exec_err=None):
        r = self.res[(t, d)]
        if vals is not None or exec_err is not None:
            r = dict(r, vals=vals, exec_err=exec_err)
        if r["rows"] is None or r["sql"] is None:
            return [], {}
        stats = {"rows": 0, "undefined": 0, "inexact_unjudged": 0, "judged": 0}
        docs = [x[0] for x in r["rows"]]
        if all(x.rstrip("~") == "U" for x in docs):
            stats["undefined"] = len(docs)
            return [], stats
        if r["exec_err"]:
            return [("exec", None, r["exec_err"])], stats
        bad = []
        for i, (dv, obs) in enumerate(zip(docs, r["vals"])):
            stats["rows"] += 1
            inexact = dv.endswith("~")
            dv = dv.rstrip("~")
            if dv == "U":
                stats["undefined"] += 1
                continue
            if dv == "N":
                ok = obs is None
            elif obs is None or isinstance(obs, (str, bytes)):
                ok = False
            else:
                x, _ = G.parse_rat(dv)
                if abs(x) > 2 ** 53 or (isinstance(obs, float) and (math.isinf(obs) or math.isnan(obs))):
                    stats["undefined"] += 1
                    continue
                ok = abs(float(x) - float(obs)) <= 1e-9 * max(1.0, abs(float(x)))
            if not ok and inexact:
                stats["inexact_unjudged"] += 1
                continue
            stats["judged"] += 1
            if not ok:
                bad.append((i, dv, obs))
                if len(bad) >= limit:
                    break
        return bad, stats

    def evals_mismatches(self, t, d):
        """Lean SQLite semantics (evalS of sqlParse of the MODEL's text) vs the real SQLite, only when the texts agree"""
        r = self.res[(t, d)]
        if r["rows"] is None or r["vals"] is None or r["model"] is None or r["model"]["sql"] != r["sql"]:
            return None
        bad = []
        for i, (x, obs) in enumerate(zip(r["rows"], r["vals"])):
            sv = x[1] if len(x) > 1 else "P"
            if sv in ("P", "U"):
                continue
            inexact = x[0].endswith("~")
            if sv == "N":
                ok = obs is None
            elif obs is None:
                ok = False
            else:
                kind, val = sv.split(":")
                v, _ = G.parse_rat(val)
                if abs(v) > 2 ** 53:
                    continue
                ok = abs(float(v) - float(obs)) <= 1e-9 * max(1.0, abs(float(v)))
                if ok and not inexact:
                    ok = (kind == "i") == isinstance(obs, int)
            if not ok and not inexact:
                bad.append((i, sv, obs))
                if len(bad) >= 3:
                    break
        return bad


def top_ops(t):
    return (t[0], t[1] if t[0] in ("un", "bin", "call2", "fn1") else None)


def doc_at(ev, t, d, i):
    if t[0] == "col":
        v = ev.oracle.rows[i][t[1]]
        return "N" if v is None else v
    if t[0] in ("int", "bool"):
        return t[1]
    if t[0] == "null":
        return "N"
    if t[0] == "float":
        return t[1] / 10 ** t[2]
    r = ev.res.get((t, d))
    if not r or r["rows"] is None:
        return None
    v = r["rows"][i][0].rstrip("~")
    if v in ("U", "N"):
        return v
    return G.parse_rat(v)[0]


def is_cmp(t):
    return t[0] == "bin" and t[1] in G.CMP


def strip_plus(t):
    """look through what leaves no trace in RQ: unary plus; a call of `f_o x y` is `x o y`"""
    while t[0] == "un" and t[1] == "Add":
        t = t[2]
    if t[0] == "call2":
        t = ("bin", t[1], t[2], t[3])
    if t[0] == "in" and (t[2][0] == "null") != (t[3][0] == "null"):      # one open bound: a plain comparison
        t = ("bin", "Lte", t[1], t[3]) if t[2][0] == "null" else ("bin", "Gte", t[1], t[2])
    return t


def loose_for_between(t):
    """operand whose top operator SQLite puts at or below BETWEEN"""
    t = strip_plus(t)
    if t[0] == "bin":
        return t[1] in G.CMP + ["And", "Or", "RegexSearch"]
    if t[0] == "un":
        return t[1] == "Not" or loose_for_between(t[2]) and False
    if t[0] == "in":
        return t[2][0] != "null" and t[3][0] != "null"
    return False


def cmp_op(t):
    """the comparison operator on top of t after expansion, or None (`x | in lo..` is `x >= lo`)"""
    t = strip_plus(t)
    if t[0] == "bin" and t[1] in G.CMP:
        return t[1]
    if t[0] == "in" and (t[2][0] == "null") != (t[3][0] == "null"):
        return "Lte" if t[2][0] == "null" else "Gte"
    return None


def strip_un(t):
    t = strip_plus(t)
    while t[0] == "un":
        t = strip_plus(t[2])
    return t


def is_between(t):
    return t[0] == "in" and t[2][0] != "null" and t[3][0] != "null"


def syntactic_defects(t):
    """known parenthesisation defects at any node of t (pure syntax; the value decides nothing here)"""
    out = []
    for n in G.nodes(t):
        n = strip_plus(n)
        kids = [strip_plus(c) for c in G.children(n)]
        if is_between(n) and any(loose_for_between(x) for x in n[1:4]):
            out.append("between-inner-operand-not-parenthesised")
        if not is_between(n) and n[0] in ("bin", "un", "fn1", "in") and any(is_between(strip_un(c)) for c in kids) and n[0] != "fn1":
            out.append("between-operand-not-parenthesised")
        if n[0] == "bin":
            op, l, rr = n[1], kids[0], kids[1]
            if op in G.CMP:
                for side, ch in (("L", l), ("R", rr)):
                    co = cmp_op(ch)
                    if co:
                        p, c = SQLITE_PREC[op], SQLITE_PREC[co]
                        if (side == "L" and not p <= c) or (side == "R" and not p < c):
                            out.append("comparison-chain-not-parenthesised")
            if op == "Mul":
                x = rr           # `a * (x % y * z …)`: the bare right operand starts with a `%`
                while x[0] == "bin" and x[1] == "Mul":
                    x = strip_plus(x[2])
                if x[0] == "bin" and x[1] == "Mod":
                    out.append("mul-right-operand-mod-not-parenthesised")
            for ch in (l, rr):
                while ch[0] == "un" and ch[1] == "Neg":      # `-{l}` does not parenthesise the product either
                    ch = strip_plus(ch[2])
                if ch[0] == "bin" and ch[1] == "DivInt" and op in ("Mod", "DivFloat", "DivInt"):
                    out.append("div_i-template-product-not-parenthesised")
    return out


def classify(ev, m, d, bad):
    """known-finding id for the MINIMAL failing tree m (its children pass on their own), or None"""
    r = ev.res[(m, d)]
    m0 = m
    m = strip_plus(m)
    k = m[0]
    i = bad[0][0]
    rq = (r["model"] or {}).get("rq", "")
    if r["sql"] is not None and "--" in r["sql"]:
        return "double-minus-is-a-comment"
    if m0[0] == "in" and m0[2][0] != "null" and m0[3][0] != "null" and not rq.startswith("(between"):
        return "null-literal-created-by-folding"      # a bound became the literal null: `in` reads it as an open bound
    if k == "bin":
        op, l, rr = m[1], strip_plus(m[2]), strip_plus(m[3])
        vl = doc_at(ev, l, d, i) if isinstance(i, int) else None
        vr = doc_at(ev, rr, d, i) if isinstance(i, int) else None
        num = lambda v: isinstance(v, (int, float))
        integral = lambda v: num(v) and float(v) == int(v)
        if op == "DivInt" and d == "sqlite" and integral(vl) and integral(vr) and 0 < abs(vl) < abs(vr):
            return "sqlite-div_i-small-quotient"
        if op == "DivFloat" and d == "generic" and integral(vl) and integral(vr) and vr != 0 and vl % vr != 0:
            return "generic-div_f-integer-division"
        if op in ("Eq", "Ne") and m[2][0] != "null" and m[3][0] != "null" \
                and (re.match(r"\(op std\.(eq|ne) \(null\) ", rq) or re.search(r" \(null\)\)$", rq)):
            return "null-literal-created-by-folding"
        if op == "Mul" and d == "generic" and rr[0] == "bin" and rr[1] == "DivFloat":
            return "generic-div_f-integer-division"
    syn = syntactic_defects(m0)
    return syn[0] if syn else None


def run(ctx):
    br = vlib.standard_proof_obligations(ctx, ["PrqlModel.Props.C02"], ["Pratt", "Expand", "SqlOps"],
        required_theorems=["pratt_table_is_documented", "pratt_parses_tree", "static_eval_sound_counterexample", "static_eval_sound_partial",
                           "expand_sound_partial", "expand_sound_counterexample", "resolved_tree_meaning", "emitter_not_compatible",
                           "sql_print_parse_partial", "sql_print_parse_counterexample", "sql_tree_meaning", "sql_div_i_meaning_partial",
                           "sql_div_i_counterexample", "survives_counterexample_comparison_chain", "survives_counterexample_null_folding",
                           "sql_print_double_minus", "survives_double_minus", "neg_under_neg_parenthesised"])
    ctx.rule = ("a case = (expression tree, dialect in {sqlite, generic}); trees: every (parent, child, side) triple of the 17 binary and 3 unary "
                "operators at depth 2 (exhaustive), each again under one more level (quick: one rotating context per triple; thorough: all "
                "contexts), literal-folding cases, random trees of depth <= 6 with case / in / calls / literal and null leaves; compared: RQ tree, "
                "SQL text, SQLite value over {NULL,-7,-1,0,1,2,7}^3 vs evalDoc; non-trivial = the compiler accepted the program and at "
                "least one row was judged against the oracle")
    ctx.assumptions += ["division by zero yields NULL (the book is silent; SQL convention)",
                        "booleans are the numbers 0/1 in the oracle domain (SQLite has no boolean type)",
                        "`/` results and POW are compared with relative tolerance 1e-9 on the oracle side (SQLite computes IEEE doubles, the model exact rationals)"]
    if not (br.cargo_ok and br.drv_ok):
        return
    quick = ctx.tier == "quick"
    ev = Ev(ctx)

    # ---------------- suites
    suites = []
    tri = G.triples()
    suites.append(("triples-depth2", [t for t, _ in tri]))
    ctxs = G.contexts()
    lvl3 = []
    if quick:
        for n, (t, _) in enumerate(tri):
            lvl3.append(ctxs[(n * 7 + ctx.seed) % len(ctxs)][1](t))
    else:
        for (t, _) in tri:
            for _, f in ctxs:
                lvl3.append(f(t))
    suites.append(("triples-under-one-more-level", lvl3))
    suites.append(("literal-folding", G.folding_cases()))
    nrand = 500 if quick else 6000
    rnd = []
    while len(rnd) < nrand:
        t = G.random_tree(ctx.rng, ctx.rng.randint(2, 6))
        if t[0] not in LEAF and G.size(t) <= 40:
            rnd.append(t)
    suites.append(("random-depth<=6", rnd))
    ctx.exhaustive = False

    # ---------------- parser tie: flat operator strings, model parse vs real parse
    parser_tie(ctx, quick)

    total_bad = {"rq": 0, "sql": 0, "evals": 0, "reparse": 0, "prec": 0}
    nprec = 0
    failing = []   # (tree, dialect, bad)
    agg = {"rows": 0, "undefined": 0, "inexact_unjudged": 0, "judged": 0}
    for name, trees in suites:
        trees = list(dict.fromkeys(trees))
        ev.ensure(trees)
        nrej = 0
        for t in trees:
            for d in DIALECTS:
                r = ev.res[(t, d)]
                m = r["model"]
                ctx.count(f"suite={name}")
                if m is None:
                    ctx.disagreement(name, "model driver gave no answer", {"tree": G.sexp(t)})
                    continue
                if d == DIALECTS[0]:
                    ctx.count(f"depth={G.depth(t)}")
                    if m.get("reparse") == "bad":
                        total_bad["reparse"] += 1
                        ctx.disagreement("model printer/parser", "Model.Pratt.parseToks (srcToks e) != e", {"tree": G.sexp(t), "src": m["src"]})
                    if r["rq"] is None:
                        nrej += 1
                        ctx.case((name, t, "rejected"), nontrivial=False)
                        reason = (r["rq_err"].get("errors") or [{}])[0].get("reason", str(r["rq_err"])[:100]) if isinstance(r["rq_err"], dict) else ""
                        ctx.count("rejected: " + re.sub(r"`[^`]*`", "`…`", str(reason))[:60])
                    else:
                        if r["rq"] != m["rq"]:
                            total_bad["rq"] += 1
                            ctx.disagreement(name + ": RQ tree", f"RQ of `{m['src']}` is {r['rq']}, model staticEval(expand) gives {m['rq']}",
                                             {"tree": G.sexp(t), "src": m["src"], "real": r["rq"], "model": m["rq"]})
                        if r["rq_full"] is not None and r["rq_full"] != r["rq"]:
                            total_bad["rq"] += 1
                            ctx.oracle_failure(None, f"minimal and full parenthesisation of the same tree resolve differently: `{m['src']}` vs `{G.full_paren(t)}`",
                                               {"tree": G.sexp(t), "min": m["src"], "full": G.full_paren(t)})
                if r["rq"] is None:
                    continue
                if r["sql"] is None:
                    if m["sql"] is not None:
                        ctx.count("rejected by the SQL backend")
                        e0 = (r["err"].get("errors") or [{}])[0].get("reason", "") if isinstance(r["err"], dict) else ""
                        if "panic" in (r["err"] or {}):
                            ctx.oracle_failure(None, f"compile panicked on `{m['src']}`", {"tree": G.sexp(t), "src": m["src"], "dialect": d, "observed": r["err"]})
                        elif not ("not supported" in str(e0)):
                            total_bad["sql"] += 1
                            ctx.disagreement(name + ": SQL text", f"{d}: compiler rejects `{m['src']}` ({e0}); model prints {m['sql']}",
                                             {"tree": G.sexp(t), "dialect": d, "src": m["src"]})
                    ctx.case((name, t, d), nontrivial=False)
                    continue
                if m.get("prec") == "ok":
                    nprec += 1
                elif m.get("prec") == "bad":
                    total_bad["prec"] += 1
                    ctx.disagreement("emitter as PrecU printer", f"{d}: tokens of `{m['sql']}` differ from PrecU.pr npEmit (toTree …)", {"tree": G.sexp(t), "dialect": d})
                if m["sql"] != r["sql"]:
                    total_bad["sql"] += 1
                    ctx.disagreement(name + ": SQL text", f"{d}: `{m['src']}` compiles to `{r['sql']}`, model sqlPrint gives `{m['sql']}`",
                                     {"tree": G.sexp(t), "dialect": d, "src": m["src"], "real": r["sql"], "model": m["sql"]})
                bad, st = ev.oracle_mismatches(t, d)
                for k2 in agg:
                    agg[k2] += st.get(k2, 0)
                ctx.case((name, t, d), nontrivial=st.get("judged", 0) > 0)
                if len(ctx.samples) < 5 and st.get("judged", 0) > 0 and G.depth(t) >= 3:
                    ctx.sample({"suite": name, "prql": "from t | select {v = " + m["src"] + "}", "dialect": d, "sql": r["sql"], "rows_judged": st["judged"]})
                if bad:
                    failing.append((t, d, bad, name))
                eb = ev.evals_mismatches(t, d)
                if eb:
                    total_bad["evals"] += 1
                    ctx.disagreement("Lean SQLite semantics vs SQLite", f"`{r['sql']}`: row {eb[0][0]}: Lean evalS {eb[0][1]}, SQLite {eb[0][2]!r}",
                                     {"sql": r["sql"], "row": G.Oracle().rows[eb[0][0]], "lean": eb[0][1], "sqlite": eb[0][2]})
        ctx.count(f"rejected in {name}", nrej)
    ctx.coverage_extra["oracle_rows"] = agg

    # ---------------- shrink failing trees to minimal failing sub-expressions, classify
    minimal = {}
    work = [(t, d) for (t, d, _, _) in failing]
    origin = {(t, d): (t, name) for (t, d, _, name) in failing}
    seen = set()
    while work:
        kids = []
        for (t, d) in work:
            kids += [c for c in G.children(t) if c[0] not in LEAF]
        ev.ensure(kids)
        nxt = []
        for (t, d) in work:
            if (t, d) in seen:
                continue
            seen.add((t, d))
            sub = []
            for c in G.children(t):
                if c[0] in LEAF:
                    continue
                b, _ = ev.oracle_mismatches(c, d)
                if b:
                    sub.append(c)
            if sub:
                for c in sub:
                    origin.setdefault((c, d), origin[(t, d)])
                    nxt.append((c, d))
            else:
                minimal[(t, d)] = origin[(t, d)]
        work = nxt
    for (m, d), (orig, name) in minimal.items():
        # leaves of the minimal tree may be compound in the original: also make sure the children's values are available
        ev.ensure([c for c in (strip_plus(x) for x in G.children(strip_plus(m))) if c[0] not in LEAF])
        bad, _ = ev.oracle_mismatches(m, d)
        r = ev.res[(m, d)]
        fid = classify(ev, m, d, bad)
        row = G.Oracle().rows[bad[0][0]] if isinstance(bad[0][0], int) else None
        what = (f"{d}: `{r['model']['src']}` -> `{r['sql']}`: " +
                (f"row (a,b,c)={row}: documented value {bad[0][1]}, SQLite returns {bad[0][2]!r}" if row is not None else f"SQLite: {bad[0][2]}"))
        ctx.oracle_failure(fid, what, {"prql": G.PRELUDE + "from t | select {v = " + r["model"]["src"] + "}", "dialect": d, "tree": G.sexp(m),
                                       "sql": r["sql"], "row": row, "expected": bad[0][1], "observed": bad[0][2], "found_in": G.sexp(orig), "suite": name})
    ctx.coverage_extra["minimal_failing_trees"] = len(minimal)
    concat_suite(ctx, ev)
    alias_suite(ctx, ev, suites[0][1] + suites[1][1])
    filter_chain_suite(ctx, ev, suites[0][1])
    ctx.obligation("correspondence: RQ tree = staticEval (expand tree)", total_bad["rq"] == 0, f"{total_bad['rq']} differences")
    ctx.obligation("correspondence: SQL text = sqlPrint (sqlite, generic)", total_bad["sql"] == 0, f"{total_bad['sql']} differences")
    ctx.obligation("correspondence: Model.Pratt parses what Model.Pratt prints", total_bad["reparse"] == 0, "")
    ctx.obligation("correspondence: sqlPrint = PrecU.pr npEmit on the operator fragment (ties theorem sql_print_parse_partial to the text printer)",
                   total_bad["prec"] == 0 and nprec > 0, f"{nprec} expressions in the fragment, {total_bad['prec']} differ")
    ctx.obligation("tie C: Lean sqlParse/evalS = SQLite on the emitted expressions", total_bad["evals"] == 0, f"{total_bad['evals']} expressions differ")


def alias_suite(ctx, ev, trees):
    """the same expressions with a compound operand NAMED first (`derive {d = <operand>} | select {v = <parent over d>}`): the back
    end inlines the column definition into the SELECT (translate_cid), and the inlined text has to be parenthesised exactly like the
    operand written in place. Expected: the SQL text of the in-place program (which the suites above tie to sqlPrint and judge against
    the documented value); on a difference the values SQLite returns are judged against the documented values of the tree."""
    D = ("col", 3)      # printed as `d`
    items = []
    for t in dict.fromkeys(trees):
        kids = G.children(t)
        if t[0] not in ("bin", "un"):
            continue
        for i, ch in enumerate(kids):
            if ch[0] in LEAF or any(n == D for n in G.nodes(t)):
                continue
            parent = t[:len(t) - len(kids)] + tuple(D if j == i else k for j, k in enumerate(kids))
            for d in DIALECTS:
                r = ev.res.get((t, d))
                if r is None or r["sql"] is None or r["rq"] is None:
                    continue
                prog = G.PRELUDE + "from t | derive {d = " + G.full_paren(ch) + "} | select {v = " + G.full_paren(parent) + "}"
                items.append((t, d, i, prog, r))
            break      # the first compound operand
    ans = vh_batch([{"op": "compile", "prql": prog, "target": "sql." + d} for (_, d, _, prog, _) in items])
    ndiff = nbad = 0
    for (t, d, i, prog, r), a in zip(items, ans):
        ctx.case(("alias", t, d), nontrivial=True)
        ctx.count("suite=operand-named-first")
        if "sql" not in a:
            ndiff += 1
            ctx.disagreement("operand named first", f"{d}: the program with the operand named first is rejected: {str(a)[:200]}", {"prql": prog, "dialect": d})
            continue
        mm = re.fullmatch(r"SELECT (.*) AS v FROM t", a["sql"], re.S)
        txt = mm.group(1) if mm else a["sql"]
        if txt == r["sql"]:
            continue
        if mm is None:
            ctx.count("operand-named-first: the operand is materialised in a CTE (not compared)")
            continue
        vals, err = ev.oracle.run(a["sql"])
        bad, st = ev.oracle_mismatches(t, d, vals=vals, exec_err=err)
        inline_bad, _ = ev.oracle_mismatches(t, d)
        ctx.count("operand-named-first: text differs from the in-place form")
        if bad and not inline_bad:
            nbad += 1
            row = G.Oracle().rows[bad[0][0]] if isinstance(bad[0][0], int) else None
            ctx.oracle_failure(None, f"{d}: operand named first: `{txt}` (in place: `{r['sql']}`): " +
                               (f"row (a,b,c)={row}: documented value {bad[0][1]}, SQLite returns {bad[0][2]!r}" if row is not None else f"SQLite: {bad[0][2]}"),
                               {"prql": prog, "dialect": d, "tree": G.sexp(t), "sql": a["sql"], "inline_sql": r["full_sql"], "row": row,
                                "expected": bad[0][1], "observed": bad[0][2]})
        elif not bad and not inline_bad and st.get("judged", 0) > 0:
            ndiff += 1
            ctx.disagreement("operand named first", f"{d}: `{txt}` differs from the in-place form `{r['sql']}` (values agree with the documented ones)",
                             {"prql": prog, "dialect": d, "real": txt, "inline": r["sql"]})
    ctx.obligation("correspondence: an operand named first (derive, then use) is inlined with the parentheses of the in-place operand",
                   ndiff == 0 and nbad == 0 and len(items) > 0, f"{len(items)} programs, {ndiff} texts differ harmlessly, {nbad} change a value")


def filter_chain_suite(ctx, ev, trees):
    """one condition written as SEVERAL `filter` transforms (`filter L | filter R`): the back end joins the filters of one SELECT with
    AND (filter_of_conditions), and each of them has to be parenthesised like an operand of that AND. Expected: the WHERE text is the
    text of `L && R` written in place; on a difference, the rows the WHERE keeps are judged against the rows on which the in-place
    expression is true."""
    a, b, c = ("col", 0), ("col", 1), ("col", 2)
    conds = [t for t in dict.fromkeys(trees) if t[0] == "bin" and t[1] in ("And", "Or", "Eq", "Ne", "Gt", "Lt", "Gte", "Lte", "Coalesce")
             and all(n[0] not in ("null", "int", "bool", "float", "str") for n in G.nodes(t))]
    simple = [("bin", "Gt", a, b), ("bin", "Or", ("bin", "Gt", a, b), ("bin", "Eq", b, c)), ("bin", "And", ("bin", "Lt", a, c), ("bin", "Ne", b, c)),
              ("un", "Not", ("bin", "Eq", a, c)), ("bin", "Coalesce", ("bin", "Gt", a, c), ("bin", "Lt", b, c))]
    pairs = [(l, r) for l in simple for r in conds[:60]] + [(l, r) for l in conds[:60] for r in simple]
    pairs = list(dict.fromkeys(pairs))
    whole = [("bin", "And", l, r) for (l, r) in pairs]
    ev.ensure(whole)
    items = []
    for (l, r), w in zip(pairs, whole):
        for d in DIALECTS:
            rr = ev.res.get((w, d))
            if rr is None or rr["sql"] is None or rr["rq"] is None:
                continue
            prog = G.PRELUDE + "from t | filter " + G.full_paren(l) + " | filter " + G.full_paren(r) + " | select {a, b, c}"
            items.append((w, d, prog, rr))
    ans = vh_batch([{"op": "compile", "prql": prog, "target": "sql." + d} for (_, d, prog, _) in items])
    ndiff = nbad = 0
    orc = G.Oracle()
    for (w, d, prog, rr), an in zip(items, ans):
        ctx.case(("filter-chain", w, d), nontrivial=True)
        ctx.count("suite=condition-split-over-several-filters")
        if "sql" not in an:
            ndiff += 1
            ctx.disagreement("filter chain", f"{d}: the program with the condition split over two filters is rejected: {str(an)[:200]}", {"prql": prog, "dialect": d})
            continue
        mm = re.fullmatch(r"SELECT a, b, c FROM t WHERE (.*)", an["sql"], re.S)
        if mm is not None and mm.group(1) == rr["sql"]:
            continue
        ctx.count("condition-split: WHERE text differs from the in-place conjunction")
        # judge by rows: the WHERE keeps exactly the rows on which the in-place expression is true
        try:
            got = [tuple(x) for x in orc.con.execute(an["sql"]).fetchall()]
        except Exception as e:
            got = None
        want = None
        if rr["vals"] is not None:
            want = [row for row, v in zip(orc.rows, rr["vals"]) if v not in (None, 0, 0.0)]
        inline_bad, _ = ev.oracle_mismatches(w, d)
        key = lambda t_: tuple((0, 0) if v is None else (1, v) for v in t_)
        if got is None or (want is not None and not inline_bad and sorted(map(key, got)) != sorted(map(key, want))):
            nbad += 1
            ctx.oracle_failure(None, f"{d}: a condition split over two filters keeps other rows than the conjunction written in place: `{an['sql']}` "
                               f"(in place: `{rr['sql']}`)", {"prql": prog, "dialect": d, "tree": G.sexp(w), "sql": an["sql"], "inline_sql": rr["full_sql"],
                                                             "kept": (got or [])[:6], "expected": (want or [])[:6]})
        elif mm is None:
            ctx.count("condition-split: other statement shape (judged by rows)")
        else:
            ndiff += 1
            ctx.disagreement("filter chain", f"{d}: WHERE `{mm.group(1)}` differs from the in-place conjunction `{rr['sql']}` (same rows)",
                             {"prql": prog, "dialect": d, "real": mm.group(1), "inline": rr["sql"]})
    ctx.obligation("correspondence: a condition split over several filters is joined with AND, each filter parenthesised like an operand of AND (= the conjunction in place)",
                   ndiff == 0 and nbad == 0 and len(items) > 0, f"{len(items)} programs, {ndiff} texts differ harmlessly, {nbad} keep other rows")


def concat_suite(ctx, ev):
    """f-strings on a dialect without CONCAT (sqlite): `process_concat` joins the operands with `||`"""
    py = {"Mul": lambda x, y: x * y, "Add": lambda x, y: x + y, "Sub": lambda x, y: x - y, "Eq": lambda x, y: int(x == y),
          "Lt": lambda x, y: int(x < y), "And": lambda x, y: int(bool(x) and bool(y)), "Or": lambda x, y: int(bool(x) or bool(y))}
    cases = [(None, 'f"{a}{c}"', lambda r: str(r[0]) + str(r[2])), (None, 'f"{a}-{c}"', lambda r: str(r[0]) + "-" + str(r[2]))]
    for op, f in py.items():
        cases.append((op, 'f"{x}{c}"', lambda r, f=f: str(f(r[0], r[1])) + str(r[2])))
        cases.append((op, 'f"{c}{x}"', lambda r, f=f: str(r[2]) + str(f(r[0], r[1]))))
    reqs = []
    for op, fs, _ in cases:
        pre = f"derive {{x = a {G.BIN_TEXT[op]} b}} | " if op else ""
        reqs.append({"op": "compile", "prql": G.HDR + f"from t | {pre}select {{v = {fs}}}", "target": "sql.sqlite"})
    ans = vh_batch(reqs)
    for (op, fs, want), rq, a in zip(cases, reqs, ans):
        ctx.case(("concat", op, fs))
        ctx.count("suite=f-string concat (sqlite)")
        if "sql" not in a:
            ctx.oracle_failure(None, f"f-string program rejected: {rq['prql']}", {"prql": rq["prql"], "observed": a})
            continue
        vals, err = ev.oracle.run(a["sql"])
        bad = None
        if err:
            bad = (None, None, err)
        else:
            for row, v in zip(ev.oracle.rows, vals):
                if None in row:
                    continue
                if str(v) != want(row):
                    bad = (row, want(row), v)
                    break
        if bad:
            fid = "concat-operand-not-parenthesised" if op and " || " in a["sql"] else None
            ctx.oracle_failure(fid, f"sqlite: `{rq['prql'].split(chr(10))[-1]}` -> `{a['sql']}`: row {bad[0]}: expected text {bad[1]!r}, SQLite returns {bad[2]!r}",
                               {"prql": rq["prql"], "dialect": "sqlite", "sql": a["sql"], "row": bad[0], "expected": bad[1], "observed": bad[2]})


def parser_tie(ctx, quick):
    """flat token strings over atoms, operators and parentheses: Model.Pratt.parseToks vs the real parser (PL AST)"""
    rng = ctx.rng
    toks_bin = [G.BIN_TEXT[o] for o in G.BIN]
    strings = []
    atoms = ["a", "b", "c", "d", "1", "2", "null", "true"]
    # exhaustive: a o1 b o2 c for all pairs, with and without a unary in front of each atom
    for o1 in toks_bin:
        for o2 in toks_bin:
            strings.append(["a", o1, "b", o2, "c"])
    for u in ["-", "!", "+"]:
        for o1 in toks_bin:
            strings.append([u, "a", o1, "b"])
            strings.append(["a", o1, u, "b"])
            strings.append([u, "(", "a", o1, "b", ")"])
        for u2 in ["-", "!", "+"]:
            strings.append([u, u2, "a"])
            strings.append([u, "(", u2, "a", ")"])
    n = 600 if quick else 6000
    for _ in range(n):
        s, depth = [], 0
        for k in range(rng.randint(1, 6)):
            if k:
                s.append(rng.choice(toks_bin))
            while rng.random() < 0.2:
                s.append("("); depth += 1
            if rng.random() < 0.25:
                s.append(rng.choice(["-", "!", "+"]))
                if rng.random() < 0.1:
                    s.append(rng.choice(["-", "!"]))
            s.append(rng.choice(atoms))
            while depth and rng.random() < 0.3:
                s.append(")"); depth -= 1
        s += [")"] * depth
        if rng.random() < 0.08:       # malformed stream
            i = rng.randrange(len(s))
            s = s[:i] + [rng.choice(toks_bin + ["(", ")"])] + s[i + (1 if rng.random() < 0.5 else 0):]
        strings.append(s)
    strings = [list(x) for x in dict.fromkeys(tuple(s) for s in strings)]
    model = drv_batch(["c02parse\t" + " ".join(s) for s in strings])
    # `let x = <expr>` keeps the expression out of function-call position
    real = vh_batch([{"op": "pl", "prql": "let x = (" + " ".join(s) + ")"} for s in strings])
    nbad = 0
    for s, m, r in zip(strings, model, real):
        ctx.case(("parse", tuple(s)), nontrivial=not m.startswith("err"))
        ctx.count("parser tie: " + ("parsed" if not m.startswith("err") else "rejected by the model"))
        rt = None
        if "pl" in r:
            try:
                stmts = r["pl"]["stmts"] if isinstance(r["pl"], dict) else r["pl"]
                rt = pl_expr(stmts[0]["VarDef"]["value"])
            except Exception as e:
                rt = f"(unreadable {e})"
        mt = None if m.startswith("err") else m
        if rt is not None and "(other" in rt:
            rt = None            # not an operator expression (function call, …): the operator fragment must not accept it
        if rt != mt:
            nbad += 1
            ctx.disagreement("parser tie", f"`{' '.join(s)}`: parser gives {rt}, Model.Pratt gives {mt}", {"tokens": s, "real": rt, "model": mt})
    ctx.obligation("correspondence: Model.Pratt.parseToks = prqlc-parser on operator strings (incl. malformed)", nbad == 0, f"{len(strings)} strings")


def pl_expr(e):
    """PL (PR) JSON expression -> the format of Drv.Expr.showS"""
    if "Ident" in e:
        name = e["Ident"][-1] if isinstance(e["Ident"], list) else e["Ident"]
        if name == "*":
            return "(str s:42)"
        return f"(col {ord(name) - ord('a')})" if len(name) == 1 else f"(ident {name})"
    if "Literal" in e:
        l = e["Literal"]
        if l == "Null":
            return "(null)"
        (k, v), = l.items()
        return {"Integer": f"(int {v})", "Boolean": f"(bool {1 if v else 0})"}.get(k, f"(lit {k})")
    if "Binary" in e:
        b = e["Binary"]
        return f"(bin {b['op']} {pl_expr(b['left'])} {pl_expr(b['right'])})"
    if "Unary" in e:
        u = e["Unary"]
        return f"(un {u['op']} {pl_expr(u['expr'])})"
    return "(other " + ",".join(k for k in e if k != "span") + ")"


def replay(obj):
    if obj.get("kind") in ("no-failing-input-found", "correspondence") or obj.get("correspondence"):
        return vlib.replay_correspondence(obj)
    r = obj.get("replay", obj)
    print(json.dumps(r, indent=1, default=str)[:3000])
    if "prql" in r:
        a = vh_batch([{"op": "compile", "prql": r["prql"], "target": "sql." + r.get("dialect", "sqlite")}])[0]
        print(a)
        if "sql" in a and r.get("row") is not None:
            o = G.Oracle()
            vals, err = o.run(a["sql"])
            print("sqlite:", err or vals[o.rows.index(tuple(r["row"]))], "expected:", r.get("expected"))
    return 0
