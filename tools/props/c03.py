"""C03 sort order persists through the pipeline and take selects by position."""
import itertools, json, random, re
import vlib, relgen, relcheck, sorttrace, flattrace, joinorder
from vlib import vh_batch, drv_batch
from props.c01 import SAFE, FULL

MANIFEST = dict(
    text="Lean theorems: take_positions / takes_rangeOfRanges / normalize_ok / limit_offset_ok (for any number of consecutive takes "
         "and any list, the emitted LIMIT/OFFSET pair computed by the mirror of range_of_ranges selects exactly the rows at the "
         "positions the takes select one after the other), filter_keeps_order, map_keeps_order, last_sort_wins, sort_sorted (the sort "
         "algebra the back end relies on when it keeps a single ORDER BY per block), sublist/in-place facts of the reference "
         "semantics, repeated_sort_key_never_decides / repeated_sort_key_keeps_the_order (in a key list that repeats a column the FIRST occurrence orders, a later one never decides; dedup_keeping_last_counterexample); on the mirror of the sorting inference of postprocess.rs (Model.InferSorts): infer_sorts_tracks (after any prefix "
         "of a block the state of the pass is the sort in effect: the most recent Sort or the inherited order, retained by select / filter "
         "/ take / the left input of join, reset by aggregate / distinct), take_gets_the_sort_in_effect and "
         "distinct_on_gets_the_sort_in_effect (the ORDER BY in front of every LIMIT / DISTINCT ON is that sort, or the take's embedded "
         "sort), sorts_only_where_needed, cte_provides_sort_columns (a block that becomes a CTE selects every column of the order it "
         "hands on), readers_see_the_stored_sorting (look-ups leave the store unchanged: any number of readers inherit the same order); "
         "on the mirror of the Flattener (Model.Flatten): flattener_hands_on_the_sort_in_effect (for any nesting of group / window / join / "
         "append the sort a transform call carries - the one a take embeds - is the most recent sort of its pipeline, retained by select / "
         "derive / filter / take / join / append, reset by group), transform_carries_the_sort_in_effect, group_body_sort_is_local, "
         "sorts_in_front_of_a_group_are_dropped, join_side_is_isolated (repaired by fix 147decc). "
         "Ties: (i) the mirror of range_of_ranges is compared with the LIMIT/OFFSET the real compiler emits for all chains "
         "of up to 3 takes over small bounds; (ii) order-focused generated pipelines are run on SQLite and compared as row SEQUENCES "
         "with the reference semantics whenever the most recent sort in effect is total; (iii) every call of fold_sql_transforms and "
         "every ctes_sorting insert made while compiling a corpus is recorded (cargo feature verif) and replayed through the mirror - "
         "output transforms, emitted Sorts, widened Select, final sorting and flag must agree exactly; (iv) every call of Flattener::fold is "
         "recorded and replayed through Model.Flatten (kind, partition, frame and sort of every flattened transform call); (v) sort x join side (inner / left / right / full) x tail x let boundary: the bag of rows vs rows computed from the tables, and the rows that stem from the left input must be in the order of the sort (the position of the padded rows of right / full joins is left open).",
    note="alias_last_sorting and the lowering of the Flattener's sort fields into RQ (lower_sorts) are not mirrored; they are covered by the sequence comparison "
         "only. The order of rows with equal sort keys is unspecified in SQL: such cases are compared as bags, and takes over ties are excluded.",
    technique="Lean 4 proofs (take composition, sort algebra, sorting-inference state machine = declarative sort in effect) + LIMIT/OFFSET correspondence + replay of "
              "every recorded sorting-inference call + sequence-level differential run on SQLite", ref="4/C03")

ORDER_KINDS = ["sort", "sort", "sort", "take", "take", "derive", "select", "filter", "join", "group_agg", "aggregate", "group_take", "derive", "filter"]


def limit_offset_of_sql(sql):
    m = re.search(r"LIMIT (\d+)", sql)
    o = re.search(r"OFFSET (\d+)", sql)
    return (int(m.group(1)) if m else None, int(o.group(1)) if o else 0)


def run(ctx):
    br = vlib.standard_proof_obligations(ctx, ["PrqlModel.Props.C03"], [],
        required_theorems=["take_positions", "takes_rangeOfRanges", "takes_compose", "normalize_ok", "limit_offset_ok",
                           "filter_keeps_order", "map_keeps_order", "last_sort_wins", "sort_sorted", "take_sublist", "filter_sublist", "filter_keeps_order_rel", "last_sort_wins_rel", "sort_sorted_rel", "take_compose_rel", "take_positions_rel", "derive_keeps_order_rel", "sort_stable_rel",
                           "infer_sorts_tracks", "take_gets_the_sort_in_effect", "distinct_on_gets_the_sort_in_effect", "sorts_only_where_needed",
                           "cte_provides_sort_columns", "readers_see_the_stored_sorting", "retained_by_join", "reset_and_replace",
                           "flattener_hands_on_the_sort_in_effect", "transform_carries_the_sort_in_effect", "group_body_sort_is_local",
                           "sorts_in_front_of_a_group_are_dropped", "join_side_is_isolated",
                           "repeated_sort_key_never_decides", "repeated_sort_key_keeps_the_order", "dedup_keeping_last_counterexample"])
    ctx.rule = ("(i) every chain of 1-3 takes with bounds from {open, 1..4} (exhaustive): LIMIT/OFFSET of the real SQL vs the Lean mirror; "
                "(ii) generated pipelines biased towards sort/take and order-retaining or -resetting transforms x random databases: "
                "SQLite row sequence vs reference semantics; non-trivial = compared as a sequence with >= 2 rows, or a take chain whose "
                "folded range is not the whole table")
    if not (br.cargo_ok and br.drv_ok):
        return
    quick = ctx.tier == "quick"
    # (i) take chains
    bounds = [None, 1, 2, 3, 4] if quick else [None, 1, 2, 3, 4, 5, 7]
    ranges = [(a, b) for a in bounds for b in bounds if not (a and b and b < a)]
    chains = [c for n in (1, 2, 3) for c in itertools.product(ranges, repeat=n)]
    if quick:
        rng = random.Random(3)
        chains = [c for c in chains if len(c) < 3] + rng.sample([c for c in chains if len(c) == 3], 1500)

    def txt(r):
        a, b = r
        if a is None and b is None:
            return None
        return f"take {a or ''}..{b or ''}" if (a is None or b is None or a != b or True) else f"take {a}"
    reqs, keep = [], []
    for ch in chains:
        parts = [txt(r) for r in ch]
        if any(p is None for p in parts):
            continue
        reqs.append({"op": "compile", "prql": "from t | select {a, b} | " + " | ".join(parts), "target": "sql.generic"})
        keep.append(ch)
    ans = vh_batch(reqs)
    o = lambda x: "-" if x is None else str(x)
    mod = drv_batch(["ranges\t" + ";".join(f"{o(a)},{o(b)}" for a, b in ch) for ch in keep])
    nbad = 0
    for ch, a, m in zip(keep, ans, mod):
        f = m.split(" ")
        mlimit = None if f[2] == "-" else int(f[2])
        moff = int(f[3])
        ctx.case(("takes", ch), nontrivial=(mlimit is not None or moff > 0))
        ctx.count(f"take-chain:{len(ch)}")
        if "sql" not in a:
            ctx.oracle_failure(None, f"take chain {ch} rejected", {"chain": ch, "answer": a})
            continue
        lim, off = limit_offset_of_sql(a["sql"])
        if (lim, off) != (mlimit, moff):
            nbad += 1
            ctx.disagreement("range_of_ranges", f"takes {ch}: real SQL has LIMIT {lim} OFFSET {off}, the mirror says LIMIT {mlimit} OFFSET {moff}",
                             {"chain": ch, "sql": a["sql"], "model": m})
            # search for a failing input of the property itself: positions on a 10-row table
            rows = list(range(1, 11))
            exp = rows
            for s, e in ch:
                exp = exp[(s or 1) - 1:(e if e is not None else len(exp))]
            got = rows[off:(off + lim) if lim is not None else None]
            if got != exp:
                ctx.oracle_failure(None, f"takes {ch} select positions {exp} of 1..10 but the emitted LIMIT/OFFSET selects {got}",
                                   {"prql": reqs[keep.index(ch)]["prql"], "sql": a["sql"], "expected_positions": exp, "observed_positions": got})
    ctx.obligation("correspondence: LIMIT/OFFSET of the real SQL = limitOffsetOf (rangeOfRanges chain) on all small chains", nbad == 0, f"{len(keep)} chains")

    # (ii) order-focused differential run
    nseq = 0
    letcases = relgen.systematic_let_cases(3 if quick else 4, SAFE, sample=(random.Random(33), 200 if quick else 1500))
    ctx.coverage_extra["systematic_let_boundary_cases"] = len(letcases)
    # one sorted relation read several times (two let-tables over it, joined / appended; `append <let>` first): the order a reader
    # inherits must not depend on how many readers there are
    dia = [c for c in relgen.diamond_cases(SAFE, seed=31) if "sort" in c.seq[1] or any("sort" in x for x in c.seq[2:4] if isinstance(x, tuple))]
    if quick:
        dia = random.Random(34).sample(dia, min(len(dia), 350))
    # an order established first and needed by a take AFTER transforms that move it elsewhere (join, group, select ..): every such
    # sequence of length 4 that starts with a sort and contains a take
    carried = [c for c in relgen.systematic_cases(4, SAFE, seed=35, kinds=["sort", "join", "take", "group_agg", "group_take", "select", "derive"])
               if c.seq[0] == "sort" and "take" in c.seq[1:] and len(c.seq) == 4]
    if quick:
        carried = random.Random(36).sample(carried, min(len(carried), 300))
    # the same order carried through a join that keeps every left row determinate (key join) and then needed by a take whose rows
    # are consumed by group / aggregate / .. (the take's embedded sort is then the only carrier of the order)
    cj = relgen.carried_order_join_cases(SAFE, seed=37, variants=2 if quick else 6)
    ctx.coverage_extra["carried_order_join_cases"] = len(cj)
    dia = dia + carried + cj
    ctx.coverage_extra["diamond_cases"] = len(dia)
    for label, rng, n, prof in [("let-boundary", None, 0, SAFE), ("diamond", None, 0, SAFE), ("fixed", random.Random(303), 500 if quick else 4000, SAFE), ("seed", ctx.rng, 300 if quick else 4000, SAFE)]:
        cases = letcases if label == "let-boundary" else dia if label == "diamond" else [relgen.make_case(rng, kinds=ORDER_KINDS, max_tr=7, **prof) for _ in range(n)]
        res = relcheck.run_cases(cases, "sql.sqlite")
        for c, r in zip(cases, res):
            orig = c
            seq = r["status"] == "ok" and r.get("mode") == "seq"
            ctx.case((c.prql, str(c.db)), nontrivial=seq and len(r.get("rows") or []) >= 2)
            ctx.count(f"order:{r['status']}" + (":" + r.get("mode", "") if r["status"] == "ok" else ""))
            if seq:
                nseq += 1
                if len(ctx.samples) < 4 and len(r["rows"]) >= 3 and sum(1 for l in c.text if l.startswith("sort")) >= 1 and len(c.text) >= 4:
                    ctx.sample({"prql": c.prql.split("}\n", 1)[-1], "sql": r["sql"][:300], "row_sequence": r["rows"][:4]})
            if r["status"] in ("ok", "compile-error"):
                continue
            if r["status"] == "model-error":
                ctx.disagreement("evalSrc", r["detail"], c.to_json())
                continue
            fid = relcheck.classify(c, r)
            if fid is None or fid not in ctx.known:
                c2, r2 = relcheck.shrink(c, r)
                if relcheck.classify(c2, r2) == fid:
                    c, r = c2, r2
            ctx.oracle_failure(fid, f"{r['status']}: {r['detail']}",
                               {"prql": c.prql, "target": "sql.sqlite", "db": c.db, "schema": c.schema_list, "sql": r.get("sql"),
                                "observed_rows": r.get("rows"), "expected_rows": r.get("model_rows"), "order_flags": r.get("flags"),
                                "status": r["status"], "detail": r["detail"], "class": fid},
                               det_key=None if label == "seed" else (orig.prql, orig.db))
    ctx.coverage_extra["sequence_comparisons"] = nseq
    # the left input of a join keeps its order for EVERY join side (the reference semantics leaves the position of the padded rows of
    # right / full joins open, so the sequence comparison above does not judge those programs)
    nbad_jo = joinorder.run(ctx)
    tprogs_jo = [p_["prql"] for p_ in joinorder.programs()]
    # (iii) the sorting-inference mirror: every recorded call of fold_sql_transforms replayed through Model.InferSorts.inferBlock,
    # every look-up of a CTE's sorting checked against Model.InferSorts.Store
    tprogs = tprogs_jo + [c.prql for c in letcases[:150 if quick else 1500]] + [c.prql for c in dia[:400 if quick else 4000]]
    trng = random.Random(39)
    tprogs += [relgen.make_case(trng, kinds=ORDER_KINDS, max_tr=7, **SAFE).prql for _ in range(250 if quick else 2500)]
    tprogs += [relgen.make_case(trng, **FULL).prql for _ in range(100 if quick else 1000)]
    n_ev, n_bad, hooked = sorttrace.run_suite(ctx, tprogs, "infer-sorts", targets=("sql.sqlite", "sql.postgres", "sql.mssql"))
    if hooked:
        ctx.obligation("correspondence: fold_sql_transforms = Model.InferSorts.inferBlock on every recorded call; what a From inherits from a CTE = "
                       "Model.InferSorts.Store", n_bad == 0 and n_ev > 0, f"{n_ev} recorded calls / histories replayed, {n_bad} differ")
        n_fl, n_flbad, _ = flattrace.run_suite(ctx, tprogs + [c.prql for c in cj], "flatten")
        ctx.obligation("correspondence: Flattener::fold = Model.Flatten.flatten on every recorded call (kind, kept sort key, partition, frame and sort of "
                       "every transform call, arguments of join / append included)", n_flbad == 0 and n_fl > 0, f"{n_fl} recorded calls replayed, {n_flbad} differ")
    else:
        ctx.count("infer-sorts:skipped (tree has no `verif` hooks)")
        ctx.assumptions.append("the trace hook is not available in this tree: the sorting-inference mirror was not compared this run")
    ctx.obligation("oracle: SQLite row sequences equal the reference semantics wherever a total sort is in effect", not [v for v in ctx.violations if v["kind"] == "failing-input"],
                   f"{nseq} sequence comparisons")


def replay(obj):
    from props import c01
    return c01.replay(obj)
