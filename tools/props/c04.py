"""C04 window functions see exactly the documented segment and keep row count."""
import itertools, json, random, re
import vlib, relgen, relcheck
from vlib import vh_batch, drv_batch
from props.c01 import SAFE

MANIFEST = dict(
    text="Lean theorems: rolling_is_rows, expanding_is_rows, no_window_is_whole_partition, params_precedence (mirror of the window "
         "parameter resolution), frame_translation (for every pair of bounds - negative, zero, positive, open - every partition and "
         "every row the emitted ROWS BETWEEN clause selects exactly the rows start..end relative to the current row), "
         "frame_bounds_ordered, reversed_rows_means_not_given, emitFrame_none_iff / default_frame_no_order / "
         "whole_partition_is_written_under_order (frame elision), last_without_frame_counterexample (functions without frame support "
         "see SQL's implicit frame: `last` under a sort is NOT the last of the partition - a genuine defect), "
         "window_preserves_row_count, window_extends_rows, winColumn_partition_local, frame_is_contiguous / expanding_frame_is_prefix / "
         "rolling_frame_is_last_n (row i of a partition of any length sees the first i+1 rows under expanding, the last min(n, i+1) of them "
         "under rolling:n). Ties: the frame clause the real compiler writes "
         "into OVER(...) is compared with the mirror for every function x parameter combination x sort/no sort; window-focused "
         "generated programs (partition/sort/frame kinds/bounds/12 functions, in derive and before filter/sort/take/join and splits) "
         "are executed on SQLite and compared with the reference window semantics of Model.Rel.",
    note="RANGE frames are mirrored syntactically only (no value-level semantics); the lowering of window contexts (lowering.rs) is "
         "not mirrored: it is covered by the differential run. Ties in the window order make row_number/lag/lead ambiguous: the "
         "generator uses total orders.",
    technique="Lean 4 proofs (window parameters, frame translation, row preservation) + OVER-clause correspondence + SQLite differential run", ref="4/C04")

FNS = [("sum a", True), ("count this", True), ("min a", True), ("max a", True), ("average a", True),
       ("row_number this", False), ("rank a", False), ("rank_dense a", False), ("lag 1 a", False), ("lead 1 a", False),
       ("first a", False), ("last a", False)]
WIN_KINDS = ["window", "window", "window", "filter", "derive", "select", "take", "sort", "join", "group_agg", "window"]


def over_frame(sql):
    m = re.search(r"OVER \(([^()]*(?:\([^()]*\)[^()]*)*)\)", sql)
    if not m:
        return None
    f = re.search(r"((?:ROWS|RANGE) BETWEEN .*)$", m.group(1))
    return f.group(1) if f else "-"


def run(ctx):
    br = vlib.standard_proof_obligations(ctx, ["PrqlModel.Props.C04"], [],
        required_theorems=["rolling_is_rows", "expanding_is_rows", "no_window_is_whole_partition", "params_precedence",
                           "frame_translation", "frame_bounds_ordered", "reversed_rows_means_not_given", "emitFrame_none_iff",
                           "whole_partition_is_written_under_order", "last_without_frame_counterexample",
                           "window_preserves_row_count", "window_extends_rows", "frame_is_contiguous",
                           "expanding_frame_is_prefix", "rolling_frame_is_last_n"])
    ctx.rule = ("(i) 12 functions x window parameters (none, rows a..b over {open,-2..2}, range a..b, rolling 1..3, expanding, reversed "
                "bounds) x {sort, no sort}: frame text inside OVER(...) of the real SQL vs the Lean mirror (exhaustive); (ii) generated "
                "programs with windowed derives (plain / group / group+sort / sort+window / group+sort+window) mixed with filter, "
                "derive, select, take, sort, join, aggregate x random databases, executed on SQLite vs Model.Rel; non-trivial = "
                "a window value column was compared on >= 2 rows")
    if not (br.cargo_ok and br.drv_ok):
        return
    quick = ctx.tier == "quick"
    # (i) frame clause correspondence
    bnds = [None, -2, -1, 0, 1, 2]
    params = [("", 0, 0, (0, -1), (0, -1))]
    params += [(f"rows:{'' if a is None else a}..{'' if b is None else b}", 0, 0, (a, b), (0, -1)) for a in bnds for b in bnds if not (a is None and b is None)]
    params += [(f"range:{'' if a is None else a}..{'' if b is None else b}", 0, 0, (0, -1), (a, b)) for a in (None, -1, 0) for b in (None, 0, 1) if not (a is None and b is None)]
    params += [(f"rolling:{n}", 0, n, (0, -1), (0, -1)) for n in (1, 2, 3)]
    params += [("expanding:true", 1, 0, (0, -1), (0, -1)), ("expanding:true rolling:2", 1, 2, (0, -1), (0, -1)), ("rolling:2 rows:-1..1", 0, 2, (-1, 1), (0, -1))]
    reqs, meta = [], []
    o = lambda x: "-" if x is None else str(x)
    for (fn, sup), (ptxt, ex, rolling, rows, rng_), srt in itertools.product(FNS, params, (False, True)):
        body = f"derive {{w = {fn}}}"
        if ptxt:
            body = f"window {ptxt} ({body})"
        prql = "from t | select {a, b} | " + ("sort b | " if srt else "") + body
        reqs.append({"op": "compile", "prql": prql, "target": "sql.generic"})
        meta.append((prql, f"winframe\t{1 if sup else 0}\t{0 if srt else 1}\t{ex}\t{rolling}\t{o(rows[0])}\t{o(rows[1])}\t{o(rng_[0])}\t{o(rng_[1])}"))
    ans = vh_batch(reqs)
    mod = drv_batch([m for _, m in meta])
    nbad = 0
    for (prql, _), a, m in zip(meta, ans, mod):
        ctx.case(("frame", prql))
        if "sql" not in a:
            ctx.count("frame:rejected")
            continue
        real = over_frame(a["sql"])
        if real != m:
            nbad += 1
            ctx.disagreement("window-frame-clause", f"`{prql}`: real OVER frame `{real}`, mirror `{m}`", {"prql": prql, "sql": a["sql"], "model": m})
    ctx.count("frame-cases", len(meta))
    ctx.obligation("correspondence: frame clause inside OVER(...) = Model.Window.emitFrame ∘ windowParams", nbad == 0, f"{len(meta)} cases")

    # (ii) differential run on SQLite
    # systematic: every sequence of up to 3 (thorough: 4, sampled) transform kinds around windowed derives, seed-independent
    syskinds = ["sort", "select", "filter", "derive", "take", "window", "join", "group_agg", "distinct"]
    syscases = [c for c in relgen.systematic_cases(3 if quick else 4, SAFE, seed=44, sample=(random.Random(44), 729 if quick else 2500), kinds=syskinds)
                if "window" in c.seq]
    syscases += relgen.inherited_order_cases(SAFE, variants=3 if quick else 6)
    # window functions over a relation made DISTINCT (`group {all} (take 1)` on data with duplicate rows): they must see one row per
    # distinct row, whatever follows
    for seq in [("select_dups", "distinct", "window"), ("select_dups", "distinct", "window", "filter"), ("select_dups", "distinct", "derive", "window"),
                ("select_dups", "distinct", "sort", "window"), ("select_dups", "distinct", "window", "sort"), ("select_dups", "distinct", "window", "take"),
                ("select_dups", "distinct", "filter", "window"), ("select_dups", "distinct", "filter_window"), ("distinct", "filter_window"),
                ("select_dups", "distinct", "filter_window", "sort"), ("select_dups", "filter_window"), ("select_dups", "distinct", "filter_window", "window")]:
        for c in relgen.systematic_cases(len(seq), SAFE, seed=46, kinds=list(dict.fromkeys(seq)), variants=6 if quick else 20):
            if c.seq == seq:
                c.db = relgen.with_duplicates(c.db, random.Random(len(syscases)))
                syscases.append(c)
    ctx.coverage_extra["systematic_window_sequences"] = len(syscases)
    for label, rng, n in [("systematic", None, 0), ("fixed", random.Random(404), 500 if quick else 5000), ("seed", ctx.rng, 300 if quick else 5000)]:
        cases = syscases if label == "systematic" else [relgen.make_case(rng, kinds=WIN_KINDS, max_tr=4, **SAFE) for _ in range(n)]
        res = relcheck.run_cases(cases, "sql.sqlite")
        for c, r in zip(cases, res):
            orig = c
            has_win = "( window" in c.sexp
            nontrivial = r["status"] == "ok" and has_win and r.get("mode") != "ambiguous" and len(r.get("rows") or []) >= 2
            ctx.case((c.prql, str(c.db)), nontrivial=nontrivial)
            ctx.count(f"win:{r['status']}" + (":" + r.get("mode", "") if r["status"] == "ok" else ""))
            for f in re.findall(r"\b(sum|count|min|max|row_number|rank_dense|rank|lag|lead|first|last) (?:\( col|\( lit)", c.sexp):
                ctx.count("fn:" + f)
            if r["status"] == "ok":
                if nontrivial and len(ctx.samples) < 4 and "window" in c.prql:
                    ctx.sample({"prql": c.prql.split("}\n", 1)[-1], "sql": r["sql"][:300], "rows": r["rows"][:3]})
                continue
            if r["status"] == "compile-error":
                continue
            if r["status"] == "model-error":
                ctx.disagreement("evalSrc", r["detail"], c.to_json())
                continue
            fid = relcheck.classify(c, r)
            if fid is None or fid not in ctx.known:
                c2, r2 = relcheck.shrink(c, r)
                if relcheck.classify(c2, r2) == fid:
                    c, r = c2, r2
            ctx.oracle_failure(fid, f"{r['status']}: {r['detail']}",
                               {"prql": c.prql, "target": "sql.sqlite", "db": c.db, "schema": c.schema_list, "sql": r.get("sql"),
                                "observed_rows": r.get("rows"), "observed_columns": r.get("names"), "expected_rows": r.get("model_rows"),
                                "expected_columns": c.columns, "order_flags": r.get("flags"), "status": r["status"], "detail": r["detail"], "class": fid},
                               det_key=None if label == "seed" else (orig.prql, orig.db))
    ctx.obligation("oracle: windowed values and row counts on SQLite equal the reference semantics (all unlisted cases)",
                   not [v for v in ctx.violations if v["kind"] == "failing-input"], "")


def replay(obj):
    from props import c01
    return c01.replay(obj)
