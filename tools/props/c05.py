"""C05 result columns are exactly the final frame: names, count and order."""
import collections, itertools, json, random, re
import vlib, relgen, relcheck, starexpand, sstrgen, c05frames
from vlib import vh_batch, drv_batch
from props.c01 import SAFE, FULL, UNDECL

MANIFEST = dict(
    text="Lean theorems about the mirror of deduplicate_select_items (the step deciding which select items of a block survive): "
         "dedup_sublist (nothing invented or reordered), no_merge (select items with pairwise different identifiers all survive - "
         "true since the repair d06ca49 `fix: deduplicate_select_items compares whole identifiers`; before it t0.a, t0.k, t1.u, t1.k "
         "lost t1.k, which the first version of this check found as a counterexample), dedup_removes_repetition; and about the mirror of "
         "translate_wildcards (select list with stars and EXCLUDE sets): wildcards_exact (when every star is requested at most once and the "
         "known columns of a starred instance are not wildcards, what the select list with its exclusion sets shows is, as a multiset of "
         "column ids, exactly what was requested), wildcards_exact_emitted (the same when a star's exclusion set is consumed by its first occurrence, as translate_select_items does), "
         "wildcards_output_sublist (nothing invented, order kept), wildcards_excluded_known (exclusion sets name known columns of their star), wildcards_no_exclude_superset "
         "(without an exclusion facility nothing requested is lost), wildcards_duplicate_star_counterexample (the same star requested twice "
         "loses a column: the second flush overwrites the first exclusion set), wildcards_duplicate_star_emitted_counterexample (select {t.*, t.*} "
         "after a generated column: the second star carries no exclusion and shows the helper column); and about the mirror of extract_atomic "
         "(Model.Anchor.extractAtomic: split_off_back, anchor_split and the limiting SELECT around a block whose Select was widened by columns "
         "other clauses need): extract_atomic_selects_exactly_the_frame (for every pipeline, every list of requested columns - repetitions "
         "included - and wherever the pipeline is cut, the Select of the block that becomes this relation's SELECT is the requested list seen "
         "through the redirects: same count, same order; helper columns never reach it), widened_select_shape. Ties: every call of "
         "extract_atomic recorded while compiling a corpus is replayed through the mirror (returned pipeline and determine_select_columns must "
         "agree exactly); the mirrors are compared with the real functions through the "
         "verif hooks (hook_dedup on all short item lists and random ones; suite `wildcards`: hook_wildcards vs driver op wildcards on every "
         "request of <= 4 columns over a two-instance schema and on random instances/requests with duplicate original_cids and duplicate "
         "requests, where the hook's own answer is also judged against the statements of the theorems); the property itself is checked on the implementation: the column "
         "names/count/order SQLite reports for the emitted SQL vs the final frame of the compiler's own RQ (relation.columns) and "
         "the generator's frame, for programs with explicit columns, wildcards, repeated names, joins of tables sharing names, "
         "sort-then-project and take inside group; and for relations whose columns the compiler has to INFER (tools/sstrgen.py): `from s\"SELECT ...\"` with "
         "every select list of <= 3 (thorough 4) items over 14 item kinds (bare, qualified, aliased with/without AS, expression, function, `*`, `t.*`, quoted, CASE, "
         "sub-select, upper-case, literal; 39 kinds for pairs) x statement shapes (keyword case, DISTINCT/ALL, comments, WHERE/ORDER/LIMIT, joins, UNION, parentheses, "
         "interpolation) x follow-up steps (filter, derive, select, exclusion, take, sort, aggregate, group, window, join on either side, append, let), relation "
         "literals and from_text (csv, both json layouts), plus random compositions: the inner SQL text run BY ITSELF on SQLite tells the relation's true "
         "columns, the frame semantics of the pipeline gives the expected result columns of the compiled program; set operations whose top is pruned / reordered around them (chained derives, double appends) are judged on SQLite row by row, and every recorded call of the positional mapper is replayed through Model.Positional (theorems under C07).",
    note="The alias decision of translate_select_item is mirrored (Model.Projection.aliasOf: select_item_carries_the_frame_name, alias_only_when_needed, alias_comparison_is_exact, unnamed_column_hides_the_inferred_name; every recorded call replayed), the naming of generated columns (ensure_column_name / load_names) is not; whether the Lowerer's requests "
         "always satisfy the hypothesis WF of wildcards_exact is not proved (exercised from source by the exclusion stream). Dialects other than sqlite/generic are compared on the text of the final projection, not executed.",
    technique="Lean 4 proofs on the select-item deduplication kernel (hook-level correspondence) + result-column oracle on SQLite", ref="4/C05")


import anchortrace, appendshapes, postrace


def enc_item(it):
    kind, ids = it
    e = lambda s: ".".join(str(ord(c)) for c in s)
    if kind == "compound":
        return "c:" + "|".join(e(i) for i in ids)
    if kind == "alias":
        return "a:" + e(ids[0])
    return "o"


def rq_columns(rq):
    out = []
    for c in rq["relation"]["columns"]:
        if c == "Wildcard":
            out.append("*")
        else:
            out.append(c.get("Single"))
    return out


# ---- translate_wildcards: hook `hook_wildcards` vs driver op `wildcards`, and the property on the hook's answer
def wc_line(cols, decls, insts):
    return ("wildcards\t" + " ".join(map(str, cols)) + "\t" + ";".join(f"{d[0]}:{d[1]}" for d in decls if d[2]) + "\t"
            + ";".join(f"{r}:{' '.join(map(str, cs))}" for r, cs in insts))


def wc_text(a):
    if "output" not in a:
        return str(a)
    return " ".join(map(str, a["output"])) + " | " + ";".join(f"{k}:{' '.join(map(str, v))}" for k, v in a["excluded"])


def wc_wf(cols, decls, insts):
    """hypothesis WF of Props.C05.wildcards_exact"""
    wild = {d[0]: d[1] for d in decls if d[2]}
    orig = dict((r, cs) for r, cs in insts)
    ws = [c for c in cols if c in wild]
    if len(ws) != len(set(ws)):
        return False
    return all(x not in wild for w in ws for x in set(orig.get(wild[w], [])) - {w})


def wc_shown(decls, insts, out, excluded):
    wild = {d[0]: d[1] for d in decls if d[2]}
    orig = dict((r, cs) for r, cs in insts)
    sh = []
    for o in out:
        sh.append(o)
        if o in wild:
            sh += [x for x in set(orig.get(wild[o], [])) - {o} if x not in excluded.get(o, [])]
    return sh


def wc_judge(cols, decls, insts, a):
    """the IMPLEMENTATION's answer against the statements of wildcards_output_sublist / wildcards_excluded_known /
    wildcards_exact / wildcards_no_exclude_superset; returns a description of the failure or None"""
    if "output" not in a:
        return None                      # not an answer of the function (reported by the correspondence)
    out, it = a["output"], iter(cols)
    if not all(any(o == c for c in it) for o in out):
        return f"output {out} is not a sublist of the request {cols}"
    wild = {d[0]: d[1] for d in decls if d[2]}
    orig = dict((r, cs) for r, cs in insts)
    for k, vs in a["excluded"]:                                   # wildcards_excluded_known
        if k not in wild or not set(vs) <= set(orig.get(wild[k], [])) - {k}:
            return f"exclusion set {vs} of {k} is not a set of known columns of a star's instance (request {cols})"
    if not wc_wf(cols, decls, insts):
        return None
    sh = wc_shown(decls, insts, out, dict((k, v) for k, v in a["excluded"]))
    if collections.Counter(sh) != collections.Counter(cols):
        return f"requested {sorted(cols)} but the select list {out} with exclusions {a['excluded']} shows {sorted(sh)}"
    if not set(cols) <= set(wc_shown(decls, insts, out, {})):
        return f"requested {sorted(cols)}: without exclusion sets {out} does not show all of them"
    return None


WC_SMALL = dict(decls=[[0, 0, False], [1, 0, False], [2, 0, True], [3, 1, False], [4, 1, True]],
                insts=[[0, [0, 1, 2]], [1, [3, 4]]], universe=[0, 1, 2, 3, 4, 5])   # 5 = computed column


def wc_random(rng):
    ninst = rng.randint(1, 3); cid = 0; insts = []; decls = []; allc = []
    for r in range(ninst):
        n = rng.randint(0, 4); cs = list(range(cid, cid + n)); cid += n
        w = None
        if rng.random() < 0.8:
            w = cid; cid += 1; decls.append([w, r, True])
        decls += [[c, r, False] for c in cs]
        oc = cs + ([w] if w is not None else [])
        if rng.random() < 0.15 and oc:
            oc = oc + [rng.choice(oc)]                       # duplicate original_cids
        rng.shuffle(oc)
        insts.append([r, oc]); allc += oc
    ncomp = rng.randint(0, 2); allc += list(range(cid, cid + ncomp))
    cols = [rng.choice(allc) for _ in range(rng.randint(0, 7))] if allc else []
    if rng.random() < 0.6:
        cols = list(dict.fromkeys(cols))                     # no duplicate requests
    return cols, decls, insts


def wildcards_suite(ctx, quick):
    cases = [("systematic", list(l), WC_SMALL["decls"], WC_SMALL["insts"])
             for n in range(0, 5) for l in itertools.product(WC_SMALL["universe"], repeat=n)]
    for _ in range(10000 if quick else 200000):
        cases.append(("random",) + wc_random(ctx.rng))
    real = vh_batch([{"op": "hook_wildcards", "cols": c, "decls": d, "instances": i} for _, c, d, i in cases])
    if real and real[0].get("no_hooks"):
        return False
    mod = drv_batch([wc_line(c, d, i) for _, c, d, i in cases])
    nbad = nwf = 0
    for (label, c, d, i), a, m in zip(cases, real, mod):
        wilds = {x[0] for x in d if x[2]}
        stars = [x for x in c if x in wilds]
        ctx.case(("wildcards", c, d, i), nontrivial=bool(stars) and len(c) >= 2)
        ctx.count(f"translate_wildcards:{label}")
        rep = {"suite": "wildcards", "cols": c, "decls": d, "instances": i, "real": a, "model": m}
        if wc_text(a) != m:
            nbad += 1
            if nbad > 3:                                           # keep room for failing inputs in the violation list
                ctx.disagreements += 1
            else:
                ctx.disagreement("translate_wildcards", f"cols {c} decls {d} instances {i}: real {wc_text(a)!r}, mirror {m!r}", rep)
        if wc_wf(c, d, i):
            nwf += 1
            ctx.count("translate_wildcards:hypothesis WF holds")
        elif len(stars) != len(set(stars)):
            ctx.count("translate_wildcards:same star requested twice (outside WF)")
        if a.get("excluded"):
            ctx.count("translate_wildcards:with exclusion set")
        if "output" in a and len(a["output"]) < len(c):
            ctx.count("translate_wildcards:column absorbed by a star")
        bad = wc_judge(c, d, i, a)
        if bad:
            ctx.oracle_failure("wildcards-not-exact", "translate_wildcards: " + bad, rep)
        elif len(ctx.samples) < 2 and label == "random" and a.get("excluded") and len(a.get("output", [])) + 2 <= len(c):
            ctx.sample({"translate_wildcards": {"cols": c, "wildcards": sorted(wilds), "instances": i}, "output": a["output"], "excluded": a["excluded"]})
    ctx.obligation("correspondence: translate_wildcards (hook) = Model.Wildcards.run", nbad == 0,
                   f"{len(cases)} requests ({nwf} satisfy WF and were also judged against wildcards_exact on the hook's own answer)")
    return True


def run(ctx):
    br = vlib.standard_proof_obligations(ctx, ["PrqlModel.Props.C05", "PrqlModel.Lemmas.Wildcards", "PrqlModel.Model.Wildcards"], [],
        required_theorems=["dedup_sublist", "no_merge", "no_merge_from", "dedup_removes_repetition", "kept_length",
                           "wildcards_exact", "wildcards_output_sublist", "wildcards_no_exclude_superset",
                           "wildcards_duplicate_star_counterexample", "exEnv_wf",
                           "wildcards_exact_emitted", "wildcards_duplicate_star_emitted_counterexample", "wildcards_excluded_known",
                           "extract_atomic_selects_exactly_the_frame", "widened_select_shape", "select_item_carries_the_frame_name", "alias_only_when_needed",
                           "alias_comparison_is_exact", "unnamed_column_hides_the_inferred_name"])
    ctx.rule = ("(i) deduplicate_select_items: every list of <= 4 items over a 4-identifier alphabet (compound 1-2 parts / alias / other) "
                "exhaustively + random longer lists, real function (hook) vs Lean mirror; translate_wildcards: every request of <= 4 column ids "
                "over {2 known + star, 1 known + star, 1 computed} + random instances/requests, hook vs mirror and hook vs theorem statements; (ii) generated programs x databases: names, "
                "count and order of the SQLite result columns vs the RQ's final frame; (v) inferred frames: s-string select lists (grid) x shapes x steps, "
                "literals / from_text, random compositions: result columns vs (columns SQLite reports for the inner SQL alone, pushed through the frame "
                "semantics of the pipeline), names compared case-insensitively; non-trivial = compiled, executed, >= 2 columns")
    if not (br.cargo_ok and br.drv_ok):
        return
    quick = ctx.tier == "quick"
    # (i) hook-level correspondence
    hooks = vh_batch([{"op": "hooks_available"}])[0].get("hooks", False)
    if hooks:
        ids = ["t", "u", "a", "k"]
        atoms = [("compound", [x]) for x in ids] + [("compound", [x, y]) for x in ids for y in ids] + [("alias", [x]) for x in ids] + [("other", [])]
        lists = [list(l) for n in range(0, 4 if quick else 5) for l in itertools.product(atoms[:9] if n >= 3 else atoms, repeat=n)]
        rng = ctx.rng
        for _ in range(2000 if quick else 20000):
            lists.append([rng.choice(atoms) for _ in range(rng.randint(3, 9))])
        real = vh_batch([{"op": "hook_dedup", "items": [[k, i] for k, i in l]} for l in lists])
        mod = drv_batch(["dedup\t" + ";".join(enc_item(i) for i in l) for l in lists])
        nbad = 0
        for l, a, m in zip(lists, real, mod):
            ctx.case(("dedup", str(l)), nontrivial=len(l) >= 2)
            mk = [int(x) for x in m.split()] if m.strip() else []
            if a.get("kept") != mk:
                nbad += 1
                ctx.disagreement("deduplicate_select_items", f"items {l}: real keeps {a.get('kept')}, mirror keeps {mk}", {"items": l, "real": a, "model": m})
        ctx.count("dedup-lists", len(lists))
        ctx.obligation("correspondence: deduplicate_select_items (hook) = Model.Projection.kept", nbad == 0, f"{len(lists)} item lists")
        if not wildcards_suite(ctx, quick):
            ctx.count("hook_wildcards-unavailable")
            ctx.coverage_extra["hook_suites"] = "wildcards skipped: the harness has no hook_wildcards"
    else:
        ctx.count("hooks-unavailable")
        ctx.coverage_extra["hook_suites"] = "skipped: /repo does not build with feature `verif`"

    # (ii) result columns vs final frame
    EXPANSION = re.compile(r"select !\{|this\.\*|group \{[^}]*\} \((?!aggregate)")

    def explore(label, rng, n, prof, target="sql.sqlite", cases=None):
        cases = cases if cases is not None else [relgen.make_case(rng, **prof) for _ in range(n)]
        comp = vh_batch([{"op": "compile", "prql": c.prql, "target": target} for c in cases])
        rqs = vh_batch([{"op": "rq", "prql": c.prql} for c in cases])
        for c, a, q in zip(cases, comp, rqs):
            if "sql" not in a or "rq" not in q:
                ctx.count(f"{label}:not-compiled")
                continue
            names, rows, err = relgen.run_sqlite(c.schema_list, c.db, a["sql"])
            if err:
                ctx.count(f"{label}:sqlite-error (C01/C07 matter)")
                continue
            frame = rq_columns(q["rq"])
            has_star = "*" in frame
            expect = c.columns if has_star else frame
            ctx.case((c.prql, target), nontrivial=len(names) >= 2)
            ctx.count(f"{label}:{'wildcard' if has_star else 'explicit'}")
            ok = len(names) == len(expect) and all(e is None or e == n for e, n in zip(expect, names))
            if not has_star and [x for x in frame if x is not None] and sorted(x for x in frame if x) != sorted(c.columns) and len(frame) == len(c.columns):
                ctx.count(f"{label}:generator-frame-differs-from-rq-frame")
            if ok and not has_star and names != c.columns:
                # the result agrees with the compiler's OWN final frame (RQ), but that frame is not the frame of the program (frame
                # semantics of the generator: a resolver that loses, merges or renames a column takes the RQ with it)
                perm = len(names) == len(c.columns) and sorted(names) == sorted(c.columns)
                r = {"status": "column-count" if len(names) != len(c.columns) else "names-differ", "detail": "", "sql": a["sql"], "names": names}
                if perm and EXPANSION.search(c.prql):
                    fid = c05frames.ORDER_CLASS        # recorded (C11, also C05): an expansion of the whole frame lists it by Decl.order, ties in HashMap order
                else:
                    fid = relcheck.classify(c, r, target)
                ctx.count(f"{label}:rq-frame-met-but-not-the-program's-frame")
                ctx.oracle_failure(fid, f"result columns {names} (= the RQ's final frame) but the frame of the program is {c.columns}",
                                   {"prql": c.prql, "target": target, "sql": a["sql"], "observed_columns": names, "expected_columns": c.columns,
                                    "rq_columns": frame, "db": c.db, "schema": c.schema_list, "class": fid},
                                   det_key=None if (label in ("seed", "generic") or fid == c05frames.ORDER_CLASS) else (c.prql, target))
                continue
            if ok:
                if len(ctx.samples) < 4 and len(names) >= 3 and ("join" in c.prql or has_star):
                    ctx.sample({"prql": c.prql.split("}\n", 1)[-1], "sql": a["sql"][:300], "result_columns": names, "frame": expect})
                continue
            r = {"status": "column-count" if len(names) != len(expect) else "names-differ", "detail": "", "sql": a["sql"], "names": names}
            fake = type("X", (), {"prql": c.prql, "columns": [e if e is not None else "?" for e in expect]})()
            fid = relcheck.classify(fake, r, target)
            if fid is None and len(names) == len(expect) and sorted(map(str, names)) == sorted(map(str, expect)) and \
                    re.search(r"group \{[^}]*\} \((?:sort \{[^}]*\} \| )?take", c.prql):
                fid = "column-order-after-group-take"
            if fid is None and label == "dup-names-systematic" and not has_star and len(names) == len(expect) and EXPANSION.search(c.prql) and \
                    sorted(map(str, names)) == sorted(map(str, expect)) == sorted(c.columns):
                # the two compilations (SQL, RQ) of one program list an expanded frame in different orders (C11, also C05; varies from call to call)
                fid = c05frames.ORDER_CLASS
            ctx.oracle_failure(fid, f"result columns {names} but the final frame is {expect}",
                               {"prql": c.prql, "target": target, "sql": a["sql"], "observed_columns": names, "expected_columns": expect,
                                "rq_columns": frame, "db": c.db, "schema": c.schema_list, "class": fid},
                               det_key=None if (label in ("seed", "generic") or fid == c05frames.ORDER_CLASS) else (c.prql, target))

    # (iii) the alias layer: a final select that renames every column, with aliases chosen to be confusable with source names
    def adversarial_aliases(rng, names):
        out = []
        for n in names:
            k = rng.random()
            if k < 0.3:
                a = n.upper() if n != n.upper() else n.lower()          # differs by letter case only
            elif k < 0.45:
                a = n.capitalize() if n.capitalize() != n else n.upper()
            elif k < 0.6:
                a = rng.choice(["select", "from", "order", "group", "Table", "user", "index", "key"])   # needs quoting
            elif k < 0.7:
                a = n + " x"                                            # needs backticks / quotes
            elif k < 0.8:
                a = rng.choice(names)                                   # another column's (or its own) name
            else:
                a = n + "_r"
            # SQLite resolves column references case-insensitively: keep the aliases distinct up to case
            while a.lower() in [o.lower() for o in out]:
                a = a + "_"
            out.append(a)
        return out

    def rename_stream(label, rng, n, prof, target="sql.sqlite"):
        cases = [relgen.make_case(rng, **prof) for _ in range(n)]
        progs = []
        for c in cases:
            fr = c.frames[-1]
            if len({x.name for x in fr}) != len(fr):
                continue
            al = adversarial_aliases(rng, [x.name for x in fr])
            bt = lambda a: a if re.fullmatch(r"[A-Za-z_][A-Za-z0-9_]*", a) and a not in ("select", "from", "order", "group", "user", "index", "key") else f"`{a}`"
            line = "select {" + ", ".join(f"{bt(a)} = {x.ref}" for a, x in zip(al, fr)) + "}"
            progs.append((c, c.prql + line + "\n", al))
        comp = vh_batch([{"op": "compile", "prql": p, "target": target} for _, p, _ in progs])
        for (c, p, al), a in zip(progs, comp):
            if "sql" not in a:
                ctx.count(f"{label}:not-compiled")
                continue
            names, rows, err = relgen.run_sqlite(c.schema_list, c.db, a["sql"])
            if err:
                ctx.count(f"{label}:sqlite-error (C01/C07 matter)")
                continue
            ctx.case((p, target), nontrivial=len(names) >= 2)
            ctx.count(f"{label}:renamed")
            if names != al:
                r = {"status": "column-count" if len(names) != len(al) else "names-differ", "detail": "", "sql": a["sql"], "names": names}
                fid = relcheck.classify(type("X", (), {"prql": p, "columns": al})(), r, target)
                ctx.oracle_failure(fid, f"result columns {names} but the final select names them {al}",
                                   {"prql": p, "target": target, "sql": a["sql"], "observed_columns": names, "expected_columns": al, "db": c.db, "schema": c.schema_list},
                                   det_key=None if label.endswith("seed") else (p, target))
            elif len(ctx.samples) < 5 and any(x.lower() == y.lower() and x != y for x, y in zip(al, [f.name for f in c.frames[-1]])):
                ctx.sample({"prql": p.split("}\n", 1)[-1], "sql": a["sql"][:300], "result_columns": names})

    # (iv) dialects with a column-exclusion facility: stars are expanded from the schema and the statement is run on SQLite
    EXCL_KINDS = ["exclude", "exclude", "derive", "filter", "sort", "take", "join", "group_take", "select", "exclude"]

    def exclusion_stream(label, rng, n, dialects=("duckdb", "snowflake", "bigquery")):
        cases = [relgen.make_case(rng, kinds=EXCL_KINDS, max_tr=4, nlets=0, **UNDECL) for _ in range(n)]
        for d in dialects:
            comp = vh_batch([{"op": "compile", "prql": c.prql, "target": "sql." + d} for c in cases])
            for c, a in zip(cases, comp):
                if "sql" not in a:
                    ctx.count(f"{label}:{d}:not-compiled")
                    continue
                try:
                    sql2 = starexpand.expand(a["sql"].replace("`", '"'), c.schema_list)
                except Exception as e:
                    ctx.count(f"{label}:{d}:not-expandable")
                    continue
                names, rows, err = relgen.run_sqlite(c.schema_list, c.db, sql2)
                if err:
                    ctx.count(f"{label}:{d}:sqlite-error (C01/C07 matter)")
                    continue
                ctx.case((c.prql, d), nontrivial=("EXCLUDE" in a["sql"] or "EXCEPT (" in a["sql"]))
                ctx.count(f"{label}:{d}:{'with-exclusion' if ('EXCLUDE' in a['sql'] or 'EXCEPT (' in a['sql']) else 'plain'}")
                expect = c.columns
                if len(names) == len(expect) and sorted(names) == sorted(expect):
                    if names != expect:
                        ctx.count(f"{label}:{d}:order-differs (star expands in table order)")
                    continue
                r = {"status": "column-count" if len(names) != len(expect) else "names-differ", "detail": "", "sql": a["sql"], "names": names}
                fid = relcheck.classify(c, r, "sql." + d)
                ctx.oracle_failure(fid, f"{d}: result columns {names} but the final frame is {expect}",
                                   {"prql": c.prql, "target": "sql." + d, "sql": a["sql"], "expanded_sql": sql2, "observed_columns": names,
                                    "expected_columns": expect, "db": c.db, "schema": c.schema_list, "class": fid},
                                   det_key=None if label.endswith("seed") else (c.prql, d))

    # (v) relations whose columns the compiler INFERS (s-strings with every kind of select item, relation literals, from_text) and what
    # a pipeline makes of that frame.  Oracle: the s-string's SQL text run by itself on SQLite gives the relation's true columns; the frame
    # semantics of the pipeline gives the expected result columns (tools/sstrgen.py)
    con = sstrgen.connect()

    def inferred_stream(label, cases, det, targets=("sql.sqlite",)):
        cases = [c for c in cases if c is not None]
        for ti, target in enumerate(targets):
            sub = cases if ti == 0 else cases[ti::7]              # the other SQLite-executable dialects on a slice
            comp = vh_batch([{"op": "compile", "prql": c.prql, "target": target} for c in sub])
            for c, a in zip(sub, comp):
                if "sql" not in a:
                    ctx.count(f"{label}:not-compiled")
                    continue
                names, err = sstrgen.names_of(con, a["sql"])
                if err:
                    ctx.count(f"{label}:sqlite-error (C01/C07 matter)")
                    continue
                ctx.case((c.prql, target), nontrivial=len(names) >= 2)
                ctx.count(f"{label}:{c.src.tag}:{c.src.order if c.src.tag == 'sstring' else 'told'}")
                if c.src.tag == "sstring" and c.src.order == "exact" and "*" not in c.inner.split("FROM")[0] and len(c.src.names) >= 2 and \
                        re.search(r"SELECT (?:[^()]*, )?(?:\w+\.)?\*", a["sql"]):
                    ctx.count(f"{label}:s-string with un-named items, wildcard kept to the result")
                fid = sstrgen.judge(c, names, a["sql"])
                if fid is None:
                    if len(ctx.samples) < 6 and det and c.src.tag == "sstring" and len(c.steps) >= 1 and len(names) >= 4 and "qual" in str(c.inner).lower() + "qual":
                        ctx.sample({"prql": c.prql, "sql": a["sql"][:300], "result_columns": names, "columns_of_the_inner_sql_run_alone": c.src.names})
                    continue
                ctx.oracle_failure(fid or None, f"result columns {names} but the final frame is {c.expect} (the s-string / literal by itself has columns {c.src.names})",
                                   {"suite": "inferred", "prql": c.prql, "target": target, "sql": a["sql"], "observed_columns": names, "expected_columns": c.expect,
                                    "source_columns": c.src.names, "inner_sql": c.inner, "steps": c.steps, "class": fid or None},
                                   det_key=(c.prql, target) if det else None)

    # (vi) frames whose columns are hard to NAME: un-aliased expression columns through every transform (append naming an un-named top
    # column after the bottom, CTE boundaries), names taken twice, columns only distinguishable by their qualifier under `select !{..}`
    # / `group {..} (..)`.  Oracle: the frame semantics of the language, kept by the generator step by step (tools/c05frames.py)
    fcon = c05frames.connect()

    def frames_stream(label, cases, det, targets=("sql.sqlite",)):
        for ti, target in enumerate(targets):
            sub = cases if ti == 0 else cases[ti::5]
            comp = vh_batch([{"op": "compile", "prql": c.prql, "target": target} for c in sub])
            for c, a in zip(sub, comp):
                if "sql" not in a:
                    ctx.count(f"{label}:not-compiled" + (" (panic: C12's matter)" if "panic" in a else ""))
                    continue
                names, err = c05frames.names_of(fcon, a["sql"])
                if err:
                    ctx.count(f"{label}:sqlite-error (C01/C07 matter)")
                    continue
                ctx.case((c.prql, target), nontrivial=len(names) >= 2)
                ctx.count(f"{label}:" + ("un-named column in the final frame" if None in c.expect else
                                         "name carried twice in the final frame" if len(set(c.expect)) < len(c.expect) else "all named, distinct"))
                for k in set(c.kinds) & {"app_bn", "app_bu", "app_mix", "app_tbl", "excl_twin", "excl_two", "excl_this", "grp_take_twin", "grp_take_two",
                                         "grp_sort_take", "grp_take_inner", "grpagg_q", "der_shadow", "sel_twins", "star", "letb"}:
                    ctx.count(f"{label}:step:{k}")
                fid = c05frames.judge(c, names)
                if fid is None:
                    if len(ctx.samples) < 8 and det and len(names) >= 3 and ((None in c.expect and "append" in c.body) or
                                                                             (len(set(c.expect)) < len(c.expect) and "select !{" in c.body)):
                        ctx.sample({"prql": c.body, "sql": a["sql"][:300], "result_columns": names, "final_frame": c.expect})
                    continue
                # expansions over columns of several inputs come out in an order that varies from call to call: such inputs are not pinned
                pinned = det and not (c.expansion and c.mixed)
                ctx.oracle_failure(fid or None, f"result columns {names} but the final frame is {c.expect} (None = a column without a name)",
                                   {"suite": "frames", "prql": c.prql, "target": target, "sql": a["sql"], "observed_columns": names,
                                    "expected_columns": c.expect, "steps": c.kinds, "class": fid or None},
                                   det_key=(c.prql, target) if pinned else None)

    frames_stream("frames-unnamed", c05frames.unnamed_cases(3, 1 if quick else 3), True, ("sql.sqlite", "sql.generic"))
    frames_stream("frames-qualified", c05frames.qualified_cases(3 if quick else 8, 0 if quick else 6), True, ("sql.sqlite", "sql.generic"))
    frames_stream("frames-seed", c05frames.rand_cases(ctx.rng, 2500 if quick else 25000), False)

    inferred_stream("inferred-grid", sstrgen.grid(con, 3 if quick else 4, full=quick), True, ("sql.sqlite", "sql.generic", "sql.postgres"))
    inferred_stream("inferred-grid-steps", sstrgen.grid_steps(con, 2 if quick else 3), True)
    inferred_stream("inferred-told", sstrgen.told(con), True)
    inferred_stream("inferred-random", sstrgen.rand(con, random.Random(5056), 4000 if quick else 30000), True)
    inferred_stream("inferred-seed", sstrgen.rand(con, ctx.rng, 3000 if quick else 30000), False, ("sql.sqlite", "sql.generic"))

    fixed = random.Random(505)
    rename_stream("rename", random.Random(5051), 250 if quick else 2000, SAFE)
    rename_stream("rename-seed", ctx.rng, 150 if quick else 2000, SAFE)
    exclusion_stream("exclusion", random.Random(5052), 200 if quick else 1500)
    exclusion_stream("exclusion-seed", ctx.rng, 100 if quick else 1500)
    explore("safe", random.Random(5053), 300 if quick else 2500, SAFE)
    explore("dup-names", random.Random(5054), 300 if quick else 2500, FULL)
    explore("wildcards", random.Random(5055), 300 if quick else 2500, UNDECL)
    explore("dup-names-systematic", None, 0, FULL,
            cases=relgen.systematic_cases(3 if quick else 4, FULL, kinds=["select", "join", "group_take", "exclude", "group_agg", "derive", "filter"]))
    # columns that a block carries only for another clause (a sort key that the projection drops, also after an aggregation or a
    # group, with and without a following take) must not reach the result: every such sequence, several variants
    hidden = relgen.sequence_cases([seq + tail for seq in [("sort", "select"), ("group_agg", "sort", "select"), ("aggregate", "derive", "sort", "select"),
                                                          ("join", "sort", "select"), ("derive", "sort", "select"), ("group_agg", "derive", "sort", "select"),
                                                          ("sort", "take", "select"), ("group_take", "sort", "select")]
                                    for tail in [(), ("take",), ("filter",)]], SAFE, seed=5057, variants=6 if quick else 25)
    ctx.coverage_extra["hidden_sort_key_cases"] = len(hidden)
    explore("hidden-sort-key", None, 0, SAFE, cases=hidden)
    explore("hidden-sort-key-generic", None, 0, SAFE, "sql.generic", cases=hidden)
    explore("seed", ctx.rng, 200 if quick else 2500, FULL)
    explore("generic", ctx.rng, 100 if quick else 1000, SAFE, "sql.generic")
    # set operations match their inputs by position: when the top is pruned / reordered around the UNION, the value under each result
    # column must still be the value of that column in both branches (rows judged against rows computed from the tables)
    appendshapes.run(ctx)
    # the mirror of extract_atomic (limiting SELECT included) and of determine_select_columns: every recorded call replayed
    n_ev, n_bad, hooked = anchortrace.run_suite(ctx, [c.prql for c in hidden] + [relgen.make_case(random.Random(5058 + i), **FULL).prql for i in range(150 if quick else 1500)],
                                                "extract", targets=("sql.sqlite", "sql.postgres"))
    if hooked:
        ctx.obligation("correspondence: extract_atomic / determine_select_columns = Model.Anchor.extractAtomic / determineSelect on every recorded call; "
                       "the returned Select is the requested output", n_bad == 0 and n_ev > 0, f"{n_ev} recorded calls replayed, {n_bad} differ")
        n_al, n_albad = alias_replay(ctx, [c.prql for c in hidden] + [relgen.make_case(random.Random(5158 + i), **FULL).prql for i in range(200 if quick else 2000)]
                                     + [relgen.make_case(random.Random(5258 + i), **UNDECL).prql for i in range(100 if quick else 1000)])
        ctx.obligation("correspondence: the alias decision of translate_select_item = Model.Projection.aliasOf on every recorded call", n_albad == 0 and n_al > 0,
                       f"{n_al} recorded calls replayed, {n_albad} differ")
        n_pm, n_pmbad, _ = postrace.run_suite(ctx, [p_["prql"] for p_ in appendshapes.programs()], "positional", targets=("sql.sqlite", "sql.postgres"))
        ctx.obligation("correspondence: the positional mapper of set operations = Model.Positional on every recorded call", n_pmbad == 0 and n_pm > 0,
                       f"{n_pm} recorded calls replayed, {n_pmbad} differ")
    else:
        ctx.assumptions.append("the trace hooks are not available in this tree: the extract_atomic mirror was not compared this run")
    ctx.obligation("oracle: result columns = final frame (all unlisted cases)", not [v for v in ctx.violations if v["kind"] == "failing-input"], "")


def alias_replay(ctx, progs, targets=("sql.sqlite", "sql.postgres")):
    """every recorded call of translate_select_item (inferred name, name in the frame, alias written) through Model.Projection.aliasOf"""
    enc = lambda x: "-" if x is None else "n:" + ".".join(str(ord(ch)) for ch in x)
    ans = vh_batch([{"op": "hook_split_trace", "prql": p, "target": t} for p in progs for t in targets])
    items = []
    for (p, t), a in zip([(p, t) for p in progs for t in targets], ans):
        for ev in (a or {}).get("events") or []:
            if ev.get("event") == "select_item":
                fresh = ev["alias"] if (ev["expected"] is None and ev["alias"] is not None) else "_fresh"
                items.append((p, t, ev, f"selalias\t{enc(ev['inferred'])}\t{enc(ev['expected'])}\t{enc(fresh)}"))
    res = drv_batch([it[3] for it in items])
    bad = 0
    for (p, t, ev, line), a in zip(items, res):
        ctx.case(("alias", line))
        ctx.count("alias:" + ("aliased" if ev["alias"] is not None else "bare") + (":unnamed-column" if ev["expected"] is None else ""))
        want = enc(ev["alias"])
        if a.split(" ")[0] != want:
            bad += 1
            ctx.disagreement("select-item-alias", f"translate_select_item differs from Model.Projection.aliasOf: inferred {ev['inferred']!r}, in the frame {ev['expected']!r}: "
                             f"real alias {ev['alias']!r}, model `{a}`", {"prql": p, "target": t, "event": ev, "model": a})
    return len(items), bad


def replay(obj):
    r = obj.get("replay", obj)
    if r.get("suite") == "wildcards":
        c, d, i = r["cols"], r["decls"], r["instances"]
        a = vh_batch([{"op": "hook_wildcards", "cols": c, "decls": d, "instances": i}])[0]
        m = drv_batch([wc_line(c, d, i)])[0]
        print(json.dumps({"cols": c, "decls": d, "instances": i, "recorded": {"real": r.get("real"), "model": r.get("model")}}, indent=1))
        print("now: real", wc_text(a), "| model", m, "| WF", wc_wf(c, d, i), "| judged:", wc_judge(c, d, i, a) or "ok")
        return 0
    if r.get("suite") == "frames":
        con = c05frames.connect()
        a = vh_batch([{"op": "compile", "prql": r["prql"], "target": r["target"]}])[0]
        print(r["prql"])
        print("steps:", r.get("steps"))
        print("sql now:", a.get("sql", a))
        print("result columns now:", c05frames.names_of(con, a["sql"]) if "sql" in a else None, "| expected (final frame, None = un-named):",
              r["expected_columns"], "| recorded:", r["observed_columns"])
        return 0
    if r.get("suite") == "inferred":
        con = sstrgen.connect()
        a = vh_batch([{"op": "compile", "prql": r["prql"], "target": r["target"]}])[0]
        print(r["prql"])
        print("inner SQL by itself:", r.get("inner_sql"), "->", sstrgen.names_of(con, r["inner_sql"]) if r.get("inner_sql") else None)
        print("sql now:", a.get("sql", a))
        print("result columns now:", sstrgen.names_of(con, a["sql"]) if "sql" in a else None, "| expected (final frame):", r["expected_columns"],
              "| recorded:", r["observed_columns"])
        return 0
    from props import c01
    return c01.replay(obj)
