"""C06 refactorings PRQL defines as equivalent do not change results (metamorphic)."""
import json, random, re
import vlib, relgen, relcheck
from vlib import vh_batch
from props.c01 import SAFE

MANIFEST = dict(
    text="Lean theorems on the reference semantics Model.Rel / Model.Fn, for all tables, rows and expressions: let_prefix (naming a "
         "pipeline prefix and continuing from the name), beta / beta_positional / beta_named_given / beta_named_default / "
         "pipe_is_last_positional (function call = body on the argument values; `x | f a` = `f a x`), subst_eval (inlining), "
         "filter_split, select_frame_id, derive_nothing_id, sort_nothing_id, take_unbounded_id. Tie: each rewrite is applied at every "
         "applicable site of generated programs and both versions are compiled by the real compiler and executed on SQLite; results "
         "must be equal (as sequences when a total sort is in effect, as bags otherwise). Every rewrite that introduces a name (let, into, "
         "module path segments, function and parameter names, aliases, derived columns) is run under each name policy PRQL's scoping admits: "
         "fresh, or equal to a name in play (a base table read in the same query - with the shadowed table then written default_db.t -, "
         "another let, a column, a std function, an SQL keyword, a compiler-generated table_N / _expr_N, names that differ by module path "
         "only); a directed stream reads the base table whose name the named prefix takes again in the continuation (self-join / append / "
         "inline pipeline, also over a prefix from another table that provides the same column names), so that a shadowed table shows in the rows.",
    note="the resolver's function/module machinery is modelled (Model.Fn is a mirror of the argument binding only), not verified; "
         "module-path resolution (T5) has no theorem yet and is covered by the metamorphic run only.",
    technique="Lean 4 proofs of the rewrite laws on the reference semantics + metamorphic differential run through the real compiler", ref="4/C06")

FN_DEFS = ("let sub_f = a b -> a - b\nlet add_f = a b -> a + b\nlet add_n = a n:0 -> a + n\nlet id_f = x -> x\n"
           "module m9 {\n  let mul_f = a b -> a * b\n}\n")


def split_top_and(expr):
    """'(A && B)' -> (A, B) at the top level of the outer parentheses"""
    if not (expr.startswith("(") and expr.endswith(")")):
        return None
    inner = expr[1:-1]
    depth = 0
    for i, ch in enumerate(inner):
        if ch in "([{":
            depth += 1
        elif ch in ")]}":
            depth -= 1
            if depth < 0:
                return None
        elif depth == 0 and inner.startswith(" && ", i):
            return inner[:i], inner[i + 4:]
    return None


GEN_NAMES = ("table_0", "table_1", "_expr_0")


def qualify(s, tables):
    """every reference to the base tables `tables` written with its full path (needed once a declaration of the same name is in scope)"""
    for T in tables:
        s = re.sub(rf"(?<![\w.]){T}\b(?![.\w])", f"default_db.{T}", s)
    return s


def rel_names(s):
    """base tables referenced in relgen text, in order of first occurrence"""
    out = []
    for T in re.findall(r"(?<![\w.])(t\d)\b(?![.\w])", s):
        if T not in out:
            out.append(T)
    return out


def assemble(decl, lets, extra, main):
    return decl + "\n" + "".join(f"let {n} = ({t})\n" for n, t in lets) + extra + "\n".join(main) + "\n"


def module_text(path, members):
    """`module a { module b { let n = (t) .. } }`; members: [(name, text)] (text already a complete right-hand side)"""
    head = "".join("  " * i + f"module {m} {{\n" for i, m in enumerate(path))
    tail = "".join("  " * i + "}\n" for i in reversed(range(len(path))))
    return head + "".join("  " * len(path) + f"let {n} = {t}\n" for n, t in members) + tail


def prefix_variants(c, decl, ulets, pre, post, rng, full, keep_alias=None):
    """[(kind, policy, program)]: the prefix `pre` of the main pipeline named by `let` / `into` / a module member and the rest continued
    from that name, under every NAME POLICY that PRQL's scoping admits: the introduced name is fresh, or equal to a name already in play
    (a base table read later / earlier in the same query, an unused base table, another let, a column, a std function, an SQL keyword,
    a name the compiler generates); a declaration at the root that takes the name of a base table shadows it, so that table is
    then written `default_db.t`; a module member never shadows anything outside its module. `from m.x` names the relation `x`:
    where that would collide with a column or function referenced by bare name, an explicit alias is given. keep_alias: the base
    program reads the prefix inline as `from <keep_alias> = (pre)` and every variant continues `from <keep_alias> = <name>`."""
    pre_s = " | ".join(pre)
    lets_s = " ".join(t for _, t in ulets)
    t_post = rel_names(" ".join(post))
    t_pre = [t for t in rel_names(pre_s + " " + lets_s) if t not in t_post]
    t_unused = [n for n, _ in c.schema.tables if n not in t_post and n not in t_pre]
    qual_refs = re.search(r"\bt\d\.", " ".join([pre_s, lets_s] + post)) is not None
    cols = [col.name for col in c.frames[len(pre) - 1]]

    ka = f"{keep_alias} = " if keep_alias else ""

    def root(N, how, qual=()):
        L = [(n, qualify(t, qual)) for n, t in ulets]
        q = [qualify(l, qual) for l in post]
        if how == "let":
            return assemble(decl, L, f"let {N} = ({qualify(pre_s, qual)})\n", [f"from {ka}{N}"] + q)
        return assemble(decl, L, "\n".join(qualify(l, qual) for l in pre) + f"\ninto {N}\n\n", [f"from {ka}{N}"] + q)

    def mod(path, N, alias=None, qual=(), qual_in=()):
        # qual: tables shadowed at the root (by the module's own name); qual_in: tables shadowed inside the module only
        L = [(n, qualify(t, qual)) for n, t in ulets]
        frm = f"from {ka or (alias + ' = ' if alias else '')}{'.'.join(path)}.{N}"
        return assemble(decl, L, module_text(path, [(N, "(" + qualify(pre_s, tuple(qual) + tuple(qual_in)) + ")")]),
                        [frm] + [qualify(l, qual) for l in post])

    out = [("let-prefix", "fresh", root("pfx", "let")), ("into", "fresh", root("pfx", "into"))]
    adv = [("let-prefix", "module-member=fresh", lambda: mod(["mm"], "pfx")),
           ("let-prefix", "module=member-name", lambda: mod(["pfx"], "pfx")),
           ("let-prefix", "nested-module-member=fresh", lambda: mod(["ma", "mb"], "pfx"))]
    if not qual_refs:
        for tag, ts in (("table-read-later", t_post[:2]), ("table-read-earlier", t_pre[:1])):
            for T in ts:
                adv += [("let-prefix", f"root={tag}", lambda T=T: root(T, "let", (T,))),
                        ("into", f"root={tag}", lambda T=T: root(T, "into", (T,))),
                        ("let-prefix", f"module-member={tag}", lambda T=T: mod(["mm"], T, qual_in=(T,))),
                        ("let-prefix", f"module-member={tag},aliased", lambda T=T: mod(["mm"], T, alias="pf", qual_in=(T,))),
                        ("let-prefix", f"nested-module-member={tag}", lambda T=T: mod(["ma", "mb"], T, qual_in=(T,))),
                        ("let-prefix", f"module-name={tag}", lambda T=T: mod([T], "pfx", qual=(T,))),
                        ("let-prefix", f"module-name=member-name={tag}", lambda T=T: mod([T], T, qual=(T,)))]
        for T in t_unused[:1]:
            adv += [("let-prefix", "root=table-unused", lambda T=T: root(T, "let")),
                    ("into", "root=table-unused", lambda T=T: root(T, "into")),
                    ("let-prefix", "module-member=table-unused", lambda T=T: mod(["mm"], T))]
    for g in GEN_NAMES:
        adv += [("let-prefix", "root=generated-name", lambda g=g: root(g, "let")),
                ("into", "root=generated-name", lambda g=g: root(g, "into")),
                ("let-prefix", "module-member=generated-name", lambda g=g: mod(["mm"], g)),
                ("let-prefix", "module-name=generated-name", lambda g=g: mod([g], g))]
    adv += [("let-prefix", "root=sql-keyword", lambda: root("order", "let")),
            ("into", "root=sql-keyword", lambda: root("group_by", "into")),
            ("let-prefix", "module-member=sql-keyword", lambda: mod(["mm"], "where", alias="pf"))]
    for n, _ in ulets:
        if not re.search(rf"\b{n}\b", pre_s):
            adv.append(("let-prefix", "module-member=other-let", lambda n=n: mod(["mm"], n)))
    if cols:
        adv.append(("let-prefix", "module-member=column,aliased", lambda: mod(["mm"], cols[0], alias="pf")))
        adv.append(("let-prefix", "module-member=column,aliased", lambda: mod(["mm"], cols[-1], alias="pf")))
    for f in ("sum", "select", "count"):
        adv.append(("let-prefix", "module-member=std-name,aliased", lambda f=f: mod(["mm"], f, alias="pf")))
    if not full and len(adv) > 6:
        adv = rng.sample(adv, 6)
    return out + [(k, pol, mk()) for k, pol, mk in adv]


def let_variants(c, decl, rng):
    """[(kind, policy, program)]: the let-tables of the program moved into modules / renamed (T5), under every name policy"""
    used = c.used_lets()
    if not used:
        return []
    ul = [(n, t) for i, (n, t, _) in enumerate(c.lets) if i in used]
    whole = "\n".join(c.text)
    alltext = whole + " " + " ".join(t for _, t in ul)
    if any(re.search(rf"\b{n}\.", alltext) for n, _ in ul):
        return []       # columns qualified by the let's name: the relation would have to keep its name
    qual_refs = re.search(r"\bt\d\.", alltext) is not None
    tabs = rel_names(whole) + [t for t in rel_names(alltext) if t not in rel_names(whole)]
    tabs += [n for n, _ in c.schema.tables if n not in tabs]

    def build(place, qual=(), qual_mod=()):
        """place: {let name: (module path or None, new name)}; qual: tables shadowed at the root; qual_mod: inside modules"""
        def ren(s):
            for n, (path, nn) in place.items():
                s = re.sub(rf"\b{n}\b", "\0".join((path or []) + [nn]), s)
            return s.replace("\0", ".")
        rootlets, mods = [], {}
        for n, t in ul:
            path, nn = place[n]
            if path is None:
                rootlets.append((nn, ren(qualify(t, qual))))
            else:
                mods.setdefault(tuple(path), []).append((nn, "(" + ren(qualify(t, tuple(qual) + tuple(qual_mod))) + ")"))
        extra = "".join(module_text(list(path), members) for path, members in mods.items())
        return assemble(decl, rootlets, extra, [ren(qualify(whole, qual))])

    out = [("module-path", "fresh", lambda: build({n: (["mm"], n) for n, _ in ul})),
           ("module-path", "nested", lambda: build({n: (["ma", "mb"], n) for n, _ in ul})),
           ("module-path", "one-module-per-let,same-member-name", lambda: build({n: ([f"m{i}"], "v") for i, (n, _) in enumerate(ul)})),
           ("module-path", "module-name=member-name", lambda: build({n: ([f"v{i}"], f"v{i}") for i, (n, _) in enumerate(ul)})),
           ("module-path", "member=generated-name", lambda: build({n: (["mm"], f"table_{i}") for i, (n, _) in enumerate(ul)})),
           ("module-path", "member=sql-keyword", lambda: build({n: (["mm"], ["order", "union"][i % 2] + "_" * (i // 2)) for i, (n, _) in enumerate(ul)})),
           ("rename-let", "generated-name", lambda: build({n: (None, f"table_{len(ul) - 1 - i}") for i, (n, _) in enumerate(ul)})),
           ("rename-let", "generated-name", lambda: build({n: (None, f"_expr_{i}") for i, (n, _) in enumerate(ul)}))]
    if len(ul) >= 2:
        # the last let moves to `mm.<name of the first let>`: two declarations that differ by module path only
        (n0, _), (n1, t1) = ul[0], ul[-1]
        if not re.search(rf"\b{n0}\b", t1):
            out.append(("module-path", "member=root-let-name", lambda: build(dict({n: (None, n) for n, _ in ul}, **{n1: (["mm"], n0)}))))
    if not qual_refs and len(tabs) >= len(ul):
        names = tabs[:len(ul)]
        out += [("module-path", "member=table-name", lambda: build({n: (["mm"], T) for (n, _), T in zip(ul, names)}, qual_mod=names)),
                ("module-path", "member=table-name,nested", lambda: build({n: (["ma", "mb"], T) for (n, _), T in zip(ul, names)}, qual_mod=names)),
                ("module-path", "one-module-per-let,member=same-table-name",
                 lambda: build({n: ([f"m{i}"], names[0]) for i, (n, _) in enumerate(ul)}, qual_mod=names[:1])),
                ("module-path", "module-name=table-name", lambda: build({n: ([names[0]], n) for n, _ in ul}, qual=names[:1])),
                ("rename-let", "table-name", lambda: build({n: (None, T) for (n, _), T in zip(ul, names)}, qual=names))]
        rnames = list(reversed(tabs))[:len(ul)]
        if rnames != names:
            out.append(("module-path", "member=table-name", lambda: build({n: (["mm"], T) for (n, _), T in zip(ul, rnames)}, qual_mod=rnames)))
    return [(k, pol, mk()) for k, pol, mk in out]


def fn_policies(c, whole, rng):
    """[(policy, definitions, names)]: the function declarations used by the beta rewrites under every name policy; names maps the
    neutral names (sub_f, add_f, add_n, id_f, mul_f = path of the module function, n = the named parameter) to the ones declared"""
    def defs(fn, p, modname="m9"):
        a, b, n, x = p
        return (f"let {fn['sub_f']} = {a} {b} -> {a} - {b}\nlet {fn['add_f']} = {a} {b} -> {a} + {b}\n"
                f"let {fn['add_n']} = {a} {n}:0 -> {a} + {n}\nlet {fn['id_f']} = {x} -> {x}\n"
                f"module {modname} {{\n  let {fn['mul_f']} = {a} {b} -> {a} * {b}\n}}\n")
    plain = dict(sub_f="sub_f", add_f="add_f", add_n="add_n", id_f="id_f", mul_f="mul_f")
    out = [("fresh", FN_DEFS, dict(plain, mul_f="m9.mul_f", n="n"))]
    used_tabs = rel_names(whole + " " + " ".join(t for _, t, _ in c.lets))
    unused = [(n, cols) for n, cols in c.schema.tables if n not in used_tabs]
    # all functions inside a module, named like things in play: base tables, columns, a let, std functions, generated names
    pool = used_tabs[:2] + [col.name for col in c.frames[0][:2]] + [n for n, _, _ in c.lets[:1]] + ["sum", "select", "table_0", "_expr_0", "mm"]
    pool = list(dict.fromkeys(pool))
    rng.shuffle(pool)
    fn = dict(zip(["sub_f", "add_f", "add_n", "id_f", "mul_f"], pool))
    body = "".join(f"  let {fn[k]} = {rhs}\n" for k, rhs in [("sub_f", "a b -> a - b"), ("add_f", "a b -> a + b"), ("add_n", "a n:0 -> a + n"),
                                                              ("id_f", "x -> x"), ("mul_f", "a b -> a * b")])
    out.append(("functions=module-members-named-like-names-in-play", "module fns {\n" + body + "}\n",
                dict({k: "fns." + v for k, v in fn.items()}, n="n")))
    # parameters named like things that are NOT in scope at the call (columns of an unused table, that table, generated names);
    # a parameter that shares its name with a column or declaration visible at the call is rejected as ambiguous by PRQL
    ps = ([unused[0][1][0].name, unused[0][1][1].name, unused[0][0], unused[0][1][2].name] if unused else []) or ["_expr_0", "table_0", "_expr_1", "table_1"]
    out.append(("parameters=foreign-columns" if unused else "parameters=generated-names", defs(plain, ps), dict(plain, mul_f="m9.mul_f", n=ps[2])))
    out.append(("root-functions=generated-names,module=unused-table" if unused else "root-functions=generated-names",
                defs(dict(sub_f="table_0", add_f="_expr_0", add_n="table_1", id_f="_expr_1", mul_f="m9"), ("a", "b", "n", "x"), unused[0][0] if unused else "m9"),
                dict(sub_f="table_0", add_f="_expr_0", add_n="table_1", id_f="_expr_1", mul_f=(unused[0][0] if unused else "m9") + ".m9", n="n")))
    return out


def rewrites(c, rng, full=False):
    """yield (kind, name policy, prql_text) variants of case c that PRQL defines as equivalent"""
    decl = c.schema.decl()
    used = c.used_lets()
    ulets = [(n, t) for i, (n, t, _) in enumerate(c.lets) if i in used]
    lets = "".join(f"let {n} = ({t})\n" for n, t in ulets)
    text = c.text
    out = []
    unique = lambda fr: len({x.name for x in fr}) == len(fr)
    qualifier = re.compile(r"\bt[0-9]\.|\bl[0-9]\." + "".join(rf"|\b{n}\." for n, _ in ulets))
    # T1 let prefix / into / module member, under every name policy
    for k in range(1, len(text)):
        if not unique(c.frames[k - 1]) or any("." in col.ref for col in c.frames[k - 1]):
            continue
        pre, post = text[:k], text[k:]
        if any(qualifier.search(l) for l in post):
            continue
        out += prefix_variants(c, decl, ulets, pre, post, rng, full)
    # T3 filter split
    for i, l in enumerate(text):
        if l.startswith("filter "):
            sp = split_top_and(l[7:])
            if sp:
                out.append(("filter-split", "-", decl + "\n" + lets + "\n".join(text[:i] + [f"filter {sp[0]}", f"filter {sp[1]}"] + text[i + 1:]) + "\n"))
    # T4 identities
    for i in range(1, len(text) + 1):
        fr = c.frames[i - 1]
        ins = [("id-derive-empty", "derive {}"), ("id-filter-true", "filter true"), ("id-take-open", "take 1..")]
        if unique(fr):
            ins.append(("id-select-frame", "select {" + ", ".join(col.ref for col in fr) + "}"))
        kind, line = rng.choice(ins)
        out.append((kind, "-", decl + "\n" + lets + "\n".join(text[:i] + [line] + text[i:]) + "\n"))
    # T6 inlining read backwards: the condition of a filter named by a derive first (the column is dropped again by a select of the
    # frame), the new column named fresh / like names in play that are not visible as bare names at that point
    for i, l in enumerate(text):
        fr = c.frames[i - 1] if i else []
        if l.startswith("filter ") and unique(fr):
            here = " ".join(text[:i + 1])
            tabs = [n for n, _ in c.schema.tables if not re.search(rf"\b{n}\b", here + " " + lets)]
            cands = [("fresh", "zz", "zz"), ("generated-name", "_expr_0", "_expr_0"), ("generated-name", "_expr_1", "_expr_1"),
                     ("generated-name", "table_0", "table_0"), ("std-name,this-qualified", "sum", "this.sum"),
                     ("std-name,this-qualified", "select", "this.select"), ("sql-keyword", "order", "order"), ("module-name", "m9", "this.m9")]
            cands += [("table-not-in-scope", T, T) for T in tabs[:1]]
            for pol, N, ref in (cands if full else [cands[0], rng.choice(cands[1:])]):
                if any(col.name == N for col in fr):
                    continue
                out.append(("name-condition", "column=" + pol, decl + "\n" + (FN_DEFS if pol == "module-name" else "") + lets + "\n".join(
                    text[:i] + [f"derive {{{N} = {l[7:]}}}", f"filter {ref}", "select {" + ", ".join(col.ref for col in fr) + "}"] + text[i + 1:]) + "\n"))
    # T4' an alias given to a source relation whose columns are only referred to by bare names
    wholetext = " ".join(text)
    for i, l in enumerate(text):
        m = re.match(r"(from |join (?:side:\w+ )?)(t\d|[lp]\d)( \(.*|)$", l)
        if not m or re.search(rf"\b{m.group(2)}\.", wholetext):
            continue
        others = [T for T in rel_names(wholetext + " " + lets) if T != m.group(2)]
        cands = [("fresh", "al"), ("generated-name", "table_0"), ("generated-name", "table_1"), ("sql-keyword", "order"), ("module-name", "m9")]
        cands += [("other-table-in-query", T) for T in others[:2] if not re.search(rf"\b{T}\.", wholetext)]
        cands += [("table-not-in-query", n) for n, _ in c.schema.tables if n not in others and n != m.group(2)][:1]
        cands += [("let-name", n) for n, _ in ulets if n != m.group(2) and not re.search(rf"\b{n}\.", wholetext)][:1]
        for pol, A in (cands if full else [cands[0], rng.choice(cands[1:])]):
            out.append(("id-alias", "alias=" + pol, decl + "\n" + (FN_DEFS if pol == "module-name" else "") + lets + "\n".join(text[:i] + [f"{m.group(1)}{A} = {m.group(2)}{m.group(3)}"] + text[i + 1:]) + "\n"))
    # T5' a base table referred to by its full path (every reference / only the first one, so that `t` and `default_db.t` meet in one query)
    tabs_here = rel_names(wholetext + " " + lets)
    if tabs_here and not re.search(r"\bt\d\.", wholetext + " " + lets):
        body = lets + "\n".join(text) + "\n"
        out.append(("table-full-path", "every-reference", decl + "\n" + qualify(body, tabs_here)))
        T = rng.choice(tabs_here)
        out.append(("table-full-path", "first-reference-only", decl + "\n" + re.sub(rf"(?<![\w.]){T}\b(?![.\w])", f"default_db.{T}", body, count=1)))
    # T2 beta: positional / piped / named-with-default / identity function / function in a module (T5), under every name policy
    whole = "\n".join(text)
    V = r"([a-z][a-z0-9]*)"
    pols = fn_policies(c, whole, rng)
    if not full:
        pols = pols[:1] + [rng.choice(pols[1:])]
    for policy, defs, fn in pols:
        pats = [("beta-positional", rf"\({V} - {V}\)", rf"({fn['sub_f']} \1 \2)"),
                ("beta-piped", rf"\({V} - {V}\)", rf"(\2 | {fn['sub_f']} \1)"),
                ("beta-named", rf"\({V} \+ {V}\)", rf"({fn['add_n']} {fn['n']}:\2 \1)"),
                ("beta-default", rf"\({V} \+ 0\)", rf"({fn['add_n']} \1)"),
                ("beta-module-path", rf"\({V} \* {V}\)", rf"({fn['mul_f']} \1 \2)"),
                ("beta-positional-add", rf"\({V} \+ {V}\)", rf"({fn['add_f']} \1 \2)")]
        for kind, pat, rep in pats:
            if re.search(pat, whole):
                out.append((kind, policy, decl + "\n" + defs + lets + re.sub(pat, rep, whole, count=rng.choice([1, 0])) + "\n"))
        m = re.search(r"^(filter )(.*)$", whole, re.M)
        if m:
            out.append(("beta-identity-fn", policy, decl + "\n" + defs + lets + whole[:m.start()] + f"filter ({fn['id_f']} {m.group(2)})" + whole[m.end():] + "\n"))
    # T2 beta with a curried function (a function whose body is a function whose body is the expression): piped / applied in two steps
    cur_defs = "let sub_c9 = b9 -> (a9 -> a9 - b9)\nlet mul_c9 = b9 -> (a9 -> a9 * b9)\nlet add_c9 = b9 -> (a9 -> a9 + b9)\n"
    for kind, pat, rep in [("beta-curried-piped", rf"\({V} - {V}\)", r"(\1 | sub_c9 \2)"), ("beta-curried-applied", rf"\({V} \* {V}\)", r"((mul_c9 \2) \1)"),
                           ("beta-curried-piped-constant", rf"\({V} \+ ([0-9])\)", r"(\1 | add_c9 \2)"), ("beta-curried-applied-add", rf"\({V} \+ {V}\)", r"((add_c9 \2) \1)")]:
        if re.search(pat, whole):
            out.append((kind, "fresh", decl + "\n" + cur_defs + lets + re.sub(pat, rep, whole, count=rng.choice([1, 0])) + "\n"))
    # T5 moving let-tables into modules and referring to them by path / renaming them, under every name policy
    lv = let_variants(c, decl, rng)
    if not full and len(lv) > 5:
        lv = lv[:1] + rng.sample(lv[1:], 4)
    out += lv
    return out


class Shadow:
    """directed base program `from lft = (from t | P) | Q` (the inlined form of `let n = (from t | P)` .. `from lft = n | Q`) where Q reads the SAME base table t again (self-join, append, inline pipeline): a named
    prefix that takes t's name and wrongly shadows t in the SQL would mostly still provide the columns Q reads, i.e. go unnoticed by
    the database; only the rows tell. Quacks like relgen.Case as far as the evaluation loop needs."""

    def __init__(self, schema, db, pre, post, cols):
        self.schema, self.db, self.pre, self.post = schema, db, pre, post
        self.text = ["from lft = (" + " | ".join(pre) + ")"] + post
        self.frames = [[relgen.Col(n, "int") for n in cols]] * (len(pre) + len(post))
        self.lets = []
        self.columns = []

    @property
    def prql(self):
        return self.schema.decl() + "\n" + "\n".join(self.text) + "\n"

    @property
    def schema_list(self):
        return [(n, [(c.name, c.ty) for c in cols]) for n, cols in self.schema.tables]


def shadow_cases(ndb):
    out = []
    for d in range(ndb):
        rng = random.Random(6363 + d)
        schema = relgen.Schema(rng, 3, shared_k=False)
        db = relgen.gen_db(rng, schema, maxrows=7, empty_p=0)
        for i in range(3):
            j = (i + 1 + d) % 3
            u, a, b, k, t, uj, aj, tj = f"u{i}", f"a{i}", f"b{i}", f"k{i}", f"t{i}", f"u{j}", f"a{j}", f"t{j}"
            P = [([f"filter ({a} ?? 0) >= 1"], [u, a, b, k]),
                 ([f"sort {{-{u}}}", "take 3"], [u, a, b, k]),
                 ([f"select {{{u}, {a} = ({a} ?? 0) + 100, {b}, {k}}}"], [u, a, b, k]),
                 ([f"select {{{u} = {u} + 1, {a}, {b}, {k}}}"], [u, a, b, k]),
                 ([f"filter {u} > 2", f"select {{{u}, {a}}}"], [u, a]),
                 ([f"group {{{k}}} (aggregate {{{u} = min {u}, {a} = sum {a}}})"], [k, u, a])]
            # prefixes over ANOTHER table that provide t's column names: taking t's name shadows t without any binding error
            ren = f"select {{{u} = {uj}, {a} = {aj}, {b} = b{j}, {k} = k{j}}}"
            P = [([f"from {t}"] + pp, cc) for pp, cc in P]
            P += [([f"from {tj}", ren], [u, a, b, k]), ([f"from {tj}", f"filter {uj} > 1", ren], [u, a, b, k]),
                  ([f"from {tj}", f"select {{{u} = {uj}, {a} = {aj}}}", f"sort {{{u}}}", "take 4"], [u, a])]
            sel = f"select {{lu = lft.{u}, la = lft.{a}, ru = r.{u}, ra = r.{a}}}"
            Q = [[f"join side:left r = {t} (lft.{u} == r.{u})", sel],
                 [f"join r = {t} (=={u})", sel],
                 [f"join side:full r = {t} (lft.{a} == r.{a})", sel],
                 [f"select {{{u}, {a}}}", f"append (from {t} | select {{{u}, {a}}})"],
                 [f"join side:inner r = (from {t} | filter {u} < 6 | select {{{u}, {a}}}) (lft.{u} == r.{u})", sel],
                 [f"join o = {tj} (lft.{u} == o.{uj})", f"join side:left r = {t} (o.{aj} == r.{a})",
                  f"select {{lu = lft.{u}, ou = o.{uj}, ru = r.{u}, ra = r.{a}}}"],
                 [f"select {{{u}, {a}}}", "take 5", f"filter {u} != 4", f"join side:left r = {t} (=={u})", f"select {{{u} = this.lft.{u}, ra = r.{a}}}"],
                 [f"join side:left r = {t} (lft.{u} == r.{u})", sel, "group {lu} (aggregate {n = count this, s = sum ra})"]]
            for pre, cols in P:
                for post in Q:
                    out.append(Shadow(schema, db, pre, post, cols))
    return out


def classify_name_clash(c, sql, err):
    """known finding `base-table-renamed-for-cte-of-same-name`: SQLite misses a table_N that no CTE defines, while a CTE carries the name
    of a base table of the schema and that base table is nowhere read under its own name outside that CTE's use"""
    m = re.fullmatch(r"OperationalError: no such table: (table_\d+)", err or "")
    if not m or re.search(rf"\b{m.group(1)} AS (?:MATERIALIZED )?\(", sql):
        return None
    ctes = re.findall(r"(?:WITH|,)\s+(\w+) AS (?:MATERIALIZED )?\(", sql)
    if any(n in ctes for n, _ in c.schema.tables) and re.search(rf"(?:FROM|JOIN)\s+{m.group(1)} AS \w+", sql):
        return "base-table-renamed-for-cte-of-same-name"
    return None


def run(ctx):
    br = vlib.standard_proof_obligations(ctx, ["PrqlModel.Props.C06"], [],
        required_theorems=["let_prefix", "beta", "beta_positional", "beta_named_given", "beta_named_default",
                           "pipe_is_last_positional", "subst_eval", "filter_split", "select_frame_id",
                           "derive_nothing_id", "sort_nothing_id", "take_unbounded_id"])
    ctx.rule = ("base programs from the relational generator (safe profile) x every applicable rewrite site and kind (let-prefix, into, "
                "filter split, identity transforms, source aliases, naming a filter condition, function beta: positional/piped/named/default/identity, "
                "let-tables moved into modules / renamed) x NAME POLICY of every name the rewrite introduces (fresh, or equal to a name in play: "
                "base table read in the same query, other let, column, std function, SQL keyword, compiler-generated name, module path "
                "segments) wherever PRQL's scoping keeps the program valid; both versions "
                "compiled with the real compiler for sqlite and executed on the same database; a case is (base program, rewrite kind, site); "
                "non-trivial = both compile and the base returns rows; directed stream shared-let (tools/sharedlet.py): a sorted prefix named ONCE by a let and "
                "read TWICE (main pipeline + join / append argument or further lets, either declaration order), every reader taking rows, x 3 databases, "
                "base vs rewritten compared as bags")
    if not (br.cargo_ok and br.drv_ok):
        return
    quick = ctx.tier == "quick"
    rngs = [random.Random(606), ctx.rng]
    nbase = (300, 150) if quick else (2000, 2000)
    sysbase = relgen.systematic_cases(2 if quick else 3, SAFE, seed=66, kinds=["select", "derive", "filter", "sort", "take", "aggregate", "group_agg", "group_take", "join", "window"])
    sysbase += relgen.inherited_order_cases(SAFE, variants=2 if quick else 4)
    # filters of the form A && (B || C): the filter-split rewrite leaves a filter with a top-level `||` next to another filter in one clause
    # (the same family in both tiers)
    sysbase += [c_ for c_ in relgen.systematic_cases(2, dict(SAFE, disj_filters=True), seed=67, variants=2,
                                                     kinds=["filter", "select", "derive", "sort", "take", "group_agg", "join"]) if "filter" in c_.seq]
    # programs with let-tables (for the module / renaming rewrites): prefix named by a let at every cut, plus generated programs with
    # one or two let-tables whose main pipeline joins / appends base tables
    letrng = random.Random(6262)
    sysbase += relgen.systematic_let_cases(2, SAFE)
    nlb = 0
    for _ in range(400 if quick else 1600):
        c = relgen.make_case(letrng, nlets=letrng.choice([1, 2]), max_tr=3, kinds=["join", "join", "append", "filter", "select", "derive", "sort", "take",
                                                                                    "group_agg"], **SAFE)
        if c.used_lets() and nlb < (120 if quick else 500):
            sysbase.append(c)
            nlb += 1
    ctx.coverage_extra["systematic_base_programs"] = len(sysbase)
    for det, (rng, n) in zip((True, True, False), [(random.Random(6060), 0)] + list(zip(rngs, nbase))):
        kinds = ["select", "derive", "filter", "sort", "take", "aggregate", "group_agg", "group_take", "join", "append", "derive",
                 "filter", "sort", "take", "window", "window"]
        cases = sysbase if n == 0 else [relgen.make_case(rng, kinds=kinds, **SAFE) for _ in range(n)]
        base = relcheck.run_cases(cases, "sql.sqlite")
        reqs, meta = [], []
        for c, r in zip(cases, base):
            if r["status"] != "ok":
                ctx.count("base:" + r["status"])
                continue
            for kind, policy, prql in rewrites(c, rng, full=(n == 0)):
                reqs.append({"op": "compile", "prql": prql, "target": "sql.sqlite"})
                meta.append((c, r, kind, policy, prql))
        if n == 0:
            # directed: named prefixes over a base table that the continuation reads again (bag comparison; no reference model involved)
            sh = shadow_cases(1 if quick else 4)
            ctx.coverage_extra["directed_same_table_read_again_programs"] = len(sh)
            for c, a in zip(sh, vh_batch([{"op": "compile", "prql": c.prql, "target": "sql.sqlite"} for c in sh])):
                names, rows, err = relgen.run_sqlite(c.schema_list, c.db, a["sql"]) if "sql" in a else (None, None, "not compiled")
                if err:
                    ctx.count("directed-base:" + ("sqlite-error" if "sql" in a else "rejected"))
                    continue
                c.columns = names
                r = {"status": "ok", "rows": rows, "names": names, "mode": "bag", "sql": a["sql"]}
                for kind, policy, prql in prefix_variants(c, c.schema.decl(), [], c.pre, c.post, rng, True, keep_alias="lft"):
                    reqs.append({"op": "compile", "prql": prql, "target": "sql.sqlite"})
                    meta.append((c, r, kind, policy, prql))
        ans = vh_batch(reqs)
        for (c, r, kind, policy, prql), a in zip(meta, ans):
            ctx.count("rewrite:" + kind)
            if policy != "-":
                ctx.count("names:" + policy)
            kind_p = kind if policy in ("-", "fresh") else f"{kind} [{policy}]"
            if "sql" not in a:
                reason = (a.get("errors") or [{}])[0].get("reason", str(a)[:120]) if "panic" not in a else "panic: " + a["panic"]
                # the rewritten program must be accepted just like the base program
                ctx.case((prql,), nontrivial=False)
                fid = None
                if "panic" in a:
                    fid = relcheck.classify(type("X", (), {"prql": prql, "columns": c.columns})(), {"status": "panic", "detail": a["panic"], "sql": ""})
                ctx.oracle_failure(fid, f"{kind_p}: the rewritten program is rejected ({reason}) although the base program compiles",
                                   {"kind": kind, "names": policy, "base": c.prql, "rewritten": prql, "answer": a}, det_key=(prql,) if det else None)
                continue
            names, rows, err = relgen.run_sqlite(c.schema_list, c.db, a["sql"])
            ctx.case((prql, str(c.db)), nontrivial=bool(r.get("rows")))
            if err:
                r2 = {"status": "sqlite-error", "detail": err, "sql": a["sql"]}
                fid = relcheck.classify(type("X", (), {"prql": prql, "columns": c.columns})(), r2)
                if fid is None:
                    fid = classify_name_clash(c, a["sql"], err)
                ctx.oracle_failure(fid, f"{kind_p}: rewritten program fails on SQLite: {err}",
                                   {"kind": kind, "names": policy, "base": c.prql, "rewritten": prql, "sql": a["sql"], "db": c.db}, det_key=(prql, c.db) if det else None)
                continue
            mode = r.get("mode")
            if mode == "ambiguous":
                continue
            bnames = r.get("names") or []
            if names != bnames and sorted(names) == sorted(bnames) and len(set(names)) == len(names):
                # same columns in a different order: a difference in the result all the same
                fid = "group-column-order-lineage-dependent" if re.search(r"\bgroup\b", prql) else None
                ctx.oracle_failure(fid, f"{kind_p}: the result columns come in a different order ({bnames} vs {names})",
                                   {"kind": kind, "names": policy, "base": c.prql, "rewritten": prql, "base_columns": bnames, "columns": names})
                perm = [names.index(n) for n in bnames]
                rows = [[row[i] for i in perm] for row in rows]
            same = (rows == r["rows"]) if mode == "seq" else (relgen.canon_rows(rows) == relgen.canon_rows(r["rows"]))
            if not same and "WITH " in a["sql"]:
                sql2 = re.sub(r"\b(\w+) AS \(SELECT", r"\1 AS MATERIALIZED (SELECT", a["sql"])
                _, rows2, err2 = relgen.run_sqlite(c.schema_list, c.db, sql2)
                if not err2:
                    same = (rows2 == r["rows"]) if mode == "seq" else (relgen.canon_rows(rows2) == relgen.canon_rows(r["rows"]))
            if not same:
                r2 = {"status": "rows-differ", "detail": "", "sql": a["sql"], "names": names}
                fid = relcheck.classify(type("X", (), {"prql": prql, "columns": c.columns})(), r2)
                if fid is None and kind == "id-take-open" and re.search(r"take [^\n]*\n(?:[^\n]*\n)*?sort [^\n]*\ntake 1\.\.", prql):
                    fid = "open-take-after-sort-merges-earlier-take"
                if fid is None and kind in ("let-prefix", "into") and re.search(r"OVER \((?:PARTITION BY [^()]*)?\)", a["sql"]) and \
                        re.search(r"OVER \([^()]*ORDER BY", r["sql"]) and "sort" in prql:
                    fid = "window-order-lost-across-let"
                ctx.oracle_failure(fid, f"{kind_p}: result differs from the base program's",
                                   {"kind": kind, "names": policy, "base": c.prql, "rewritten": prql, "base_sql": r["sql"], "sql": a["sql"], "db": c.db,
                                    "schema": c.schema_list, "base_rows": r["rows"], "rows": rows, "compared_as": mode},
                                   det_key=(prql, c.db) if det else None)
            elif len(ctx.samples) < 5 and rows:
                ctx.sample({"kind": kind, "rewritten": prql.split("}\n", 1)[-1], "rows": rows[:2]})
    # directed: a sorted prefix named ONCE and read TWICE (main pipeline + join / append argument), each reader taking rows
    import sharedlet
    sharedlet.run(ctx)
    ctx.obligation("oracle: every rewrite leaves the executed result unchanged (all unlisted cases)", not ctx.violations, "")


def replay(obj):
    if obj.get("kind") in ("no-failing-input-found", "correspondence") or obj.get("correspondence"):
        return vlib.replay_correspondence(obj)
    r = obj.get("replay", obj)
    print(json.dumps(r, indent=1)[:3000])
    for k in ("base", "rewritten"):
        print(k, vh_batch([{"op": "compile", "prql": r[k], "target": "sql.sqlite"}])[0])
    return 0
