"""C06 refactorings PRQL defines as equivalent do not change results (metamorphic)."""
import json, random, re
import vlib, relgen, relcheck
from vlib import vh_batch
from props.c01 import SAFE

MANIFEST = dict(
    text="Lean theorems on the reference semantics Model.Rel / Model.Fn, for all tables, rows and expressions: let_prefix (naming a "
         "pipeline prefix and continuing from the name), beta / beta_positional / beta_named_given / beta_named_default / "
         "pipe_is_last_positional (function call = body on the argument values; `x | f a` = `f a x`), subst_eval (inlining), "
         "filter_split, select_frame_id, derive_nothing_id, sort_nothing_id, take_unbounded_id. Tie: each rewrite is applied at every "
         "applicable site of generated programs and both versions are compiled by the real compiler and executed on SQLite; results "
         "must be equal (as sequences when a total sort is in effect, as bags otherwise).",
    note="the resolver's function/module machinery is modelled (Model.Fn is a mirror of the argument binding only), not verified; "
         "module-path resolution (T5) has no theorem yet and is covered by the metamorphic run only.",
    technique="Lean 4 proofs of the rewrite laws on the reference semantics + metamorphic differential run through the real compiler", ref="4/C06")

FN_DEFS = ("let sub_f = a b -> a - b\nlet add_f = a b -> a + b\nlet add_n = a n:0 -> a + n\nlet id_f = x -> x\n"
           "module m9 {\n  let mul_f = a b -> a * b\n}\n")


def split_top_and(expr):
    """'(A && B)' -> (A, B) at the top level of the outer parentheses"""
    if not (expr.startswith("(") and expr.endswith(")")):
        return None
    inner = expr[1:-1]
    depth = 0
    for i, ch in enumerate(inner):
        if ch in "([{":
            depth += 1
        elif ch in ")]}":
            depth -= 1
            if depth < 0:
                return None
        elif depth == 0 and inner.startswith(" && ", i):
            return inner[:i], inner[i + 4:]
    return None


def rewrites(c, rng):
    """yield (kind, prql_text) variants of case c that PRQL defines as equivalent"""
    decl = c.schema.decl()
    used = c.used_lets()
    lets = "".join(f"let {n} = ({t})\n" for i, (n, t, _) in enumerate(c.lets) if i in used)
    text = c.text
    out = []
    unique = lambda fr: len({x.name for x in fr}) == len(fr)
    # T1 let prefix / into
    for k in range(1, len(text)):
        if not unique(c.frames[k - 1]) or any("." in col.ref for col in c.frames[k - 1]):
            continue
        pre, post = text[:k], text[k:]
        if any(re.search(r"\bt[0-9]\.|\bl[0-9]\.", l) for l in post):
            continue
        out.append(("let-prefix", decl + "\n" + lets + f"let pfx = ({' | '.join(pre)})\n" + "\n".join(["from pfx"] + post) + "\n"))
        out.append(("into", decl + "\n" + lets + "\n".join(pre) + "\ninto pfx\n\n" + "\n".join(["from pfx"] + post) + "\n"))
    # T3 filter split
    for i, l in enumerate(text):
        if l.startswith("filter "):
            sp = split_top_and(l[7:])
            if sp:
                out.append(("filter-split", decl + "\n" + lets + "\n".join(text[:i] + [f"filter {sp[0]}", f"filter {sp[1]}"] + text[i + 1:]) + "\n"))
    # T4 identities
    for i in range(1, len(text) + 1):
        fr = c.frames[i - 1]
        ins = [("id-derive-empty", "derive {}"), ("id-filter-true", "filter true"), ("id-take-open", "take 1..")]
        if unique(fr):
            ins.append(("id-select-frame", "select {" + ", ".join(col.ref for col in fr) + "}"))
        kind, line = rng.choice(ins)
        out.append((kind, decl + "\n" + lets + "\n".join(text[:i] + [line] + text[i:]) + "\n"))
    # T2 beta: positional / piped / named-with-default / identity function / function in a module (T5)
    whole = "\n".join(text)
    pats = [("beta-positional", r"\(([a-z][a-z0-9]*) - ([a-z][a-z0-9]*)\)", r"(sub_f \1 \2)"),
            ("beta-piped", r"\(([a-z][a-z0-9]*) - ([a-z][a-z0-9]*)\)", r"(\2 | sub_f \1)"),
            ("beta-named", r"\(([a-z][a-z0-9]*) \+ ([a-z][a-z0-9]*)\)", r"(add_n n:\2 \1)"),
            ("beta-default", r"\(([a-z][a-z0-9]*) \+ 0\)", r"(add_n \1)"),
            ("beta-module-path", r"\(([a-z][a-z0-9]*) \* ([a-z][a-z0-9]*)\)", r"(m9.mul_f \1 \2)"),
            ("beta-positional-add", r"\(([a-z][a-z0-9]*) \+ ([a-z][a-z0-9]*)\)", r"(add_f \1 \2)")]
    for kind, pat, rep in pats:
        if re.search(pat, whole):
            out.append((kind, decl + "\n" + FN_DEFS + lets + re.sub(pat, rep, whole, count=rng.choice([1, 0])) + "\n"))
    m = re.search(r"^(filter )(.*)$", whole, re.M)
    if m:
        out.append(("beta-identity-fn", decl + "\n" + FN_DEFS + lets + whole[:m.start()] + f"filter (id_f {m.group(2)})" + whole[m.end():] + "\n"))
    # T5 moving let-tables into a module and referring to them by path
    if used:
        body = whole
        mlets = ""
        for i, (n, t, _) in enumerate(c.lets):
            if i in used:
                t2 = t
                for j, (n2, _, _) in enumerate(c.lets):
                    t2 = re.sub(rf"\b{n2}\b", f"mm.{n2}", t2)
                mlets += f"  let {n} = ({t2})\n"
                body = re.sub(rf"\b{n}\b", f"mm.{n}", body)
        out.append(("module-path", decl + "\nmodule mm {\n" + mlets + "}\n" + body + "\n"))
    return out


def run(ctx):
    br = vlib.standard_proof_obligations(ctx, ["PrqlModel.Props.C06"], [],
        required_theorems=["let_prefix", "beta", "beta_positional", "beta_named_given", "beta_named_default",
                           "pipe_is_last_positional", "subst_eval", "filter_split", "select_frame_id",
                           "derive_nothing_id", "sort_nothing_id", "take_unbounded_id"])
    ctx.rule = ("base programs from the relational generator (safe profile) x every applicable rewrite site and kind (let-prefix, into, "
                "filter split, identity transforms, function beta: positional/piped/named/default/identity, module path); both versions "
                "compiled with the real compiler for sqlite and executed on the same database; a case is (base program, rewrite kind, site); "
                "non-trivial = both compile and the base returns rows")
    if not (br.cargo_ok and br.drv_ok):
        return
    quick = ctx.tier == "quick"
    rngs = [random.Random(606), ctx.rng]
    nbase = (300, 150) if quick else (2000, 2000)
    sysbase = relgen.systematic_cases(2 if quick else 3, SAFE, seed=66, kinds=["select", "derive", "filter", "sort", "take", "aggregate", "group_agg", "group_take", "join", "window"])
    sysbase += relgen.inherited_order_cases(SAFE, variants=2 if quick else 4)
    ctx.coverage_extra["systematic_base_programs"] = len(sysbase)
    for det, (rng, n) in zip((True, True, False), [(random.Random(6060), 0)] + list(zip(rngs, nbase))):
        kinds = ["select", "derive", "filter", "sort", "take", "aggregate", "group_agg", "group_take", "join", "append", "derive",
                 "filter", "sort", "take", "window", "window"]
        cases = sysbase if n == 0 else [relgen.make_case(rng, kinds=kinds, **SAFE) for _ in range(n)]
        base = relcheck.run_cases(cases, "sql.sqlite")
        reqs, meta = [], []
        for c, r in zip(cases, base):
            if r["status"] != "ok":
                ctx.count("base:" + r["status"])
                continue
            for kind, prql in rewrites(c, rng):
                reqs.append({"op": "compile", "prql": prql, "target": "sql.sqlite"})
                meta.append((c, r, kind, prql))
        ans = vh_batch(reqs)
        for (c, r, kind, prql), a in zip(meta, ans):
            ctx.count("rewrite:" + kind)
            if "sql" not in a:
                reason = (a.get("errors") or [{}])[0].get("reason", str(a)[:120]) if "panic" not in a else "panic: " + a["panic"]
                # the rewritten program must be accepted just like the base program
                ctx.case((prql,), nontrivial=False)
                fid = None
                if "panic" in a:
                    fid = relcheck.classify(type("X", (), {"prql": prql, "columns": c.columns})(), {"status": "panic", "detail": a["panic"], "sql": ""})
                ctx.oracle_failure(fid, f"{kind}: the rewritten program is rejected ({reason}) although the base program compiles",
                                   {"kind": kind, "base": c.prql, "rewritten": prql, "answer": a}, det_key=(prql,) if det else None)
                continue
            names, rows, err = relgen.run_sqlite(c.schema_list, c.db, a["sql"])
            ctx.case((prql, str(c.db)), nontrivial=bool(r.get("rows")))
            if err:
                r2 = {"status": "sqlite-error", "detail": err, "sql": a["sql"]}
                fid = relcheck.classify(type("X", (), {"prql": prql, "columns": c.columns})(), r2)
                ctx.oracle_failure(fid, f"{kind}: rewritten program fails on SQLite: {err}",
                                   {"kind": kind, "base": c.prql, "rewritten": prql, "sql": a["sql"], "db": c.db}, det_key=(prql, c.db) if det else None)
                continue
            mode = r.get("mode")
            if mode == "ambiguous":
                continue
            bnames = r.get("names") or []
            if names != bnames and sorted(names) == sorted(bnames) and len(set(names)) == len(names):
                # same columns in a different order: a difference in the result all the same
                fid = "group-column-order-lineage-dependent" if re.search(r"\bgroup\b", prql) else None
                ctx.oracle_failure(fid, f"{kind}: the result columns come in a different order ({bnames} vs {names})",
                                   {"kind": kind, "base": c.prql, "rewritten": prql, "base_columns": bnames, "columns": names})
                perm = [names.index(n) for n in bnames]
                rows = [[row[i] for i in perm] for row in rows]
            same = (rows == r["rows"]) if mode == "seq" else (relgen.canon_rows(rows) == relgen.canon_rows(r["rows"]))
            if not same and "WITH " in a["sql"]:
                sql2 = re.sub(r"\b(\w+) AS \(SELECT", r"\1 AS MATERIALIZED (SELECT", a["sql"])
                _, rows2, err2 = relgen.run_sqlite(c.schema_list, c.db, sql2)
                if not err2:
                    same = (rows2 == r["rows"]) if mode == "seq" else (relgen.canon_rows(rows2) == relgen.canon_rows(r["rows"]))
            if not same:
                r2 = {"status": "rows-differ", "detail": "", "sql": a["sql"], "names": names}
                fid = relcheck.classify(type("X", (), {"prql": prql, "columns": c.columns})(), r2)
                if fid is None and kind == "id-take-open" and re.search(r"take [^\n]*\n(?:[^\n]*\n)*?sort [^\n]*\ntake 1\.\.", prql):
                    fid = "open-take-after-sort-merges-earlier-take"
                if fid is None and kind in ("let-prefix", "into") and re.search(r"OVER \((?:PARTITION BY [^()]*)?\)", a["sql"]) and \
                        re.search(r"OVER \([^()]*ORDER BY", r["sql"]) and "sort" in prql:
                    fid = "window-order-lost-across-let"
                ctx.oracle_failure(fid, f"{kind}: result differs from the base program's",
                                   {"kind": kind, "base": c.prql, "rewritten": prql, "base_sql": r["sql"], "sql": a["sql"], "db": c.db,
                                    "schema": c.schema_list, "base_rows": r["rows"], "rows": rows, "compared_as": mode},
                                   det_key=(prql, c.db) if det else None)
            elif len(ctx.samples) < 5 and rows:
                ctx.sample({"kind": kind, "rewritten": prql.split("}\n", 1)[-1], "rows": rows[:2]})
    ctx.obligation("oracle: every rewrite leaves the executed result unchanged (all unlisted cases)", not ctx.violations, "")


def replay(obj):
    r = obj.get("replay", obj)
    print(json.dumps(r, indent=1)[:3000])
    for k in ("base", "rewritten"):
        print(k, vh_batch([{"op": "compile", "prql": r[k], "target": "sql.sqlite"}])[0])
    return 0
