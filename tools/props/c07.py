"""C07 every accepted program compiles to SQL the selected dialect parses and binds."""
import itertools, json, random, re
import vlib, relgen, relcheck, corpus, starexpand, sqlite3, anchortrace, ctetrace, appendshapes, postrace
from vlib import vh_batch, drv_batch
from props.c01 import SAFE, FULL, UNDECL, RICH

MANIFEST = dict(
    text="Lean theorems (i) over the dialect flags regenerated from dialect.rs: fetch_needs_offset_and_order, limit_xor_fetch, "
         "fetch_dialects, set_quantifier_rules, dialects_without_union_distinct (DISTINCT follows a set operator only where the regenerated flag set_ops_distinct allows that spelling), clauses_select_range, takes_emitted_correctly (the LIMIT/OFFSET/FETCH clause set emitted for a run of takes "
         "is well-formed for every dialect and selects exactly the rows of the takes); (ii) on the mirror of the pipeline splitter "
         "(Model.Anchor: split_off_back with its requirement / complexity bookkeeping and can_materialize over the regenerated split "
         "table, anchor_split with its redirect map): split_scope_closed (for every well-formed pipeline, wherever the scan cuts, the "
         "required columns contain everything the SELECT of the atomic part reads and each of them is an instance column of the atomic "
         "part, a kept compute whose own reads - window partition / order included - are required again, or a `missing` column), "
         "missing_provided_by_preceding (the sub-query defines and selects exactly what the outer SELECT needs from it), "
         "anchored_block_closed (after the redirect the atomic pipeline has no external column at all: no reference to a column that only "
         "exists inside the sub-query), preceding_is_wellformed (the hypothesis is inherited by every level of the recursion over sub-queries), "
         "for pipelines of any length and any numbering of the fresh ids; (iii) on the mirror of compile_relation_instance (Model.CteOrder): "
         "table_refs_are_defined_earlier (for every ranked structure of relation bodies, any prefer_cte / allow_ctes flags and any nesting of "
         "sub-queries and CTEs, a relation is referenced by name only if it is a database table or a CTE already pushed to the WITH list - "
         "hence defined earlier than the CTE containing the reference), no_relation_is_defined_twice (the WITH list has no repetition, for any structure); (iv) on the mirror of the positional mapper of set operations (Model.Positional): reprojection_keeps_the_branches_aligned (if the bottom lists its columns position by position like the top did at the set operation, then after re-projection it lists under every column the top keeps the column that stood under it: the branches stay aligned), stored_mapping_reprojects_before_to_after (the mapping stored for the bottom of a UNION / EXCEPT / INTERSECT re-projects the columns the top had at the set operation to the columns it keeps after the split: same count, same order, lists of any length), incomplete_mapping_is_not_stored, stored_mapping_is_not_overwritten, activate_takes_the_mapping / activate_without_mapping_resets (a mapping is used by the one relation it was stored for and never leaks into the next), constraints_hold_only_selected_columns (inlined helper columns do not count as columns of the top). Ties: every recorded call of the positional mapper is replayed through the mirror; set operations whose top is pruned / reordered around them (chained derives, double appends) are bound on SQLite; the recorded nesting of every compilation is replayed through "
         "Model.CteOrder (reference by name / sub-query / CTE pushed, in order); every call of extract_atomic "
         "made while compiling the corpus is recorded (cargo feature verif) and replayed through the Lean mirror - rest / missing / "
         "Select / kept transforms / fresh ids / redirected pipeline must agree exactly - and the executable scope predicates are "
         "evaluated on those real pipelines; the clause mirror is compared with the "
         "real SQL of every dialect on take chains with and without sort/distinct; every accepted program of a corpus (generated "
         "relational programs, the repository's integration queries and book examples, hand-written window/set-operation/loop/cast/"
         "std-function programs) is compiled for all 12 dialects and the text is parsed with sqlparser's grammar for that dialect "
         "(exactly one statement); for sqlite and generic the generated programs are also prepared and executed on SQLite against a "
         "schema holding the referenced tables (binding).",
    note="the grammar of each dialect is sqlparser's (trusted; the same crate that printed the text), not a Lean object; for the ten "
         "non-executable dialects the claim is 'parses', binding is checked on SQLite only. The scope theorems speak about the "
         "requirement bookkeeping of the splitter (what get_requirements declares as read); that gen_query prints nothing else is "
         "covered by the SQLite bind run, and the ORDER BY that postprocess derives from a take's embedded sort is outside the theorem "
         "(listed finding orderby-column-out-of-scope lives there). compile_loop and "
         "CTE naming are not mirrored (the preprocess stages are mirrored under C01); the bodies of the relations (which references a compilation makes) are taken from the recording.",
    technique="Lean 4 proofs: scope invariant of the mirrored pipeline splitter (induction over the back-to-front scan) + dialect clause rules over regenerated flags; "
              "replay of every recorded split through the mirror; per-dialect parse / SQLite bind run", ref="4/C07")

SQLPARSER_DIALECT = {"ansi": "ansi", "bigquery": "bigquery", "clickhouse": "clickhouse", "duckdb": "duckdb", "generic": "generic",
                     "glaredb": "postgres", "mssql": "mssql", "mysql": "mysql", "postgres": "postgres", "redshift": "redshift",
                     "sqlite": "sqlite", "snowflake": "snowflake"}

HAND = [
    "from t | derive {r = row_number this, s = sum a} | filter r < 3",
    "from t | group g (sort a | derive {rk = rank a, l = lag 1 a, ld = lead 1 a, f = first a, la = last a})",
    "from t | sort a | window rows:-2..0 (derive {m = average a})",
    "from t | window rolling:3 (derive {m = sum a})",
    "from t | group g (window expanding:true (derive {m = min a}))",
    "from a | append b", "from a | remove b", "from a | intersect b", "from a | select {x} | remove (from b | select {x})",
    "from t | group {a, b} (take 1)", "from t | group {a} (sort b | take 1)", "from t | select {a, b} | group {a, b} (take 1)",
    "from t | take 5 | loop (filter a < 10 | select {a = a + 1})",
    "from [{a = 1, b = 'x'}, {a = 2, b = 'y'}] | filter a > 1",
    "from t | select {x = (a | as int), y = (b | as text), z = (c | as float)}",
    "from t | select {r = math.round 2 a, f = math.floor a, c = math.ceil a, p = math.pow a 2, ab = math.abs a, sq = math.sqrt a, pi = math.pi}",
    "from t | select {l = text.length b, u = text.upper b, lo = text.lower b, tr = text.trim b, st = text.starts_with 'a' b, co = text.contains 'a' b, re = text.replace 'a' 'b' b, ex = text.extract 1 2 b}",
    "from t | select {d = @2020-01-01, ts = @2020-01-01T10:00:00, tm = @10:00:00, i = 2days, n = null, t = true}",
    "from t | filter (a | in 1..5) | filter (b | in ['x', 'y'])",
    "from t | select {x = a / b, y = a // b, z = a % b, w = a ** 2, v = -a, u = a ?? b}",
    "from t | filter b ~= 'ab+'",
    "from t | select {f = f\"{a}-{b}\", s = s\"UPPER({b})\"}",
    "from t | join side:full u (==id) | select {t.a, u.b}",
    "from t | join side:left u (t.id == u.tid && u.x > 1) | aggregate {n = count this}",
    "from t | sort {-a, +b} | take 3..7", "from t | take 3..", "from t | take ..4", "from t | sort a | take 2 | sort b | take 1",
    "from t | aggregate {s = sum a, c = count this, mn = min a, mx = max a, av = average a, sd = stddev a, cd = count_distinct a, al = all c, an = any c, ca = concat_array b}",
    "from t | select {c = case [a > 1 => 'x', a < 0 => 'y', true => 'z']}",
    "from t | derive {d = (date.to_text \"%Y-%m-%d\" dt)}",
    "from t | select !{a, b}", "from t | select {t.*}", "from t | derive x = 1 | select !{x}",
    "let x = (from t | select {a, b})\nlet y = (from x | filter a > 1)\nfrom y | join x (==a)",
    "from t | select {`select`, `from` = a, `Mixed Case`, `with space`}",
    "from_text format:csv \"a,b\\n1,2\" | select {a}",
    "from t | filter a == null | filter b != null",
    "from t | group a (aggregate {s = sum b}) | filter s > 1 | sort s | take 3",
    # expressions that constant-fold before they reach the back end: what is left must still be an expression of the dialect
    "from t | select {c = case [false => a, true => b]}",
    "from t | select {c = case [1 == 1 => a, b > 0 => b]}",
    "from t | select {c = case [false => a, 2 > 3 => b, true => c]} | filter (case [false => a, true => b]) > 1",
    "let flag = false\nfrom t | derive {net = case [flag => a - b, true => a]} | sort (case [flag => a, true => b])",
    "from t | select {c = case [false => a]}",
    "from t | select {c = case [true => a, false => b]}",
    "from t | filter (true && a > 1) | filter (false || b > 1) | select {x = null ?? a, y = a ?? null, z = !false, w = -(-1), v = (1 + 2) * a}",
    "from t | group g (aggregate {s = sum (case [false => a, true => b])}) | filter (case [1 > 2 => s, true => g]) > 0",
    "from t | join u (true) | select {t.a, u.b}",
    "from t | join side:left u (1 == 1) | select {t.a, u.b}",
]


def scope_problems(sql):
    """structural scope check of the emitted statement: a relation name used in FROM/JOIN that is the name of a CTE of this
    statement must be defined EARLIER in the WITH list - or be the CTE itself, and then the list must be WITH RECURSIVE"""
    try:
        ctes, main = starexpand.split_ctes(sql[len("WITH RECURSIVE "):] and ("WITH " + sql[len("WITH RECURSIVE "):]) if sql.startswith("WITH RECURSIVE ") else sql)
    except Exception:
        return []
    recursive = sql.startswith("WITH RECURSIVE ")
    names = [n for n, _ in ctes]
    out = []
    for i, (n, body) in enumerate(ctes + [("<main>", main)]):
        text = re.sub(r"'(?:[^']|'')*'", "''", body)
        for ref in re.findall(r"(?:FROM|JOIN) (\w+)", text):
            if ref in names:
                j = names.index(ref)
                if j == i and not recursive:
                    out.append(f"CTE {n} reads from itself but the statement is not WITH RECURSIVE")
                elif j > i:
                    out.append(f"{n} reads from {ref}, which is defined later")
    return out


HAND_SCHEMA = [("t", ["a", "b", "c", "g", "id", "dt", "x", "n"]), ("u", ["id", "tid", "x", "b", "c", "k", "label"]), ("a", ["x", "n"]), ("b", ["x", "n"])]
HAND_BIND = [
    "from t | sort x | take 5 | join (from [{k = 1, label = 'one'}, {k = 2, label = 'two'}] | filter k > 0) (x == k)",
    "from t | sort {-a} | take 3 | join side:left (from_text format:csv \"k,label\\n1,one\" | filter k != '') (t.b == k)",
    "let s = (from t | sort a | take 4)\nfrom [{k = 1}] | filter k > 0 | join s (k == s.a)",
    "from [{n = 1}] | loop (filter n < 4 | select n = n + 1) | take 5 | filter n > 1",
    "from [{n = 1}] | loop (filter n < 4 | select n = n + 1) | sort n | take 2 | derive m = n * 2 | filter m > 1",
    "from a | select {n} | loop (filter n < 3 | select n = n + 1) | aggregate {s = sum n} | filter s > 0",
    "from t | sort a | take 3 | append (from [{a = 9, b = 9, c = 9, g = 9, id = 9, dt = 9, x = 9, n = 9}] | filter a > 0)",
    "from t | group g (sort a | take 1) | join (from [{k = 1}] | derive {k2 = k + 1} | filter k2 > 1) (g == k)",
]


def extract_clauses(sql):
    lim = re.search(r"LIMIT (\d+)", sql)
    off = re.search(r"OFFSET (\d+)( ROWS)?", sql)
    fet = re.search(r"FETCH FIRST (\d+) ROWS ONLY", sql)
    fill = "select-null" if "ORDER BY (SELECT NULL)" in sql else "-"
    return (f"limit={lim.group(1) if lim else '-'} offset={off.group(1) if off else '-'} rows={'true' if (off and off.group(2)) else 'false'} "
            f"fetch={fet.group(1) if fet else '-'} fill={fill}")


# constructs the target engine accepts but sqlparser's grammar for that dialect does not (limits of the trusted parser, not
# defects of the compiler): (dialect, regex on the SQL, regex on the parser message)
GRAMMAR_GAPS = [("clickhouse", r" DIV ", r"No infix parser for token Word\(Word \{ value: \"DIV\"")]


def classify_text(prql, sql, err, dialect):
    if "--" in sql:
        return "double-minus-is-a-comment"
    if dialect == "ansi" and re.search(r"\b_expr_[0-9]+", sql):
        return "ansi-generated-identifier-leading-underscore"
    if dialect == "mssql" and "found: AS" in err and re.search(r"(=|<>|<|>|<=|>=|IS NULL|IS NOT NULL|\bAND\b|\bOR\b|NOT ).*? AS \w+", sql):
        return "mssql-boolean-valued-select-item"
    if dialect == "redshift" and re.search(r"SELECT FROM ", sql):
        return "redshift-zero-column-select"
    return None


def run(ctx):
    br = vlib.standard_proof_obligations(ctx, ["PrqlModel.Props.C07"], ["Dialects"],
        required_theorems=["fetch_needs_offset_and_order", "limit_xor_fetch", "fetch_dialects", "clauses_select_range", "takes_emitted_correctly",
                            "split_scope_closed", "missing_provided_by_preceding", "anchored_block_closed", "split_closed_monitor",
                            "preceding_is_wellformed", "table_refs_are_defined_earlier", "no_relation_is_defined_twice",
                            "stored_mapping_reprojects_before_to_after", "incomplete_mapping_is_not_stored", "stored_mapping_is_not_overwritten",
                            "activate_takes_the_mapping", "activate_without_mapping_resets", "constraints_hold_only_selected_columns",
                            "set_quantifier_rules", "dialects_without_union_distinct", "reprojection_keeps_the_branches_aligned"])
    ctx.rule = ("(i) take chains x {sorted, unsorted} x 12 dialects: LIMIT/OFFSET/FETCH/ORDER BY filler of the real SQL vs the Lean clause "
                "mirror; (ii) every accepted program of the corpus x 12 dialects parsed with sqlparser's dialect grammar (one statement); "
                "(iii) generated relational programs executed on SQLite (sqlite and generic targets); a case = (program, dialect); "
                "non-trivial = accepted by the compiler for that dialect")
    if not (br.cargo_ok and br.drv_ok):
        return
    quick = ctx.tier == "quick"
    dialects = br.gen["Dialects"]["summary"]["variants"] if "Dialects" in br.gen else list(SQLPARSER_DIALECT)
    # (i) clause correspondence
    bounds = [None, 1, 3]
    ranges = [(a, b) for a in bounds for b in bounds if not (a and b and b < a) and not (a is None and b is None)]
    chains = [c for n in (1, 2) for c in itertools.product(ranges, repeat=n)]
    o = lambda x: "-" if x is None else str(x)
    reqs, meta = [], []
    for d in dialects:
        for ch in chains:
            for srt in (False, True):
                takes = " | ".join(f"take {a or ''}..{b or ''}" for a, b in ch)
                reqs.append({"op": "compile", "prql": "from t | select {a, b} | " + ("sort a | " if srt else "") + takes, "target": "sql." + d})
                meta.append((d, ch, srt))
    ans = vh_batch(reqs)
    mod = drv_batch([f"clauses\t{d}\t" + ";".join(f"{o(a)},{o(b)}" for a, b in ch) + f"\t{0 if srt else 1}\t0" for d, ch, srt in meta])
    nbad = 0
    for (d, ch, srt), a, m in zip(meta, ans, mod):
        ctx.case(("clauses", d, ch, srt))
        if "sql" not in a:
            ctx.oracle_failure(None, f"{d}: take chain {ch} rejected", {"dialect": d, "chain": ch, "answer": a})
            continue
        if extract_clauses(a["sql"]) != m:
            nbad += 1
            ctx.disagreement("clause-emission", f"{d} {ch} sorted={srt}: real `{extract_clauses(a['sql'])}` vs mirror `{m}`", {"sql": a["sql"], "model": m})
    ctx.obligation("correspondence: LIMIT/OFFSET/FETCH clause set = Model.Clause.emitFor for all dialects", nbad == 0, f"{len(meta)} cases")

    # (i-b) the quantifier of set operations: every de-duplicating / duplicate-keeping UNION, EXCEPT, INTERSECT x 12 dialects vs the mirror
    # over the regenerated flag set_ops_distinct; for sqlite the statement is also executed (SQLite knows no `UNION DISTINCT`)
    DECL2 = "module default_db {\n let t <[{a = int, b = int}]>\n let u <[{a = int, b = int}]>\n}\n"
    setprogs = [("Union", True, "from t | append u | group {a, b} (take 1)"), ("Union", False, "from t | append u"),
                ("Union", True, "let x = (from t | append u | group {a, b} (take 1))\nfrom x | filter a > 0"),
                ("Union", True, "from t | append u | group {a, b} (take 1) | sort a | take 3"),
                ("Except", True, "from t | group {a, b} (take 1) | remove u"), ("Except", False, "from t | remove u"),
                ("Intersect", True, "from t | group {a, b} (take 1) | intersect u"), ("Intersect", False, "from t | intersect u")]
    sreqs = [{"op": "compile", "prql": DECL2 + p, "target": "sql." + d} for d in dialects for (_, _, p) in setprogs]
    smeta = [(d, op, dist, p) for d in dialects for (op, dist, p) in setprogs]
    sans = vh_batch(sreqs)
    smod = drv_batch([f"setquant\t{d}\t{1 if dist else 0}" for (d, op, dist, p) in smeta])
    nq = nqbad = 0
    for (d, op, dist, p), a, m in zip(smeta, sans, smod):
        ctx.case(("setquant", d, p))
        if "sql" not in a:
            ctx.count(f"set-quantifier:{d}:not-compiled")        # e.g. EXCEPT ALL on a dialect without it: an error, not SQL
            continue
        mm = re.search(r"\b(UNION|EXCEPT|INTERSECT)\b(?:\s+(ALL|DISTINCT))?", a["sql"])
        if mm is None:
            ctx.count(f"set-quantifier:{d}:no-set-operator (fallback to a join)")
            continue
        nq += 1
        real = mm.group(2) or "-"
        ctx.count(f"set-quantifier:{real}")
        if mm.group(1).upper() != op.upper() or real != m:
            nqbad += 1
            ctx.disagreement("set-quantifier", f"{d}: `{p}` emits `{mm.group(0)}`, Model.Clause.setQuantifierFor gives `{op.upper()} {m}`", {"prql": DECL2 + p, "dialect": d, "sql": a["sql"], "model": m})
        if d == "sqlite":
            names, rows, err = relgen.run_sqlite([("t", [("a", relgen.INT), ("b", relgen.INT)]), ("u", [("a", relgen.INT), ("b", relgen.INT)])],
                                                 [[(1, 1), (1, 1), (2, 3)], [(1, 1), (4, 4)]], a["sql"])
            if err:
                ctx.oracle_failure(None, f"sqlite: SQLite rejects the emitted set operation: {err}", {"prql": DECL2 + p, "target": "sql.sqlite", "sql": a["sql"], "detail": err})
    ctx.obligation("correspondence: the quantifier of every set operation = Model.Clause.setQuantifierFor for all dialects", nqbad == 0 and nq > 0, f"{nq} statements, {nqbad} differ")

    # (ii) corpus x dialects: parse
    progs = [("hand", p) for p in HAND + HAND_BIND] + [("itest:" + n, p) for n, p in corpus.integration_queries()] + [("book:" + n, p) for n, p in corpus.book_examples()]
    gen_cases = []
    for rng, n, prof in [(random.Random(707), 60 if quick else 600, SAFE), (ctx.rng, 40 if quick else 600, FULL), (ctx.rng, 30 if quick else 400, UNDECL)]:
        gen_cases += [relgen.make_case(rng, **prof) for _ in range(n)]
    progs += [("gen", c.prql) for c in gen_cases]
    if quick:
        book = [p for p in progs if p[0].startswith("book:")]
        progs = [p for p in progs if not p[0].startswith("book:")] + book[::3]
    reqs, meta = [], []
    for name, p in progs:
        if re.search(r'\bs"', p) or "s\"\"\"" in p:
            ctx.count("skipped: s-string (user-supplied SQL text)")
            continue
        hm = re.search(r"^\s*prql .*target:sql\.(\w+)", p, re.M)
        if hm:
            if hm.group(1) in dialects:
                reqs.append({"op": "compile", "prql": p})
                meta.append((name, p, hm.group(1)))
            continue
        for d in dialects:
            reqs.append({"op": "compile", "prql": p, "target": "sql." + d})
            meta.append((name, p, d))
    ans = vh_batch(reqs)
    preqs, pmeta = [], []
    for (name, p, d), a in zip(meta, ans):
        if "sql" in a:
            preqs.append({"op": "sqlparse", "dialect": SQLPARSER_DIALECT.get(d, "generic"), "sql": a["sql"]})
            pmeta.append((name, p, d, a["sql"]))
        else:
            ctx.case((p, d), nontrivial=False)
            ctx.count("rejected:" + ("panic" if "panic" in a else "error"))
            if "panic" in a:
                fid = relcheck.classify(type("X", (), {"prql": p, "columns": []})(), {"status": "panic", "detail": a["panic"], "sql": ""})
                ctx.oracle_failure(fid, f"{d}: compile panicked: {a['panic'][:100]}", {"prql": p, "dialect": d, "panic": a["panic"]},
                                   det_key=(p, d) if name != "gen" else None)
    pans = vh_batch(preqs)
    for (name, p, d, sql), pa in zip(pmeta, pans):
        ctx.case((p, d), nontrivial=True)
        ctx.count("accepted:" + d)
        bad = None
        if "tokenize_error" in pa:
            bad = "does not tokenize: " + pa["tokenize_error"]
        elif "parse_error" in pa:
            bad = "does not parse: " + pa["parse_error"]
        elif pa.get("statements") != 1:
            bad = f"{pa.get('statements')} statements"
        if not bad:
            sp = scope_problems(sql)
            if sp:
                bad = "is ill-scoped: " + "; ".join(sp)
        if bad and any(d == gd and re.search(gs, sql) and re.search(gm, bad) for gd, gs, gm in GRAMMAR_GAPS):
            ctx.count("sqlparser-grammar-gap:" + d)
            continue
        if bad:
            fid = classify_text(p, sql, bad, d)
            ctx.oracle_failure(fid, f"{d}: emitted SQL {bad}", {"prql": p, "dialect": d, "sql": sql, "problem": bad, "source": name},
                               det_key=(p, d) if name != "gen" else None)
        elif len(ctx.samples) < 4 and name == "hand" and d in ("mssql", "bigquery", "clickhouse", "snowflake"):
            ctx.sample({"prql": p, "dialect": d, "sql": sql[:200]})

    # (iii-a) hand-written programs with literal / from_text / loop relations: prepare on SQLite against a schema with the tables
    for target in ("sql.sqlite", "sql.generic"):
        comp = vh_batch([{"op": "compile", "prql": p, "target": target} for p in HAND_BIND])
        for p, a in zip(HAND_BIND, comp):
            ctx.case((p, target, "bind-hand"), nontrivial="sql" in a)
            if "sql" not in a:
                ctx.count("bind-hand:rejected")
                continue
            con = sqlite3.connect(":memory:")
            for n, cols in HAND_SCHEMA:
                con.execute(f"CREATE TABLE {n} (" + ", ".join(cols) + ")")
            try:
                con.execute("EXPLAIN " + a["sql"])
                ctx.count("bind-hand:ok")
            except Exception as e:
                r = {"status": "sqlite-error", "detail": f"OperationalError: {e}", "sql": a["sql"]}
                fid = relcheck.classify(type("X", (), {"prql": p, "columns": []})(), r, target)
                if target == "sql.generic" and re.search(r"no such function", str(e)):
                    continue
                ctx.oracle_failure(fid, f"{target}: SQLite cannot prepare the emitted SQL: {e}", {"prql": p, "target": target, "sql": a["sql"], "detail": str(e)},
                                   det_key=(p, target))
            finally:
                con.close()
    # (iii) binding on SQLite
    gen_cases = gen_cases + [relgen.make_case(rng, **RICH) for rng in [random.Random(7070)] for _ in range(120 if quick else 1200)]
    # directed shapes (seed independent): joins over all columns (INTERSECT / EXCEPT / DISTINCT rewrites), one let-table read
    # several times incl. `append <let>` first, inline join sides, group pipelines ending in select / derive
    directed = relgen.setop_cases(SAFE)
    dia = relgen.diamond_cases(SAFE, seed=71)
    directed += random.Random(72).sample(dia, 250) if quick else dia
    directed += relgen.systematic_cases(2, dict(SAFE, force_shape=["join_inline", "group_inner", "append_let"]), seed=73,
                                        kinds=["select", "derive", "filter", "sort", "take", "aggregate", "group_take", "join", "append"])
    # window functions next to every other kind (a window over a window column, windows before / after splits)
    directed += relgen.systematic_cases(2, SAFE, seed=74, kinds=["window", "derive", "filter", "sort", "take", "select", "group_agg", "join", "filter_window", "distinct"],
                                        variants=2)
    ctx.coverage_extra["directed_bind_cases"] = len(directed)
    for c_ in directed:
        c_.det = True          # seed independent: a listed finding excuses such a case only if this very input is in the ledger
    gen_cases = directed + gen_cases
    for target in ("sql.sqlite", "sql.generic"):
        res = relcheck.run_cases(gen_cases, target)
        for c, r in zip(gen_cases, res):
            ctx.case((c.prql, target, "bind"), nontrivial=r["status"] not in ("compile-error",))
            ctx.count(f"bind:{target}:{r['status']}")
            if r["status"] == "sqlite-error":
                orig = c
                fid = relcheck.classify(c, r, target)
                if target == "sql.generic" and fid is None and re.search(r"no such function: CONCAT", r["detail"]):
                    continue    # engine limitation of SQLite 3.40 for the generic dialect, not a defect of the compiler
                if fid is None or fid not in ctx.known:
                    c2, r2 = relcheck.shrink(c, r, target)
                    if relcheck.classify(c2, r2, target) == fid:
                        c, r = c2, r2
                ctx.oracle_failure(fid, f"{target}: SQLite rejects the emitted SQL: {r['detail']}",
                                   {"prql": c.prql, "target": target, "sql": r.get("sql"), "db": c.db, "schema": c.schema_list, "detail": r["detail"], "class": fid},
                                   det_key=(orig.prql, target, "bind") if getattr(orig, "det", False) else None)
    # set operations whose top input is pruned / reordered around them: both branches must still have the same number of columns
    appendshapes.run(ctx, bind_only=True)
    # (iv) the splitter mirror: every call of extract_atomic recorded while compiling the corpus is replayed through
    # Model.Anchor.splitOffBack / anchorSplit (exact agreement), and the scope predicates are evaluated on the real pipelines
    trace_progs = [p for _, p in progs if not re.search(r"^\s*prql ", p, re.M)] + [c.prql for c in gen_cases]
    if quick:
        trace_progs = trace_progs[:900]
    n_ev, n_bad, hooked = anchortrace.run_suite(ctx, trace_progs, "anchor", targets=("sql.sqlite", "sql.postgres", "sql.mssql"))
    if hooked:
        ctx.obligation("correspondence: split_off_back / anchor_split = Model.Anchor.splitOffBack / anchorSplit on every recorded call of extract_atomic; "
                       "every well-formed real pipeline is scope-closed", n_bad == 0 and n_ev > 0, f"{n_ev} recorded calls replayed, {n_bad} differ")
        n_c, n_cbad, _ = ctetrace.run_suite(ctx, trace_progs, "ctes", targets=("sql.sqlite", "sql.postgres"))
        ctx.obligation("correspondence: compile_relation_instance (by name / sub-query / CTE, order of the WITH list) = Model.CteOrder.compileMain on the "
                       "recorded nesting of every compilation", n_cbad == 0 and n_c > 0, f"{n_c} compilations replayed, {n_cbad} differ")
        n_pm, n_pmbad, _ = postrace.run_suite(ctx, [p_["prql"] for p_ in appendshapes.programs()] + trace_progs[:400 if quick else 2500], "positional", targets=("sql.sqlite", "sql.postgres"))
        ctx.obligation("correspondence: the positional mapper of set operations = Model.Positional on every recorded call (constraints call by call, "
                       "stored / activated / applied mappings as one state machine per compilation)", n_pmbad == 0 and n_pm > 0, f"{n_pm} recorded calls replayed, {n_pmbad} differ")
    else:
        ctx.count("anchor:skipped (tree has no `verif` hooks)")
        ctx.assumptions.append("the split trace hook is not available in this tree: the splitter mirror was not compared this run")
    ctx.obligation("oracle: accepted programs parse in their dialect and bind on SQLite (all unlisted cases)",
                   not [v for v in ctx.violations if v["kind"] == "failing-input"], f"{len(pmeta)} (program, dialect) pairs parsed")


def replay(obj):
    if obj.get("kind") in ("no-failing-input-found", "correspondence") or obj.get("correspondence"):
        return vlib.replay_correspondence(obj)
    r = obj.get("replay", obj)
    print(json.dumps(r, indent=1)[:3000])
    if "prql" in r:
        print(vh_batch([{"op": "compile", "prql": r["prql"], "target": "sql." + r.get("dialect", "generic") if "dialect" in r else r.get("target", "sql.generic")}])[0])
    return 0
